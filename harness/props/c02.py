"""C02 — assignments are the plurality of bootstrapped nearest-centroid votes."""
import json
from fractions import Fraction

import numpy as np

from harness import mapcheck, instrument


def choose_node_part(ctx):
    from cell_type_mapper.type_assignment import election
    rng = ctx.rng
    n_cases = ctx.n(150, 4000)
    cases, meta = [], []
    for k in range(n_cases):
        n_q = rng.randrange(1, 5)
        n_ref = rng.randrange(1, 7)
        n_g = rng.choice([1, 2, 3, 4, 5, 6, 6, 7, 8, 8, 10, 12])
        wide = rng.random() < 0.7
        hi = 97 if wide else 3
        q = np.array([[rng.randrange(0, hi) / 8.0 for _ in range(n_g)] for _ in range(n_q)])
        refs = np.array([[rng.randrange(0, hi) / 8.0 for _ in range(n_g)] for _ in range(n_ref)])
        n_types = rng.randrange(1, n_ref + 1)
        owners = [rng.randrange(0, n_types) for _ in range(n_ref)]
        types = [f't{o:02d}' for o in owners]
        factor = rng.choice([Fraction(1, 4), Fraction(1, 2), Fraction(3, 4), Fraction(1), Fraction(1, 8), Fraction(7, 8)])
        iters = rng.choice([1, 2, 3, 7, 10])
        n_assign = rng.choice([1, 2, 3, 10])
        log = []
        out = election.choose_node(query_gene_data=q, reference_gene_data=refs, reference_types=list(types),
                                   bootstrap_factor=float(factor), bootstrap_iteration=iters,
                                   rng=instrument._RngProxy(np.random.default_rng(rng.randrange(10 ** 6)), log),
                                   n_assignments=n_assign)
        result, prob, corr, runners = out
        for i in range(n_q):
            w = int(str(result[i])[1:])
            rs = [[int(str(t[0])[1:]), int(round(float(t[3]) * iters))] for t in runners[i] if t[1]]
            cases.append((201, [[int(round(v * 8)) for v in q[i]], [[int(round(v * 8)) for v in row] for row in refs],
                                owners, log, [factor.numerator, factor.denominator], n_assign,
                                [w, int(round(float(prob[i]) * iters)), rs]]))
            meta.append({'kind': 'choose_node', 'q': q[i].tolist(), 'refs': refs.tolist(), 'owners': owners,
                         'subsets': log, 'factor': str(factor), 'iters': iters, 'n_assign': n_assign,
                         'winner': w, 'prob': float(prob[i]), 'corr': float(corr[i]),
                         'runners': [[str(t[0]), bool(t[1]), float(t[2]), float(t[3])] for t in runners[i]]})
    res = ctx.model(cases)
    for (tag, case), m, d in zip(cases, res, meta):
        ctx.count(('cn', json.dumps(case)), nontrivial=len(set(d['owners'])) > 1 and len(d['q']) > 1)
        ctx.dist('choose_node_subset_size', len(d['subsets'][0]) if d['subsets'] else 0)
        if m[0] != 0:
            d['class'] = 'corr:Vote.tally'
            ctx.violation(f'model could not evaluate choose_node case: {m}', d, no_input=True)
            continue
        subsets_ok, votes, winners, accepted = m[1]
        d['model_votes'] = votes
        d['model_winners'] = winners
        if not subsets_ok:
            ctx.disagreements_checked += 1
            d['class'] = 'c02-subset'
            ctx.violation('a drawn subset is not duplicate-free / in range / of size max(1, round(factor*n))', d)
            continue
        near, corr_sum = mapcheck.vote_margins(case[0], case[1], d['owners'], d['subsets'], winners)
        if near:
            ctx.extra['near_ties_skipped'] = ctx.extra.get('near_ties_skipped', 0) + 1
            continue
        ctx.traces_validated += 1
        if not accepted:
            ctx.disagreements_checked += 1
            d['class'] = 'c02-votes'
            ctx.violation(f'choose_node output is not a plurality outcome of the recomputed votes {votes}', d)
            continue
        exp = sum(corr_sum[d['winner']]) / len(corr_sum[d['winner']])
        if abs(exp - d['corr']) > 1e-9:
            ctx.disagreements_checked += 1
            d['class'] = 'c02-avg-corr'
            ctx.violation(f'avg correlation {d["corr"]} but mean winning correlation over own votes is {exp}', d)


def run(ctx):
    ctx.rule = ('(i) choose_node on random dyadic matrices with a recording generator: every vote of every query row '
                'recomputed exactly by the extracted model; (ii) real run_mapping on generated scenarios (trees, marker '
                'tables with fall-back, gene orders, flatten/drop, chunking, workers, factors, iterations, runners-up) with '
                'every (cell, node) vote recomputed from the input files and the recorded subsets; non-trivial = a vote '
                'among >= 2 children; near ties (relative margin <= 1e-9 between leaves of different children) are skipped '
                'and counted')
    ctx.assumptions += ['float rounding inside np.dot / np.mean is not modelled: decisions are compared, near ties excused; '
                        'correlation values compared within 1e-9',
                        'bootstrap factors are dyadic so that factor*n is exact in binary64',
                        'marker tables whose non-empty lists lack any query gene are not generated here (C08, finding F7)']
    choose_node_part(ctx)
    mapcheck.run_batch(ctx, ctx.n(25, 400), ('c02-', 'c08-reported', 'corr:Vote', 'corr:trace'), 'map')


def replay(ctx, rec):
    print(json.dumps(rec, indent=1)[:6000])
    return 0
