"""C02 — assignments are the plurality of bootstrapped nearest-centroid votes."""
import json
from fractions import Fraction

import numpy as np

from harness import mapcheck, instrument


def choose_node_part(ctx):
    from cell_type_mapper.type_assignment import election
    rng = ctx.rng
    n_cases = ctx.n(150, 4000)
    cases, meta = [], []
    for k in range(n_cases):
        n_q = rng.randrange(1, 5)
        n_ref = rng.randrange(1, 7)
        n_g = rng.choice([1, 2, 3, 4, 5, 6, 6, 7, 8, 8, 10, 12])
        wide = rng.random() < 0.7
        hi = 97 if wide else 3
        q = np.array([[rng.randrange(0, hi) / 8.0 for _ in range(n_g)] for _ in range(n_q)])
        refs = np.array([[rng.randrange(0, hi) / 8.0 for _ in range(n_g)] for _ in range(n_ref)])
        n_types = rng.randrange(1, n_ref + 1)
        owners = [rng.randrange(0, n_types) for _ in range(n_ref)]
        types = [f't{o:02d}' for o in owners]
        factor = rng.choice([Fraction(1, 4), Fraction(1, 2), Fraction(3, 4), Fraction(1), Fraction(1, 8), Fraction(7, 8)])
        iters = rng.choice([1, 2, 3, 7, 10])
        n_assign = rng.choice([1, 2, 3, 10])
        log = []
        out = election.choose_node(query_gene_data=q, reference_gene_data=refs, reference_types=list(types),
                                   bootstrap_factor=float(factor), bootstrap_iteration=iters,
                                   rng=instrument._RngProxy(np.random.default_rng(rng.randrange(10 ** 6)), log),
                                   n_assignments=n_assign)
        result, prob, corr, runners = out
        for i in range(n_q):
            w = int(str(result[i])[1:])
            rs = [[int(str(t[0])[1:]), int(round(float(t[3]) * iters))] for t in runners[i] if t[1]]
            cases.append((201, [[int(round(v * 8)) for v in q[i]], [[int(round(v * 8)) for v in row] for row in refs],
                                owners, log, [factor.numerator, factor.denominator], n_assign,
                                [w, int(round(float(prob[i]) * iters)), rs]]))
            meta.append({'kind': 'choose_node', 'q': q[i].tolist(), 'refs': refs.tolist(), 'owners': owners,
                         'subsets': log, 'factor': str(factor), 'iters': iters, 'n_assign': n_assign,
                         'winner': w, 'prob': float(prob[i]), 'corr': float(corr[i]),
                         'runners': [[str(t[0]), bool(t[1]), float(t[2]), float(t[3])] for t in runners[i]]})
    res = ctx.model(cases)
    for (tag, case), m, d in zip(cases, res, meta):
        ctx.count(('cn', json.dumps(case)), nontrivial=len(set(d['owners'])) > 1 and len(d['q']) > 1)
        ctx.dist('choose_node_subset_size', len(d['subsets'][0]) if d['subsets'] else 0)
        if m[0] != 0:
            d['class'] = 'corr:Vote.tally'
            ctx.violation(f'model could not evaluate choose_node case: {m}', d, no_input=True)
            continue
        subsets_ok, votes, winners, accepted = m[1]
        d['model_votes'] = votes
        d['model_winners'] = winners
        if not subsets_ok:
            ctx.disagreements_checked += 1
            d['class'] = 'c02-subset'
            ctx.violation('a drawn subset is not duplicate-free / in range / of size max(1, round(factor*n))', d)
            continue
        near, corr_sum = mapcheck.vote_margins(case[0], case[1], d['owners'], d['subsets'], winners)
        if near:
            ctx.extra['near_ties_skipped'] = ctx.extra.get('near_ties_skipped', 0) + 1
            continue
        ctx.traces_validated += 1
        if not accepted:
            ctx.disagreements_checked += 1
            d['class'] = 'c02-votes'
            ctx.violation(f'choose_node output is not a plurality outcome of the recomputed votes {votes}', d)
            continue
        exp = sum(corr_sum[d['winner']]) / len(corr_sum[d['winner']])
        if abs(exp - d['corr']) > 1e-9:
            ctx.disagreements_checked += 1
            d['class'] = 'c02-avg-corr'
            ctx.violation(f'avg correlation {d["corr"]} but mean winning correlation over own votes is {exp}', d)


def raw_profile_part(ctx):
    """The vote is cast on the cell's log2(CPM+1) profile: a run on RAW counts (several chunks, several workers,
    cells whose total lies in (0,1), all-zero cells) must give what a run on the same cells normalised here
    (numpy, float64: log2(1 + 1e6 x / sum x)) and declared log2CPM gives -- at bootstrap factor 1, where the
    subsets do not depend on the generator.  Votes and assignments exactly, correlations within 1e-9; cells with
    a near-tie vote are excused and counted."""
    import numpy as np
    from harness import pipeline, paired
    rng = ctx.rng
    for k in range(ctx.n(5, 60)):
        sc = pipeline.gen_scenario(rng, max_levels=4, max_leaves=8, n_cells=rng.randrange(5, 14))
        ncell, ng = len(sc.cell_ids), len(sc.query_genes)
        raw = np.array([[float(rng.randrange(0, 40)) for _ in range(ng)] for _ in range(ncell)])
        for i in range(ncell):
            r = rng.random()
            if r < 0.25:
                raw[i] *= 2.0 ** -rng.randrange(8, 14)      # "counts" in other units: total strictly between 0 and 1
            elif r < 0.35:
                raw[i, :] = 0.0
        tot = raw.sum(axis=1, keepdims=True)
        norm = np.log2(1.0 + raw * 1.0e6 / np.where(tot > 0, tot, 1.0))
        var = paired.base_var(rng, sc, factor=1.0)
        va = dict(var, chunk_size=rng.randrange(1, 5), n_processors=rng.randrange(1, 4))
        vb = dict(var, chunk_size=ncell + 1, n_processors=1)
        ra = paired.run_once(ctx, sc, f'raw{k}', query=raw, normalization='raw', encoding=rng.choice(['dense', 'csr', 'csc']), **va)
        rb = paired.run_once(ctx, sc, f'nrm{k}', query=norm, normalization='log2CPM', **vb)
        nontrivial = any(len(c) >= 2 for lv in sc.tree.model[:-1] for _, c in lv) or len(sc.tree.model[0]) >= 2
        ctx.count(('raw-profile', k), nontrivial=nontrivial)
        ctx.dist('raw_profile_chunks', -(-ncell // va['chunk_size']))
        desc = {'kind': 'raw-vs-recomputed-profile', 'tree': sc.tree.data, 'markers': sc.markers, 'cell_ids': sc.cell_ids,
                'raw': raw.tolist(), 'query_genes': sc.query_genes, 'ref_genes': sc.ref_genes,
                'means': {str(a): b for a, b in sc.means.items()}, 'config_raw': va, 'config_normalised': vb}
        if not ra['ok'] or not rb['ok']:
            desc['class'] = 'c02-raw-run-raises'
            desc['error'] = ra['error'] or rb['error']
            ctx.violation(f'a run raised: {desc["error"]}', desc)
            continue
        a, b = paired.by_cell(ra), paired.by_cell(rb)
        for j, cid in enumerate(sc.cell_ids):
            diff = paired.compare_records(a[cid], b[cid], sc.tree.levels)
            if diff:
                if paired.near_tie_cell(sc, ra['output'], raw[j], sc.query_genes, 'raw'):
                    ctx.extra['near_ties_skipped'] = ctx.extra.get('near_ties_skipped', 0) + 1
                    continue
                ctx.disagreements_checked += 1
                desc['class'] = 'c02-raw-profile'
                desc['cell'] = cid
                ctx.violation(f'cell {cid} (row {j}, raw total {float(tot[j][0])}): mapping of the raw counts differs from the mapping '
                              f'of its log2(CPM+1) profile: {diff}', desc)
                break


def run(ctx):
    ctx.rule = ('(i) choose_node on random dyadic matrices with a recording generator: every vote of every query row '
                'recomputed exactly by the extracted model; (ii) real run_mapping on generated scenarios (trees, marker '
                'tables with fall-back, gene orders, flatten/drop, chunking, workers, factors, iterations, runners-up) with '
                'every (cell, node) vote recomputed from the input files and the recorded subsets; non-trivial = a vote '
                'among >= 2 children; (iii) raw-count runs (several chunks / workers, totals in (0,1), all-zero cells) against runs on the '
                'log2(CPM+1) profile computed here; near ties (relative margin <= 1e-9 between leaves of different children) are skipped '
                'and counted')
    ctx.assumptions += ['float rounding inside np.dot / np.mean is not modelled: decisions are compared, near ties excused; '
                        'correlation values compared within 1e-9',
                        'bootstrap factors are dyadic so that factor*n is exact in binary64',
                        'a parent with >= 2 children always lists at least one query gene (an entry without any is the rejection studied by C08); single-child parents may list reference genes that the query lacks']
    choose_node_part(ctx)
    raw_profile_part(ctx)
    mapcheck.run_batch(ctx, ctx.n(25, 400), ('c02-', 'c08-reported', 'corr:Vote', 'corr:trace'), 'map')


def replay(ctx, rec):
    print(json.dumps(rec, indent=1)[:6000])
    return 0
