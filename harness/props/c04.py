"""C04 — results depend only on inputs and seed, never on scheduling.

Ties between Model/Gather.v and the real stages:

 S  controlled schedules: the workers of a stage are real forked processes, delayed by
    harness/faults.py so that they complete in a chosen order (every permutation for <= 3
    workers in the quick tier, <= 4 in the thorough tier); the outputs are compared BITWISE
    with those of the undelayed run; the observed completion order, chunks and seeds are
    fed to the model (Gather.run_gather / run_chunks / run_seeds_sx) and its prediction is
    compared with what the stage returned.  Selection: besides the lookup as a mapping, the ORDER of its
    keys and of the keys of its 'log' entry (= the order of the entries of the query-marker JSON file) is
    compared between runs whose workers finish in opposite orders, on taxonomies designed to have >= 4
    selection workers and a single-child parent, and with Gather.run_selection_result (parent_list order).
 W  worker counts: every n_processors in 1..6 on the same input; the model's effective chunk
    size partitions the counts into classes; inside a class the mappings are bitwise equal.
 H  hash seeds: the four stages chained in fresh interpreters with PYTHONHASHSEED = 0,1,2,...;
    every output compared bitwise across the seeds.  Besides random inputs, scenarios DESIGNED
    to be sensitive to the order in which the parents of one level consume the chunk's random
    generator: explicit tree shapes with >= 3 levels and several multi-child parents per level,
    a reference with a marker signal at every node, >= 12 query cells spread over all the
    branches, bootstrap_factor in {0.5, 0.75}, bootstrap_iteration >= 5.
 B  bitwise reference statistics: float64 data whose partial sums are NOT exact (log2CPM values
    used as given, and raw counts normalised by the code), >= 3 worker buffers that each hold
    cells of every cluster (observed), `sum`/`sumsq` and everything else compared BITWISE between
    >= 3 plain repetitions and across forced completion orders; the order in which the parent
    merges the buffers (observed through a harness-side proxy of the stage module's `h5py` name)
    compared with dispatch order and with Gather.run_stats_merge (c04_stats_merge_order_fixed)."""
import contextlib
import hashlib
import io
import itertools
import json
import os
import pathlib
import shutil
import subprocess
import sys

import h5py
import numpy as np

from harness import faults, pipeline, core, gen, trees, mapcheck
from harness.props import c14 as K

STEP = 0.16          # seconds between two successive completions


# ------------------------------------------------------------------ comparing outputs
def h5_digest(path, skip=('metadata',), values_only=False):
    """{dataset path: (dtype, shape, sha1 of the bytes)} for every dataset of an HDF5 file.
    values_only: integer arrays are compared as integers whatever their width (the width of an index array is
    chosen from its largest value by whichever code path wrote it; it is storage, not content)."""
    out = {}

    def visit(name, obj):
        if isinstance(obj, h5py.Dataset) and name.split('/')[-1] not in skip:
            v = obj[()]
            if isinstance(v, np.ndarray):
                if values_only and v.dtype.kind in 'iu':
                    v = v.astype(np.int64)
                b = v.tobytes() if v.dtype != object else repr(v.tolist()).encode()
                out[name] = (str(v.dtype), list(v.shape), hashlib.sha1(b).hexdigest())
            else:
                b = v if isinstance(v, bytes) else repr(v).encode()
                if name.split('/')[-1] == 'taxonomy_tree':
                    b = strip_tree(json.loads(b.decode('utf-8'))).encode('utf-8')
                out[name] = ('scalar', [], hashlib.sha1(b).hexdigest())
    with h5py.File(path, 'r') as f:
        f.visititems(visit)
    return out


def strip_tree(tree):
    """The serialized taxonomy tree without its `metadata` entry (factory, timestamp, paths)."""
    if isinstance(tree, dict):
        tree = {k: v for k, v in tree.items() if k != 'metadata'}
    return json.dumps(tree)


def mapping_digest(d):
    """What a mapping run produced, minus what legitimately differs between runs
    (config paths, log, timestamps)."""
    blob = json.load(open(d / 'out' / 'result.json'))
    res = {'results': json.dumps(blob.get('results')),
           'marker_genes': json.dumps(blob.get('marker_genes')),
           'taxonomy_tree': strip_tree(blob.get('taxonomy_tree'))}
    p = d / 'out' / 'result.csv'
    if p.exists():
        res['csv'] = ''.join(ln for ln in open(p) if not ln.startswith('#'))
    p = d / 'out' / 'result.h5'
    if p.exists():
        res['hdf5'] = h5_digest(p)
    return res


def diff_keys(a, b):
    if isinstance(a, dict) and isinstance(b, dict):
        bad = []
        for k in sorted(set(a) | set(b)):
            if k not in a or k not in b:
                bad.append(str(k))
            else:
                bad += [f'{k}/{x}' if x else str(k) for x in diff_keys(a[k], b[k])]
        return bad
    return [] if a == b else ['']


# ------------------------------------------------------------------ schedules
def completion_order(trace, stage, ev='end'):
    t = [(r['t'], r['k']) for r in trace if r['ev'] == ev and r['stage'] == stage]
    return [k for _, k in sorted(t)]


def delays_for(sigma, before=False):
    """Worker sigma[j] completes j-th."""
    d = {w: STEP * j for j, w in enumerate(sigma)}
    return d


def schedules(rng, k, limit):
    perms = list(itertools.permutations(range(k)))
    if len(perms) <= limit:
        return perms
    # always: dispatch order, its reverse, and the order that keeps the first and the last worker in place and
    # reverses the ones in between (a gathered list whose two ends look sorted although its middle is not)
    ends_fixed = (0,) + tuple(range(k - 2, 0, -1)) + (k - 1,)
    keep = [perms[0], perms[-1]] + ([ends_fixed] if k >= 4 else [])
    rest = [p_ for p_ in perms[1:-1] if p_ not in keep]
    keep += rng.sample(rest, max(0, limit - len(keep)))
    return keep


def run_scheduled(ctx, stage, make_fn, d, sigma, inj=None, before=False):
    """Run the stage with workers delayed so that they complete in the order sigma.
    Returns (result of call_stage, trace)."""
    plan = {}
    if sigma is not None:
        key = 'delay_before' if before else 'delay_after'
        plan[key] = {stage: delays_for(sigma)}
    res = K.call_stage(make_fn(d), inj or [stage], trace_dir=d / 'trace', poll_sleep=0.002, **plan)
    trace = faults.read_trace(d / 'trace')
    return res, trace


# ------------------------------------------------------------------ S/W: mapping through run_mapping
def mapping_schedules(ctx, rng, tag, n_cells, chunk_size, n_processors, limit):
    base = ctx.scratch / f'ms_{tag}'
    base.mkdir()
    sc = K.mapping_inputs(rng, base, n_cells, max_leaves=7)
    rng_seed = rng.randrange(10 ** 6)
    boot = rng.choice([0.5, 0.7])

    def mk(d, p=n_processors):
        d.mkdir()
        cfg = pipeline.config_for(d, base / 'query.h5ad', base / 'stats.h5', base / 'markers.json',
                                  chunk_size=chunk_size, n_processors=p, rng_seed=rng_seed,
                                  bootstrap_factor=boot, bootstrap_iteration=7)
        return K.mapping_call(cfg)
    res0, tr0 = run_scheduled(ctx, 'mapping', mk, base / 'base', None)
    if not res0['ok']:
        ctx.violation(f'mapping baseline failed: {res0["error"]}', {'class': 'c04-baseline', 'error': res0['error']})
        return
    dig0 = mapping_digest(base / 'base')
    k = len(res0['exit_codes']['mapping'])
    cell_ids = list(sc.cell_ids)                       # the order of the query file
    rank = {c: i for i, c in enumerate(sorted(cell_ids))}
    row_of = {c: i for i, c in enumerate(cell_ids)}
    model_cases, meta = [], []

    def obs_final(dig):
        return [[rank[c['cell_id']], row_of[c['cell_id']]] for c in json.loads(dig['results'])]

    def model_part(trace, order, p, what, dig):
        begins = sorted((r['k'], r['info']) for r in trace if r['ev'] == 'begin' and r['stage'] == 'mapping')
        chunks_o = [[i['r0'], i['r1']] for _, i in begins]
        seeds_o = [[kk, i.get('seed')] for kk, i in begins]
        names = [f"{r0}_{r1}_assignment.json" for r0, r1 in chunks_o]
        nrank = {nm: i for i, nm in enumerate(sorted(names))}
        tables = [[[rank[cell_ids[r]], r] for r in range(r0, r1)] for r0, r1 in chunks_o]
        # 402: chunking; 401: buffer-file gather with the observed completion order; 403: seeds
        stream = [int(x) for x in np.random.default_rng(rng_seed).integers(99, 2 ** 32, size=1)] if False else None
        g = np.random.default_rng(rng_seed)
        stream = [int(g.integers(99, 2 ** 32)) for _ in range(len(chunks_o))]
        model_cases.append((402, [n_cells, p, chunk_size]))
        model_cases.append((401, [1, [rank[c] for c in cell_ids], tables, [nrank[nm] for nm in names], list(order)]))
        model_cases.append((403, [p, len(chunks_o), [0] * len(chunks_o),
                                  [rng.randrange(0, 4) for _ in chunks_o], stream]))
        # 407: the stage as a whole (Gather.mapping_result: chunks derived from (n_cells, p, chunk_size), the
        # dispatch loop run with bound p on a generated world, one seed per chunk, gather in the observed completion
        # order, re_order_blob) -> every cell, in the order of the result, with the seed of the worker that mapped it
        model_cases.append((407, [n_cells, p, chunk_size, [rank[c] for c in cell_ids], [0] * len(chunks_o),
                                  [rng.randrange(0, 4) for _ in chunks_o], stream, list(order)]))
        seed_of_row = {}
        for (r0, r1), (_, sd) in zip(chunks_o, seeds_o):
            for r in range(r0, r1):
                seed_of_row[r] = sd
        meta.append({'what': what, 'chunks': chunks_o, 'seeds': seeds_o, 'order': list(order), 'p': p,
                     'observed_final': obs_final(dig), 'stream': stream,
                     'observed_cell_seed': [[rk, seed_of_row.get(row)] for rk, row in obs_final(dig)]})

    model_part(tr0, completion_order(tr0, 'mapping'), n_processors, 'baseline', dig0)
    missed = 0
    for si, sigma in enumerate(schedules(rng, k, limit)):
        d = base / f's{si}'
        res, tr = run_scheduled(ctx, 'mapping', mk, d, sigma)
        order = completion_order(tr, 'mapping')
        achieved = order == list(sigma)
        missed += 0 if achieved else 1
        key = ('S', 'mapping', tag, tuple(order))
        ctx.count(key, nontrivial=k >= 2 and order != sorted(order))
        ctx.dist('schedule', f'mapping k={k} ' + ('achieved' if achieved else 'missed'))
        rep = {'kind': 'schedule', 'stage': 'mapping', 'n_cells': n_cells, 'chunk_size': chunk_size,
               'n_processors': n_processors, 'rng_seed': rng_seed, 'intended': list(sigma), 'observed_order': order,
               'tree': sc.tree.data}
        if not res['ok']:
            ctx.violation(f'mapping under schedule {sigma} failed: {res["error"]}', dict(rep, **{'class': 'c04-run-failed'}))
            continue
        dig = mapping_digest(d)
        bad = diff_keys(dig0, dig)
        if bad:
            ctx.violation(f'mapping output differs between completion orders {order} and the baseline in {bad}',
                          dict(rep, differs=bad, **{'class': 'c04-mapping-schedule-dependent'}))
        else:
            ctx.traces_validated += 1
        model_part(tr, order, n_processors, f'schedule {sigma}', dig)
        shutil.rmtree(d, ignore_errors=True)
    # W: worker counts
    classes = {}
    for p in range(1, 7):
        d = base / f'w{p}'
        res, tr = run_scheduled(ctx, 'mapping', lambda dd, p=p: mk(dd, p), d, None)
        if not res['ok']:
            ctx.violation(f'mapping with n_processors={p} failed: {res["error"]}', {'class': 'c04-run-failed', 'p': p})
            continue
        dig = mapping_digest(d)
        begins = sorted((r['k'], r['info']) for r in tr if r['ev'] == 'begin' and r['stage'] == 'mapping')
        chunks_o = tuple((i['r0'], i['r1']) for _, i in begins)
        classes.setdefault(chunks_o, []).append((p, dig))
        model_part(tr, completion_order(tr, 'mapping'), p, f'n_processors={p}', dig)
        ctx.count(('W', tag, p), nontrivial=True)
        ctx.dist('worker_count', f'n={n_cells} c={chunk_size} p={p} -> {len(chunks_o)} chunks')
        shutil.rmtree(d, ignore_errors=True)
    for chunks_o, lst in classes.items():
        p0, d0 = lst[0]
        for p, dg in lst[1:]:
            bad = diff_keys(d0, dg)
            if bad:
                ctx.violation(f'mapping differs between n_processors={p0} and {p} although both induce the chunks {chunks_o}: {bad}',
                              {'class': 'c04-mapping-worker-count-dependent', 'n_cells': n_cells, 'chunk_size': chunk_size,
                               'p': [p0, p], 'chunks': chunks_o, 'differs': bad, 'rng_seed': rng_seed, 'tree': sc.tree.data})
            else:
                ctx.traces_validated += 1
    # the baseline must equal the class of n_processors
    # (a) model
    outs = ctx.model(model_cases)
    for i, m in enumerate(meta):
        ch, ga, se, mr = outs[4 * i], outs[4 * i + 1], outs[4 * i + 2], outs[4 * i + 3]
        rep = dict(m, kind='mapping-model', n_cells=n_cells, chunk_size=chunk_size)
        if ch[0] != 0 or ch[1][1] != m['chunks']:
            ctx.violation(f'{m["what"]}: chunks {m["chunks"]} but Gather.run_chunks says {ch}',
                          dict(rep, model=ch, **{'class': 'corr:Gather.run_chunks'}), no_input=True)
        if ga[0] != 0 or ga[1] != [m['observed_final']]:
            ctx.violation(f'{m["what"]}: order of the result records {[x[1] for x in m["observed_final"]]} (row numbers) differs from '
                          f'Gather.run_gather {ga[1]}',
                          dict(rep, model=ga, **{'class': 'corr:Gather.run_gather'}), no_input=True)
        exp_seeds = [[kk, s] for kk, s in zip(range(len(m['chunks'])), m['stream'])]
        if se[0] != 0 or se[1][0] != [0] or se[1][1] != exp_seeds or m['seeds'] != exp_seeds:
            ctx.violation(f'{m["what"]}: seeds seen by the workers {m["seeds"]}; stream {m["stream"]}; Gather.run_seeds_sx {se}',
                          dict(rep, model=se, **{'class': 'corr:Gather.run_seeds_sx'}), no_input=True)
        if mr[0] != 0 or mr[1] != [m['observed_cell_seed']]:
            ctx.violation(f'{m["what"]}: (cell, seed of its worker) in result order {m["observed_cell_seed"]} differs from '
                          f'Gather.mapping_result {mr}',
                          dict(rep, model=mr, **{'class': 'corr:Gather.mapping_result'}), no_input=True)
        else:
            ctx.traces_validated += 1
            ctx.dist('mapping_result', f'p={m["p"]} chunks={len(m["chunks"])} cells={len(m["observed_cell_seed"])} '
                     f'seeds={len({x[1] for x in m["observed_cell_seed"]})}: agrees')
    ctx.extra['schedules_missed'] = ctx.extra.get('schedules_missed', 0) + missed
    ctx.sample({'stage': 'mapping', 'n_cells': n_cells, 'chunk_size': chunk_size, 'k': k,
                'classes': {str(c): [p for p, _ in l] for c, l in classes.items()}})
    shutil.rmtree(base, ignore_errors=True)


# ------------------------------------------------------------------ S: shared-list path of the assignment stage
def shared_list_schedules(ctx, rng, tag, n_cells, chunk_size, limit):
    """run_type_assignment_on_h5ad with results_output_path=None: the workers append to a
    Manager list under a lock, in completion order."""
    from cell_type_mapper.type_assignment.election_runner import run_type_assignment_on_h5ad
    from cell_type_mapper.type_assignment.marker_cache_v2 import create_marker_cache_from_specified_markers
    from cell_type_mapper.taxonomy.taxonomy_tree import TaxonomyTree
    base = ctx.scratch / f'sl_{tag}'
    base.mkdir()
    sc = K.mapping_inputs(rng, base, n_cells, max_leaves=7)
    with h5py.File(base / 'stats.h5', 'r') as f:
        tree = TaxonomyTree.from_str(serialized_dict=f['taxonomy_tree'][()].decode('utf-8'))
        ref_genes = json.loads(f['col_names'][()].decode('utf-8'))
    lookup = json.load(open(base / 'markers.json'))
    qgenes = [pipeline.gname(g) for g in sc.query_genes]
    with K.quiet():
        create_marker_cache_from_specified_markers(marker_lookup=lookup, reference_gene_names=ref_genes,
                                                   query_gene_names=qgenes, output_cache_path=base / 'cache.h5',
                                                   taxonomy_tree=tree, min_markers=2)
    k = -(-n_cells // chunk_size)
    seed = rng.randrange(10 ** 6)
    bfl = {lv: 0.6 for lv in tree.hierarchy[:-1]}
    bfl['None'] = 0.6

    def mk(d):
        d.mkdir()
        (d / 'tmp').mkdir()

        def fn():
            return run_type_assignment_on_h5ad(
                query_h5ad_path=base / 'query.h5ad', precomputed_stats_path=base / 'stats.h5',
                marker_gene_cache_path=base / 'cache.h5', taxonomy_tree=tree, n_processors=k, chunk_size=chunk_size,
                bootstrap_factor_lookup=bfl, bootstrap_iteration=7, rng=np.random.default_rng(seed),
                n_assignments=3, normalization='log2CPM', tmp_dir=str(d / 'tmp'), results_output_path=None)
        return fn
    res0, tr0 = run_scheduled(ctx, 'mapping', mk, base / 'base', None)
    if not res0['ok']:
        ctx.violation(f'assignment (shared list) baseline failed: {res0["error"]}', {'class': 'c04-baseline', 'error': res0['error']})
        return
    ref = json.dumps(res0['value'])
    cell_ids = list(sc.cell_ids)
    rank = {c: i for i, c in enumerate(sorted(cell_ids))}
    row_of = {c: i for i, c in enumerate(cell_ids)}
    cases, meta = [], []
    for si, sigma in enumerate(schedules(rng, k, limit)):
        d = base / f's{si}'
        res, tr = run_scheduled(ctx, 'mapping', mk, d, sigma, before=True)
        order = completion_order(tr, 'mapping', ev='worked')
        ctx.count(('S', 'shared-list', tag, tuple(order)), nontrivial=k >= 2 and order != sorted(order))
        ctx.dist('schedule', f'shared-list k={k} ' + ('achieved' if order == list(sigma) else 'missed'))
        rep = {'kind': 'schedule', 'stage': 'assignment-shared-list', 'n_cells': n_cells, 'chunk_size': chunk_size,
               'intended': list(sigma), 'observed_order': order, 'seed': seed}
        if not res['ok']:
            ctx.violation(f'assignment under schedule {sigma} failed: {res["error"]}', dict(rep, **{'class': 'c04-run-failed'}))
            continue
        if json.dumps(res['value']) != ref:
            ctx.violation(f'assignment (shared list) differs between completion order {order} and the baseline',
                          dict(rep, **{'class': 'c04-mapping-schedule-dependent'}))
        else:
            ctx.traces_validated += 1
        begins = sorted((r['k'], r['info']) for r in tr if r['ev'] == 'begin' and r['stage'] == 'mapping')
        tables = [[[rank[cell_ids[r]], r] for r in range(i['r0'], i['r1'])] for _, i in begins]
        cases.append((401, [0, [rank[c] for c in cell_ids], tables, list(range(len(tables))), order]))
        meta.append((rep, [[rank[c['cell_id']], row_of[c['cell_id']]] for c in res['value']]))
        shutil.rmtree(d, ignore_errors=True)
    for (rep, exp), out in zip(meta, ctx.model(cases)):
        if out[0] != 0 or out[1] != [exp]:
            ctx.violation('final order of the shared-list path differs from Gather.run_gather',
                          dict(rep, model=out, **{'class': 'corr:Gather.run_gather'}), no_input=True)
    shutil.rmtree(base, ignore_errors=True)


# ------------------------------------------------------------------ S: the other stages
def generic_schedules(ctx, rng, stage, tag, make_fn, digest, limit, inj=None, what=''):
    base = ctx.scratch / f'gs_{stage}_{tag}'
    base.mkdir()
    res0, tr0 = run_scheduled(ctx, stage, make_fn, base / 'base', None, inj=inj)
    if not res0['ok']:
        ctx.violation(f'{stage} baseline failed: {res0["error"]}', {'class': 'c04-baseline', 'stage': stage, 'error': res0['error']})
        return None
    dig0 = digest(base / 'base', res0)
    k = len(res0['exit_codes'][stage])
    if k < 2:
        ctx.dist('schedule', f'{stage} skipped (k={k})')
        return dig0
    for si, sigma in enumerate(schedules(rng, k, limit)):
        d = base / f's{si}'
        res, tr = run_scheduled(ctx, stage, make_fn, d, sigma, inj=inj)
        order = completion_order(tr, stage)
        ctx.count(('S', stage, tag, tuple(order)), nontrivial=order != sorted(order))
        ctx.dist('schedule', f'{stage} k={k} ' + ('achieved' if order == list(sigma) else 'missed'))
        rep = {'kind': 'schedule', 'stage': stage, 'input': what, 'intended': list(sigma), 'observed_order': order}
        if not res['ok']:
            ctx.violation(f'{stage} under schedule {sigma} failed: {res["error"]}', dict(rep, **{'class': 'c04-run-failed'}))
            continue
        bad = diff_keys(dig0, digest(d, res))
        if bad:
            ctx.violation(f'{stage}: output differs between completion order {order} and the baseline in {bad}',
                          dict(rep, differs=bad, **{'class': f'c04-{stage}-schedule-dependent'}))
        else:
            ctx.traces_validated += 1
        shutil.rmtree(d, ignore_errors=True)
    return dig0


# ------------------------------------------------------------------ S: key order of the query-marker lookup
KEY_ORDER_CLASS = 'c04-lookup-key-order-follows-completion-order'


def lookup_key(parent):
    return 'None' if parent is None else f'{parent[0]}/{parent[1]}'


def parent_keys_of(stats_path):
    """The parent_list select_all_markers works through (TaxonomyTree.all_parents), as lookup keys, read
    from the serialized tree of the statistics file: the root, then level by level in the order of the file."""
    with h5py.File(stats_path, 'r') as f:
        tree = json.loads(f['taxonomy_tree'][()].decode('utf-8'))
    return ['None'] + [f'{lv}/{nd}' for lv in tree['hierarchy'][:-1] for nd in tree[lv]]


def selection_key_order(ctx, rng, tag, make_fn, what, parents):
    """select_all_markers collects the per-parent results in a dict the workers fill when they are done and
    returns them in the order of its parent_list ({parent: output_dict[parent] for parent in parent_list},
    the log the same way): the ORDER of the keys of the lookup - which is the order of the entries of the JSON
    file the query_markers CLI writes - and of its 'log' entry must be the same in two runs whose workers are
    forced to finish their work in opposite orders (b), and must be the one Gather.run_selection_result
    gives for parent_list and the observed order in which the dict was filled (a)."""
    import ast
    base = ctx.scratch / f'ko_{tag}'
    base.mkdir()
    res0, tr0 = run_scheduled(ctx, 'selection', make_fn, base / 'b', None)
    k = len(res0['exit_codes']['selection']) if res0['ok'] else 0
    if k < 2:
        ctx.dist('schedule', f'selection key order skipped (k={k})')
        shutil.rmtree(base, ignore_errors=True)
        return
    seen, cases, meta = [], [], []
    for name, sigma in (('f', list(range(k))), ('r', list(range(k - 1, -1, -1)))):
        res, tr = run_scheduled(ctx, 'selection', make_fn, base / name, sigma, before=True)
        worked = completion_order(tr, 'selection', ev='worked')
        ctx.count(('S', 'selection-key-order', tag, tuple(worked)), nontrivial=worked != sorted(worked))
        if not res['ok']:
            ctx.violation(f'selection under schedule {sigma} failed: {res["error"]}',
                          {'class': 'c04-run-failed', 'stage': 'selection', 'intended': sigma, 'input': what})
            continue
        value = {kk: vv for kk, vv in res['value'].items() if kk not in ('log', 'metadata')}
        keys, log_keys = list(value), list(res['value'].get('log', {}))
        seen.append((sigma, worked, keys, log_keys, value))
        # (a) the order in which output_dict was filled: the parents without a pair of leaves to compare are
        # filled by the dispatcher itself (no worker; put first - by c04_selection_result_order_independent
        # their place does not matter), then the parents of the workers in the order they finished their work
        of_worker = {r['k']: lookup_key(ast.literal_eval(r['info']['parent_node']))
                     for r in tr if r['ev'] == 'begin' and r['stage'] == 'selection'}
        by_worker = [of_worker[w] for w in worked]
        fill = [pk for pk in parents if pk not in by_worker] + by_worker
        idx = {pk: i for i, pk in enumerate(parents)}
        vals = []                                   # payload = index of the gene list among the distinct ones

        def val_id(v):
            if v not in vals:
                vals.append(v)
            return vals.index(v)
        rep = {'stage': 'selection', 'intended': sigma, 'observed_order': worked, 'filled_in_order': fill,
               'parent_list': parents, 'key_order': keys, 'log_key_order': log_keys, 'input': what}
        if sorted(fill) != sorted(parents) or set(value) != set(parents):
            ctx.violation(f'selection: parent_list {parents}, workers ran for {by_worker}, lookup has the keys {keys}',
                          dict(rep, **{'class': 'corr:Gather.run_selection_result'}), no_input=True)
            continue
        cases.append((406, [[idx[pk] for pk in parents], [[idx[pk], val_id(value[pk])] for pk in fill]]))
        meta.append((rep, [[idx[pk], val_id(value[pk])] for pk in keys], [idx[pk] for pk in log_keys if pk in idx],
                     len(log_keys)))
    for (rep, got, got_log, n_log), out in zip(meta, ctx.model(cases) if cases else []):
        if out[0] != 0 or out[1] != [got]:
            ctx.violation(f'selection: the returned lookup lists its parents in the order {rep["key_order"]}; '
                          f'Gather.run_selection_result gives the order of parent_list {rep["parent_list"]}',
                          dict(rep, model=out, **{'class': 'corr:Gather.run_selection_result'}), no_input=True)
        elif n_log != len(got) or got_log != [pv[0] for pv in out[1][0]]:
            ctx.violation(f'selection: the log of the returned lookup lists its parents in the order {rep["log_key_order"]}; '
                          f'Gather.run_selection_result gives the order of parent_list {rep["parent_list"]}',
                          dict(rep, model=out, **{'class': 'corr:Gather.run_selection_result'}), no_input=True)
    if len(seen) == 2:
        (s1, w1, k1, l1, v1), (s2, w2, k2, l2, v2) = seen
        if v1 != v2:
            ctx.violation(f'selection: the lookup differs as a mapping between the completion orders {w1} and {w2}',
                          {'class': 'c04-selection-schedule-dependent', 'stage': 'selection', 'observed_orders': [w1, w2], 'input': what})
        elif k1 != k2:
            ctx.violation(f'selection: the keys of the returned lookup come in the order {k1} when the workers finish in the order '
                          f'{w1} and in the order {k2} when they finish in the order {w2}',
                          {'class': KEY_ORDER_CLASS, 'stage': 'selection', 'observed_orders': [w1, w2], 'key_orders': [k1, k2],
                           'lookup': v1, 'input': what})
        elif l1 != l2:
            ctx.violation(f"selection: the keys of the 'log' entry of the returned lookup come in the order {l1} when the workers "
                          f'finish in the order {w1} and in the order {l2} when they finish in the order {w2}',
                          {'class': KEY_ORDER_CLASS, 'stage': 'selection', 'observed_orders': [w1, w2], 'log_key_orders': [l1, l2],
                           'lookup': v1, 'input': what})
        else:
            ctx.traces_validated += 1
    shutil.rmtree(base, ignore_errors=True)


# ------------------------------------------------------------------ designed inputs (B, H)
def labels_of(gt, lf):
    """Names of the ancestors of leaf lf, top level first, the leaf itself last."""
    L = len(gt.levels)
    lab = [None] * L
    lab[L - 1] = gt.name(lf)
    cur = lf
    for li in range(L - 1, 0, -1):
        cur = mapcheck.parent_of(gt.model, li, cur)
        lab[li - 1] = gt.name(cur)
    return lab


def write_reference(path, gt, M, labels, genes, encoding):
    obs = {gt.levels[i]: [lab[i] for lab in labels] for i in range(len(gt.levels))}
    gen.write_h5ad(path, M, [f'r{i}' for i in range(len(M))], genes, encoding=encoding, obs_cols=obs)


def designed_reference(rng, base, shape, rows_per_leaf=(4, 6)):
    """A reference h5ad over trees.build(shape): raw counts stored as float64 (so that the
    log2(CPM+1) values and their partial sums are float64 and not exact).  Every node of a
    level with >= 2 nodes has 2-3 genes of its own that are high in all the leaves below it:
    every multi-child parent has a marker signal.  Returns (gt, genes, M, labels, encoding)."""
    gt = trees.build(shape, rng)
    L = len(gt.levels)
    leaves = [n for n, _ in gt.model[-1]]
    own = {}
    ng = 0
    for li in range(L):
        if len(gt.model[li]) < 2:
            continue
        for node, _ in gt.model[li]:
            k = rng.choice([2, 3])
            own[(li, node)] = list(range(ng, ng + k))
            ng += k
    ng += rng.randrange(2, 6)                       # genes without any signal
    perm = list(range(ng))
    rng.shuffle(perm)
    path = {}
    for lf in leaves:
        nodes, cur = [(L - 1, lf)], lf
        for li in range(L - 1, 0, -1):
            cur = mapcheck.parent_of(gt.model, li, cur)
            nodes.append((li - 1, cur))
        path[lf] = nodes
    rows, labels = [], []
    for lf in leaves:
        prof = [0] * ng
        for nd in path[lf]:
            for g in own.get(nd, []):
                prof[perm[g]] = rng.choice([40, 80, 150, 300])
        for _ in range(rng.randrange(rows_per_leaf[0], rows_per_leaf[1] + 1)):
            rows.append([max(0, v + rng.randrange(-3, 4)) if v > 0 else rng.choice([0, 0, 0, 1, 2]) for v in prof])
            labels.append(labels_of(gt, lf))
    order = list(range(len(rows)))
    rng.shuffle(order)
    M = np.array([rows[i] for i in order], dtype=np.float64)
    labels = [labels[i] for i in order]
    genes = [pipeline.gname(g) for g in range(ng)]
    encoding = rng.choice(['csr', 'dense'])
    write_reference(base / 'ref.h5ad', gt, M, labels, genes, encoding)
    return gt, genes, M, labels, encoding


KEY_ORDER_SHAPES = ([[2, 2], [2, 2, 1, 2]], [[2, 1], [2, 2, 2]], [[1, 2], [3, 1, 2]], [[3], [2, 2, 1], [2, 1, 2, 2, 2]])


def designed_selection_key_order(ctx, rng, tag, shape):
    """selection_key_order on a taxonomy built to have >= 4 parents with a pair of leaves to compare (one
    selection worker each, all running at once) and at least one parent with a single child (filled by the
    dispatcher, no worker); node names drawn so that the order of the tree differs from the sorted one."""
    base = ctx.scratch / f'kd_{tag}'
    base.mkdir()
    gt, genes, M, labels, encoding = designed_reference(rng, base, shape, rows_per_leaf=(3, 4))
    with K.quiet():
        K.stats_call(base, base, gt, 50, 1)()
        K.markers_call(base / 'stats.h5', base, 2)()
        with h5py.File(base / 'refm.h5', 'a') as f:
            f.create_dataset('metadata', data=json.dumps({'precomputed_path': str(base / 'stats.h5')}).encode('utf-8'))
    qgenes = list(genes)
    rng.shuffle(qgenes)

    def mk_sel(d):
        d.mkdir()
        return K.selection_call(base / 'refm.h5', qgenes, d, 8, 1000)
    parents = parent_keys_of(base / 'stats.h5')
    ctx.dist('selection_key_order', f'{gt.shape_key()} parents={len(parents)}')
    selection_key_order(ctx, rng, f'd{tag}', mk_sel, parents=parents,
                        what={'shape': shape, 'tree': gt.data, 'genes': genes, 'query_genes': qgenes, 'reference_X': M.tolist(),
                              'reference_obs': {lv: [lab[i] for lab in labels] for i, lv in enumerate(gt.levels)}})
    shutil.rmtree(base, ignore_errors=True)


def stats_call2(base, d, gt, rows_at_a_time, n_processors, normalization):
    from cell_type_mapper.diff_exp.precompute_from_anndata import precompute_summary_stats_from_h5ad
    (d / 'tmp').mkdir(exist_ok=True)

    def fn():
        precompute_summary_stats_from_h5ad(base / 'ref.h5ad', gt.levels, None, d / 'stats.h5',
                                           rows_at_a_time=rows_at_a_time, normalization=normalization,
                                           tmp_dir=str(d / 'tmp'), n_processors=n_processors)
    return fn


# ------------------------------------------------------------------ B: reference statistics, bitwise
STATS_MODULE = 'cell_type_mapper.diff_exp.precompute_from_anndata'


class _H5Proxy:
    """Stands in for the module-level name `h5py` of the statistics stage (harness side, no source
    hook): every buffer file the PARENT opens for reading is noted, with the n_cells it holds, in
    the order in which the parent opens (= merges) them."""

    def __init__(self, real, log):
        self.__dict__.update(_real=real, _log=log, _pid=os.getpid())

    def File(self, name, mode='r', *a, **kw):
        nm = os.path.basename(str(name))
        if mode == 'r' and nm.startswith('precomputation_buffer_') and os.getpid() == self._pid:
            with self._real.File(name, 'r') as f:
                nc = [int(x) for x in f['n_cells'][()]]
            self._log.append((str(name), nc))
        return self._real.File(name, mode, *a, **kw)

    def __getattr__(self, k):
        return getattr(self._real, k)


@contextlib.contextmanager
def merge_observer(log):
    import importlib
    if not faults.guard_on():
        raise RuntimeError('CELL_TYPE_MAPPER_VERIF=1 is not set')
    mod = importlib.import_module(STATS_MODULE)
    real = mod.h5py
    mod.h5py = _H5Proxy(real, log)
    try:
        yield
    finally:
        mod.h5py = real


def stats_blocks(n_rows, p, rat):
    """Row ranges of the workers as the statistics stage splits the work (a worker takes row
    chunks until it holds MORE than ceil(n_rows / p) rows).  Only used to PLACE the cells; what
    the buffers really hold is observed."""
    n_per = -(-n_rows // p)
    out, start, cur = [], 0, 0
    for r0 in range(0, n_rows, rat):
        r1 = min(n_rows, r0 + rat)
        cur += r1 - r0
        if cur > n_per:
            out.append((start, r1))
            start, cur = r1, 0
    if start < n_rows:
        out.append((start, n_rows))
    return out


def stats_inputs(rng, base, p, normalization):
    """float64 expression data that is not dyadic, every cluster present in the row range of every
    one of the p workers."""
    c = rng.randrange(3, 7)
    a = rng.randrange(1, c)
    gt = trees.build([[a, c - a]], rng)
    leaves = [n for n, _ in gt.model[-1]]
    rat = rng.choice([2, 3, 4])
    blocks = None
    for n_rows in range(8 * c + rng.randrange(0, 9), 8 * c + 80):
        b = stats_blocks(n_rows, p, rat)
        if len(b) == p and all(r1 - r0 >= c + 1 for r0, r1 in b):
            blocks = b
            break
    if blocks is None:
        raise RuntimeError('stats_inputs: no row count found (harness)')
    owner = []
    for r0, r1 in blocks:
        blk = list(leaves) + [rng.choice(leaves) for _ in range(r1 - r0 - c)]
        rng.shuffle(blk)
        owner += blk
    ng = rng.randrange(8, 15)
    if normalization == 'log2CPM':
        # used as given
        M = [[rng.random() * 37.123 if rng.random() < 0.75 else 0.0 for _ in range(ng)] for _ in owner]
    else:
        # raw counts, normalised by the code: log2(1 + 1e6 * x / row sum)
        M = [[float(rng.randrange(1, 500)) if rng.random() < 0.75 else 0.0 for _ in range(ng)] for _ in owner]
        for r in M:
            if not any(r):
                r[rng.randrange(ng)] = 7.0
    M = np.array(M, dtype=np.float64)
    labels = [labels_of(gt, lf) for lf in owner]
    genes = [pipeline.gname(g) for g in range(ng)]
    encoding = rng.choice(['dense', 'csr'])
    write_reference(base / 'ref.h5ad', gt, M, labels, genes, encoding)
    return gt, genes, M, labels, encoding, rat, blocks


def n_entries_differ(pa, pb, keys=('n_cells', 'sum', 'sumsq', 'gt0', 'gt1', 'ge1')):
    out = {}
    with h5py.File(pa, 'r') as fa, h5py.File(pb, 'r') as fb:
        for k in keys:
            if k in fa and k in fb:
                x, y = fa[k][()], fb[k][()]
                n = int((x.view(np.uint8) != y.view(np.uint8)).reshape(x.size, -1).any(axis=1).sum()) \
                    if x.shape == y.shape and x.dtype == y.dtype else -1
                if n:
                    out[k] = n
    return out


def stats_bitwise(ctx, rng, tag, p, normalization, reps, limit):
    base = ctx.scratch / f'sb_{tag}'
    base.mkdir()
    gt, genes, M, labels, encoding, rat, blocks = stats_inputs(rng, base, p, normalization)
    inp = {'kind': 'stats-bitwise', 'stage': 'stats', 'normalization': normalization, 'rows_at_a_time': rat,
           'n_processors': p, 'encoding': encoding, 'column_hierarchy': gt.levels, 'genes': genes,
           'obs': labels, 'X_float64': M.tolist(), 'planned_worker_rows': blocks}

    def mk(d):
        d.mkdir()
        return stats_call2(base, d, gt, rat, p, normalization)

    runs = []          # (name, sigma, result, order, merge (dispatch numbers), holds)

    def one(name, sigma):
        d = base / name
        log = []
        with merge_observer(log):
            res, tr = run_scheduled(ctx, 'stats', mk, d, sigma)
        order = completion_order(tr, 'stats')
        k_of = {r['info'].get('buffer_path'): r['k'] for r in tr if r['ev'] == 'begin' and r['stage'] == 'stats'}
        if len(k_of) != len(res['exit_codes']['stats']) or not all(isinstance(x, str) for x in k_of):
            # the workers' buffer paths were not recorded (path too long for the trace): merge order unobserved
            ctx.extra['merge_order_unobserved'] = ctx.extra.get('merge_order_unobserved', 0) + 1
            merge = None
        else:
            merge = [k_of.get(pth, -1) for pth, _ in log]
        holds = [nc for _, nc in log]
        runs.append((name, sigma, res, order, merge, holds))
        return d, res, order, merge, holds

    d0, res0, order0, merge0, holds0 = one('p0', None)
    if not res0['ok']:
        ctx.violation(f'stats baseline failed: {res0["error"]}', dict(inp, error=res0['error'], **{'class': 'c04-baseline'}))
        shutil.rmtree(base, ignore_errors=True)
        return
    dig0 = h5_digest(d0 / 'stats.h5')
    k = len(res0['exit_codes']['stats'])
    # the case can show an order dependence of the float sums only if >= 3 buffers hold cells of one cluster;
    # built so that every buffer holds cells of every cluster
    sensitive = k >= 3 and len(holds0) >= 3 and all(all(x > 0 for x in nc) for nc in holds0)
    ctx.dist('stats_bitwise', f'{normalization} p={p} buffers={len(holds0)} ' + ('sensitive' if sensitive else 'INSENSITIVE'))
    if not sensitive:
        ctx.extra['stats_bitwise_insensitive'] = ctx.extra.get('stats_bitwise_insensitive', 0) + 1
    ctx.count(('B', tag, 'plain', 0), nontrivial=sensitive)
    todo = [(f'p{i}', None) for i in range(1, reps)] + [(f's{i}', sg) for i, sg in enumerate(schedules(rng, k, limit))]
    for name, sigma in todo:
        d, res, order, merge, holds = one(name, sigma)
        plain = sigma is None
        if plain:
            ctx.count(('B', tag, 'plain', name), nontrivial=sensitive)
        else:
            ctx.count(('B', tag, tuple(order)), nontrivial=sensitive and order != sorted(order))
            ctx.dist('schedule', f'stats-bitwise k={k} ' + ('achieved' if order == list(sigma) else 'missed'))
        rep = dict(inp, intended=None if plain else list(sigma), observed_order=order, merge_order=merge)
        if not res['ok']:
            ctx.violation(f'stats run {name} failed: {res["error"]}', dict(rep, **{'class': 'c04-run-failed'}))
            continue
        bad = diff_keys(dig0, h5_digest(d / 'stats.h5'))
        if bad:
            nd = n_entries_differ(d0 / 'stats.h5', d / 'stats.h5')
            if plain:
                ctx.violation(f'reference statistics of two plain runs on the same file and configuration differ bitwise in {bad} '
                              f'(entries that differ: {nd}); buffers merged in the order {merge0} (dispatch numbers) in one run '
                              f'and {merge} in the other',
                              dict(rep, differs=bad, entries_differ=nd, merge_order_first_run=merge0,
                                   **{'class': 'c04-run-to-run-statistics-differ'}))
            else:
                ctx.violation(f'stats: output differs bitwise between completion order {order} and the plain run in {bad} '
                              f'(entries that differ: {nd}); merge orders {merge} vs {merge0}',
                              dict(rep, differs=bad, entries_differ=nd, merge_order_first_run=merge0,
                                   **{'class': 'c04-stats-schedule-dependent'}))
        else:
            ctx.traces_validated += 1
        shutil.rmtree(d, ignore_errors=True)
    # (a) the merge order against the model: dispatch order, whatever the completion order
    cases = []
    for name, sigma, res, order, merge, holds in runs:
        durs = [0] * k
        for j, w in enumerate(order):
            if 0 <= w < k:
                durs[w] = j
        cases.append((405, [p, k, [0] * k, durs]))
    for (name, sigma, res, order, merge, holds), out in zip(runs, ctx.model(cases)):
        if not res['ok'] or merge is None:
            continue
        if out[0] != 0 or out[1] != [merge]:
            ctx.violation(f'stats run {name}: the parent merged the worker buffers in the order {merge} (dispatch numbers; '
                          f'completion order {order}); Gather.run_stats_merge says {out}',
                          {'class': 'corr:Gather.run_stats_merge', 'kind': 'stats-merge-order', 'run': name,
                           'observed_merge': merge, 'observed_order': order, 'model': out, 'n_processors': p,
                           'rows_at_a_time': rat, 'normalization': normalization}, no_input=True)
        else:
            ctx.traces_validated += 1
    ctx.sample({'stage': 'stats-bitwise', 'normalization': normalization, 'n_rows': len(M), 'rows_at_a_time': rat, 'p': p,
                'cells_per_buffer_per_cluster': holds0, 'merge_order': merge0})
    shutil.rmtree(base, ignore_errors=True)


# ------------------------------------------------------------------ H: hash seeds
CHILD = r"""
import json, os, pathlib, sys
os.environ['CELL_TYPE_MAPPER_VERIF'] = '1'
import h5py
from harness import pipeline
from harness.props import c14 as K
base = pathlib.Path(sys.argv[1]); d = pathlib.Path(sys.argv[2]); spec = json.load(open(base / 'spec.json'))
d.mkdir()
class T: pass
gt = T(); gt.levels = spec['levels']
with K.quiet():
    K.stats_call(base, d, gt, spec['rows_at_a_time'], spec['p_stats'])()
    K.markers_call(d / 'stats.h5', d, spec['p_markers'])()
    with h5py.File(d / 'refm.h5', 'a') as f:
        f.create_dataset('metadata', data=json.dumps({'precomputed_path': str(d / 'stats.h5')}).encode('utf-8'))
    K.pmask_call(d / 'stats.h5', d, spec['p_markers'])()
    lookup = K.selection_call(d / 'refm.h5', spec['query_genes'], d, spec['p_sel'], spec['behemoth'])()
json.dump(list(lookup.get('log', {})), open(d / 'log_keys.json', 'w'))
lookup = {k: v for k, v in lookup.items() if k not in ('metadata', 'log')}
json.dump(lookup, open(d / 'markers.json', 'w'))
for i, m in enumerate(spec['mappings']):
    md = d / f'm{i}'
    md.mkdir()
    cfg = pipeline.config_for(md, base / 'query.h5ad', d / 'stats.h5', d / 'markers.json', chunk_size=m['chunk_size'],
                              n_processors=m['p_map'], rng_seed=spec['rng_seed'], bootstrap_factor=m['bootstrap_factor'],
                              bootstrap_iteration=m['bootstrap_iteration'], normalization='raw')
    with K.quiet():
        K.mapping_call(cfg)()
print('done', os.environ.get('PYTHONHASHSEED'))
"""


def chunk_sensitivity(ctx, gt, results, n_cells, m):
    """[(chunk, level, [multi-child parents of that level that received cells of the chunk])] with >= 2
    parents: there the parents of one level draw, one after the other, from the generator of the chunk."""
    out = ctx.model([(402, [n_cells, m['p_map'], m['chunk_size']])])[0]
    if out[0] != 0:
        return []
    multi = {lv: {nd for nd, ch in gt.data[lv].items() if len(ch) > 1} for lv in gt.levels[:-1]}
    found = []
    for r0, r1 in out[1][1]:
        for lv in gt.levels[:-1]:
            got = sorted({c[lv]['assignment'] for c in results[r0:r1]} & multi[lv])
            if len(got) >= 2:
                found.append([[r0, r1], lv, got])
    return found


def hash_seed_chain(ctx, base, tag, gt, spec, seeds, inp, designed):
    """Run the chain of the four stages in fresh interpreters, one per hash seed (and the first hash
    seed a second time: a difference there is a run-to-run difference, not one of the hash seed);
    compare every output bitwise."""
    json.dump(spec, open(base / 'spec.json', 'w'))
    (base / 'child.py').write_text(CHILD)
    runs = [(f'h{hs}', hs) for hs in seeds] + [(f'h{seeds[0]}_again', seeds[0])]
    procs = []
    for name, hs in runs:
        env = dict(os.environ, PYTHONHASHSEED=str(hs), PYTHONPATH=f'{core.REPO}/src:{core.VERIF}', CELL_TYPE_MAPPER_VERIF='1')
        procs.append(subprocess.Popen(['/venv/bin/python', '-W', 'ignore', str(base / 'child.py'), str(base), str(base / name)],
                                      stdout=subprocess.PIPE, stderr=subprocess.PIPE, text=True, env=env))
    digs, n_cells = {}, None
    sens = None
    for (name, hs), pr in zip(runs, procs):
        try:
            so, se = pr.communicate(timeout=900)
        except subprocess.TimeoutExpired:
            pr.kill()
            so, se = pr.communicate()
            se = 'TIMEOUT ' + se
        if pr.returncode != 0 or 'done' not in so:
            ctx.violation(f'stage chain failed under PYTHONHASHSEED={hs}: {se[-800:]}',
                          dict(inp, hash_seed=hs, stderr=se[-3000:], **{'class': 'c04-run-failed'}))
            continue
        d = base / name
        lk = json.load(open(d / 'markers.json'))
        # the lookup as a mapping parent -> ordered gene list, and (separately) the order of its keys
        dg = {'stats': h5_digest(d / 'stats.h5'), 'markers': h5_digest(d / 'refm.h5'),
              'mask': h5_digest(d / 'mask.h5'), 'lookup': lk, 'lookup_key_order': list(lk.keys()),
              'lookup_log_key_order': json.load(open(d / 'log_keys.json'))}
        for i in range(len(spec['mappings'])):
            dg[f'mapping{i}'] = mapping_digest(d / f'm{i}')
        digs[name] = dg
        if sens is None:
            sens = []
            for i, m in enumerate(spec['mappings']):
                results = json.load(open(d / f'm{i}' / 'out' / 'result.json'))['results']
                sens.append(chunk_sensitivity(ctx, gt, results, len(results), m) if m['bootstrap_factor'] < 1 else [])
    sensitive = bool(sens) and any(len(s) > 0 for s in sens)
    if designed and not sensitive:
        ctx.extra['hash_seed_scenarios_insensitive'] = ctx.extra.get('hash_seed_scenarios_insensitive', 0) + 1
    ctx.dist('hash_seed_scenario', f'{gt.shape_key()} ' + ('sensitive' if sensitive else 'insensitive'))
    for name, hs in runs:
        ctx.count(('H', tag, name), nontrivial=sensitive if designed else True)
        ctx.dist('hash_seed', hs)
    first = runs[0][0]
    upstream = ('stats', 'markers', 'mask', 'lookup')
    for name, hs in runs[1:]:
        if first not in digs or name not in digs:
            continue
        bad = diff_keys(digs[first], digs[name])
        for ko, ko_what in (('lookup_key_order', 'the query-marker lookup'),
                            ('lookup_log_key_order', "the 'log' entry of the query-marker lookup")):
            if ko in bad:
                bad.remove(ko)
                ctx.violation(f'the keys of {ko_what} come in a different order in two runs on the same input '
                              f'(PYTHONHASHSEED={seeds[0]} and {hs}): {digs[first][ko]} vs {digs[name][ko]}',
                              dict(inp, hash_seeds=[seeds[0], hs], which=ko, key_orders=[digs[first][ko], digs[name][ko]],
                                   **{'class': KEY_ORDER_CLASS}))
        if not bad:
            ctx.traces_validated += 1
            continue
        stages = sorted({b.split('/')[0] for b in bad})
        rep = dict(inp, differs=bad, stages_that_differ=stages, sensitive_chunks=sens)
        if hs == seeds[0]:
            cls = 'c04-run-to-run-statistics-differ' if 'stats' in stages else 'c04-run-to-run-differ'
            ctx.violation(f'two runs of the stage chain on the same input, both under PYTHONHASHSEED={hs}, differ in {stages}: {bad[:8]}',
                          dict(rep, hash_seeds=[hs, hs], **{'class': cls}))
        else:
            only_mapping = not any(st in upstream for st in stages)
            cls = 'c04-hash-seed-changes-mapping' if only_mapping else 'c04-hash-seed-dependent'
            ctx.violation(f'outputs differ between PYTHONHASHSEED={seeds[0]} and {hs} in {stages}: {bad[:8]}',
                          dict(rep, hash_seeds=[seeds[0], hs], **{'class': cls}))
    ctx.sample({'hash_seeds': list(seeds), 'tree_shape': gt.shape_key(), 'designed': designed, 'sensitive_chunks': sens,
                'spec': {k: v for k, v in spec.items() if k != 'query_genes'}})
    shutil.rmtree(base, ignore_errors=True)


def hash_seed_runs(ctx, rng, tag, seeds):
    base = ctx.scratch / f'hs_{tag}'
    base.mkdir()
    gt, genes, n_rows = K.reference_inputs(rng, base, min_leaves=4, max_leaves=7)
    qgenes = list(genes)
    rng.shuffle(qgenes)
    # the query: some reference rows, perturbed, genes shuffled
    import anndata
    a = anndata.read_h5ad(base / 'ref.h5ad')
    X = a.X.toarray() if hasattr(a.X, 'toarray') else np.asarray(a.X)
    rows = rng.sample(range(n_rows), min(n_rows, 9))
    pos = [genes.index(g) for g in qgenes]
    Q = X[rows][:, pos] + np.array([[rng.choice([0, 0, 1]) for _ in pos] for _ in rows], dtype=X.dtype)
    qenc = rng.choice(['dense', 'csr'])
    gen.write_h5ad(base / 'query.h5ad', Q.astype(np.float32), [f'q{i}' for i in range(len(rows))], qgenes, encoding=qenc)
    spec = {'levels': gt.levels, 'rows_at_a_time': max(3, n_rows // 5), 'p_stats': 3, 'p_markers': 2, 'p_sel': 2,
            'behemoth': rng.choice([0, 1000]), 'query_genes': qgenes,
            'mappings': [{'chunk_size': 3, 'p_map': 3, 'bootstrap_factor': 0.6, 'bootstrap_iteration': 7}],
            'rng_seed': rng.randrange(10 ** 6)}
    inp = {'kind': 'hash-seed', 'tree': gt.data, 'spec': spec, 'reference_genes': genes, 'reference_X': X.tolist(),
           'reference_obs': {lv: [str(v) for v in a.obs[lv].values] for lv in gt.levels},
           'query_X': Q.astype(np.float32).tolist(), 'query_encoding': qenc}
    hash_seed_chain(ctx, base, tag, gt, spec, seeds, inp, designed=False)


def designed_hash_seed_runs(ctx, rng, tag, shape, seeds):
    """Scenario built to be sensitive to the order in which the parents of one level are visited: >= 3
    levels, several multi-child parents per level, markers at every parent, two query cells of every
    leaf (>= 12 cells) shuffled so that every chunk holds cells of several branches, bootstrap_factor
    0.5 and 0.75, bootstrap_iteration >= 5."""
    base = ctx.scratch / f'hd_{tag}'
    base.mkdir()
    gt, genes, M, labels, encoding = designed_reference(rng, base, shape)
    leaf_lv = len(gt.levels) - 1
    by_leaf = {}
    for i, lab in enumerate(labels):
        by_leaf.setdefault(lab[leaf_lv], []).append(i)
    per = 2 if len(by_leaf) >= 6 else 3
    rows = [i for lf in sorted(by_leaf) for i in rng.sample(by_leaf[lf], min(per, len(by_leaf[lf])))]
    rng.shuffle(rows)
    qgenes = list(genes)
    rng.shuffle(qgenes)
    pos = [genes.index(g) for g in qgenes]
    Q = (M[rows][:, pos] + np.array([[rng.choice([0, 0, 1, 2]) for _ in pos] for _ in rows])).astype(np.float32)
    qenc = rng.choice(['dense', 'csr'])
    gen.write_h5ad(base / 'query.h5ad', Q, [f'q{i:02d}' for i in range(len(rows))], qgenes, encoding=qenc)
    n = len(rows)
    half = -(-n // 2)
    mappings = [{'chunk_size': half, 'p_map': 2, 'bootstrap_factor': 0.5, 'bootstrap_iteration': rng.choice([5, 7, 10])},
                {'chunk_size': n, 'p_map': 1, 'bootstrap_factor': 0.75, 'bootstrap_iteration': rng.choice([5, 6, 9])}]
    spec = {'levels': gt.levels, 'rows_at_a_time': max(2, len(M) // 8), 'p_stats': 3, 'p_markers': 2, 'p_sel': 2,
            'behemoth': rng.choice([0, 1000]), 'query_genes': qgenes, 'mappings': mappings,
            'rng_seed': rng.randrange(10 ** 6)}
    inp = {'kind': 'hash-seed-designed', 'shape': shape, 'tree': gt.data, 'spec': spec, 'reference_genes': genes,
           'reference_X': M.tolist(), 'reference_obs': {lv: [lab[i] for lab in labels] for i, lv in enumerate(gt.levels)},
           'reference_encoding': encoding, 'query_X': Q.tolist(), 'query_encoding': qenc}
    hash_seed_chain(ctx, base, tag, gt, spec, seeds, inp, designed=True)


# ------------------------------------------------------------------ entry points
def marker_worker_sweep(ctx, rng, tag):
    """W on the reference-marker stage: one statistics file, find_markers_for_all_taxonomy_pairs with 1..4 workers,
    the marker files compared bitwise.  The reference has a block of identical twin clusters (no marker between any
    two of them), so that whole runs of consecutive pairs are marker-free: the per-worker pieces that are merged
    then differ in kind (with / without any marker) from one worker count to the next."""
    fb = ctx.scratch / f'msweep{tag}'
    fb.mkdir()
    n_distinct, n_twins = rng.randrange(3, 6), rng.randrange(4, 7)
    gt = trees.one_level(n_distinct + n_twins, rng)
    leaves = sorted(n for n, _ in gt.model[-1])
    ng = rng.randrange(10, 16)
    prof = {lf: [rng.choice([0, 0, 0, 20, 50, 200]) for _ in range(ng)] for lf in leaves}
    # the twins are the LAST leaves in name order (pairs are enumerated in sorted leaf order): same cells exactly
    twin_rows = [[max(0, p_ + rng.randrange(-2, 3)) if p_ > 0 else rng.choice([0, 0, 1]) for p_ in prof[leaves[-1]]]
                 for _ in range(rng.randrange(4, 7))]
    rows, labels = [], []
    for lf in leaves:
        if lf in leaves[-n_twins:]:
            these = [list(r_) for r_ in twin_rows]
        else:
            these = [[max(0, p_ + rng.randrange(-2, 3)) if p_ > 0 else rng.choice([0, 0, 0, 1]) for p_ in prof[lf]]
                     for _ in range(rng.randrange(4, 8))]
        rows += these
        labels += [gt.name(lf)] * len(these)
    order = list(range(len(rows)))
    rng.shuffle(order)
    M = np.array([rows[i] for i in order], dtype=np.float32)
    genes = [pipeline.gname(g) for g in range(ng)]
    gen.write_h5ad(fb / 'ref.h5ad', M, [f'r{i}' for i in range(len(rows))], genes, encoding=rng.choice(['csr', 'dense']),
                   obs_cols={gt.levels[0]: [labels[j] for j in order]})
    with K.quiet():
        K.stats_call(fb, fb, gt, 50, 1)()
    digests, widths = {}, {}
    for p in (1, 2, 3, 4):
        d = fb / f'w{p}'
        d.mkdir()
        res = {'ok': True, 'error': None}
        try:
            with K.quiet():
                K.markers_call(fb / 'stats.h5', d, p)()
        except Exception as e:      # noqa
            res = {'ok': False, 'error': f'{type(e).__name__}: {e}'[:200]}
        digests[p] = h5_digest(d / 'refm.h5', values_only=True) if res['ok'] else res
        widths[p] = {k_: v_[0] for k_, v_ in h5_digest(d / 'refm.h5').items()} if res['ok'] else None
        ctx.count(('marker-sweep', tag, p), nontrivial=True)
    ctx.dist('W-markers', f'{n_distinct} distinct + {n_twins} twin clusters')
    if any(widths[p] is not None and widths[1] is not None and widths[p] != widths[1] for p in (2, 3, 4)):
        # observed: the serial route writes int64 pointer arrays, the parallel route the narrowest unsigned type
        ctx.dist('W-markers-integer-width-differs-between-worker-counts', 'yes (values equal: storage, not content)')
    base = digests[1]
    for p in (2, 3, 4):
        if digests[p] != base:
            ctx.disagreements_checked += 1
            keys = diff_keys(base, digests[p]) if isinstance(base, dict) and isinstance(digests[p], dict) and 'ok' not in base and 'ok' not in digests[p] else [str(base)[:100], str(digests[p])[:100]]
            ctx.violation(f'reference markers differ between n_processors=1 and n_processors={p} on one statistics file '
                          f'({n_distinct} distinct + {n_twins} identical clusters): {keys}',
                          {'class': 'c04-markers-worker-count-dependent', 'kind': 'marker-worker-sweep', 'tree': gt.data,
                           'genes': genes, 'M': M.tolist(), 'labels': [labels[j] for j in order], 'n_processors': [1, p],
                           'differing': keys})
            break
    shutil.rmtree(fb, ignore_errors=True)


def run(ctx):
    rng = ctx.rng
    if not faults.guard_on():
        raise RuntimeError('CELL_TYPE_MAPPER_VERIF=1 must be set (./check does it)')
    ctx.rule = ('S: a stage run with >= 2 real workers forced to complete in an order other than dispatch order; '
                'W: one worker count of a sweep 1..6 on one input; H: the four stages chained under one hash seed '
                '(designed scenarios: only if, in the observed mapping, >= 2 multi-child parents of one level received '
                'cells of one chunk with bootstrap_factor < 1); B: a run of the statistics stage on float64 data with '
                'inexact sums in which >= 3 worker buffers were observed to hold cells of every cluster (plain '
                'repetition, or forced completion order other than dispatch order)')
    ctx.assumptions += [
        'fixed input files and configuration (including rng_seed); distinct cell ids in the query (obs index)',
        'delays are injected by harness-side wrappers inherited through fork (harness/faults.py, guard '
        'CELL_TYPE_MAPPER_VERIF=1); the completion order actually observed is what is fed to the model',
        'outputs are compared without the fields that legitimately differ between runs: config paths, log, timestamps '
        '(JSON keys config/log/metadata, HDF5 dataset metadata, the metadata entry (timestamp) of a serialized taxonomy '
        'tree, CSV comment lines)',
        'CPU code path only (torch is not installed)',
        'chunk_size >= 1 and rows_at_a_time >= 1 in every generated configuration (with row_chunk_size 0 the real '
        'AnnDataRowIterator yields empty chunks for ever; c04_same_chunks_same_result carries 1 <= c)',
        'the query-marker lookup is compared as a mapping (parent -> ordered gene list) AND by the order of its keys (the order '
        'of the entries of the query-marker JSON file; class ' + KEY_ORDER_CLASS + '): same key order, and same order of the '
        "keys of its 'log' entry, under opposite completion orders of the selection workers and under every hash seed, and the "
        'order is that of parent_list (Gather.run_selection_result); the VALUES of the log (durations) are not compared',
        'B: the merge order of the statistics buffers is observed through a harness-side proxy of the module-level '
        'name h5py of precompute_from_anndata (reads of precomputation_buffer_* files in the parent process)',
        'H: a hash-seed dependence can only be seen if the string hashes of the two interpreters order the names '
        'involved differently; >= 4 hash seeds per designed scenario (3 in the random one), not all 2**32',
    ]
    q = ctx.quick()
    lim3, lim4 = (6, 6) if q else (6, 24)
    mapping_schedules(ctx, rng, 'a', n_cells=18, chunk_size=5, n_processors=4, limit=lim3)   # files 0_5, 10_15, 15_18, 5_10: name order != row order
    shared_list_schedules(ctx, rng, 'a', n_cells=11, chunk_size=3, limit=lim3)   # 4 workers: an order with both ends in place exists
    if not q:
        mapping_schedules(ctx, rng, 'b', n_cells=12, chunk_size=3, n_processors=4, limit=lim4)
        mapping_schedules(ctx, rng, 'c', n_cells=10, chunk_size=4, n_processors=2, limit=6)   # 3 chunks, 2 at a time
        mapping_schedules(ctx, rng, 'd', n_cells=23, chunk_size=6, n_processors=4, limit=lim4)  # files 0_6 12_18 18_23 6_12
        mapping_schedules(ctx, rng, 'e', n_cells=7, chunk_size=2, n_processors=4, limit=lim4)
        shared_list_schedules(ctx, rng, 'b', n_cells=8, chunk_size=2, limit=lim4)
        shared_list_schedules(ctx, rng, 'c', n_cells=11, chunk_size=4, limit=6)
    for rd in range(1 if q else 5):
        fb = ctx.scratch / f'ref{rd}'
        fb.mkdir()
        gt, genes, n_rows = K.reference_inputs(rng, fb, min_leaves=5, max_leaves=7, levels=2)
        kk = 3 if q else rng.choice([3, 4])
        rat = max(2, n_rows // (2 * kk + 1))

        def mk_stats(d, kk=kk):
            d.mkdir()
            return K.stats_call(fb, d, gt, rat, kk)
        generic_schedules(ctx, rng, 'stats', f'{rd}', mk_stats, lambda d, res: h5_digest(d / 'stats.h5'),
                          lim3 if kk == 3 else lim4, what=f'{n_rows} rows {rat} at a time')
        with K.quiet():
            K.stats_call(fb, fb, gt, 50, 1)()

        def mk_markers(d):
            d.mkdir()
            return K.markers_call(fb / 'stats.h5', d, 4)
        generic_schedules(ctx, rng, 'markers', f'{rd}', mk_markers, lambda d, res: h5_digest(d / 'refm.h5'),
                          4 if q else 12, inj=['markers'], what='reference markers')

        def mk_mask(d):
            d.mkdir()
            return K.pmask_call(fb / 'stats.h5', d, 4)
        generic_schedules(ctx, rng, 'pmask', f'{rd}', mk_mask, lambda d, res: h5_digest(d / 'mask.h5'),
                          3 if q else 8, what='p-value mask')
        with K.quiet():
            K.markers_call(fb / 'stats.h5', fb, 2)()
            with h5py.File(fb / 'refm.h5', 'a') as f:
                f.create_dataset('metadata', data=json.dumps({'precomputed_path': str(fb / 'stats.h5')}).encode('utf-8'))

        def mk_sel(d):
            d.mkdir()
            return K.selection_call(fb / 'refm.h5', genes, d, 4, 1000)
        generic_schedules(ctx, rng, 'selection', f'{rd}', mk_sel,
                          lambda d, res: {kk2: vv for kk2, vv in res['value'].items() if kk2 not in ('log', 'metadata')},
                          4 if q else 12, what='query marker selection')
        selection_key_order(ctx, rng, f'{rd}', mk_sel, what={'tree': gt.data, 'n_rows': n_rows, 'genes': genes},
                            parents=parent_keys_of(fb / 'stats.h5'))
        shutil.rmtree(fb, ignore_errors=True)
    # B: bitwise statistics on data with inexact float sums
    stats_bitwise(ctx, rng, 'a', 3, 'log2CPM', reps=3, limit=lim3)
    stats_bitwise(ctx, rng, 'b', 4 if q else 3, 'raw', reps=3, limit=6)
    if not q:
        stats_bitwise(ctx, rng, 'c', 4, 'log2CPM', reps=4, limit=lim4)
        stats_bitwise(ctx, rng, 'd', 4, 'raw', reps=4, limit=lim4)
        stats_bitwise(ctx, rng, 'e', 5, 'log2CPM', reps=3, limit=12)
        stats_bitwise(ctx, rng, 'f', 3, 'log2CPM', reps=5, limit=lim3)
    faults.uninstall()
    for i in range(2 if q else 12):
        marker_worker_sweep(ctx, rng, f'{i}')
    hash_seed_runs(ctx, rng, 'a', [0, 1, 2] if q else [0, 1, 2, 3, 4, 5])
    if not q:
        hash_seed_runs(ctx, rng, 'b', [0, 7, 11, 12345])
        hash_seed_runs(ctx, rng, 'c', [3, 5, 99, 2 ** 31])
    # H on scenarios designed to be sensitive to the order in which parents draw from the chunk generator
    designed_hash_seed_runs(ctx, rng, 'da', [[2], [2, 2], [2, 2, 2, 2]], [0, 1, 2, 3] if q else [0, 1, 2, 3, 4, 5, 6, 7])
    designed_hash_seed_runs(ctx, rng, 'db', [[3], [2, 2, 3]], [0, 1, 2, 3] if q else [0, 1, 2, 3, 4, 5, 6, 7])
    designed_hash_seed_runs(ctx, rng, 'dc', [[2, 2], [2, 3, 2, 2]], [0, 5, 17, 99] if q else [0, 5, 17, 99, 12345, 2 ** 31])
    if not q:
        designed_hash_seed_runs(ctx, rng, 'dd', [[2], [3, 2], [2, 2, 2, 1, 2]], [1, 2, 3, 4, 77, 4242])
        designed_hash_seed_runs(ctx, rng, 'de', [[3, 2], [2, 2, 2, 3, 2]], [0, 1, 2, 3, 4, 5])
        designed_hash_seed_runs(ctx, rng, 'df', [[2], [2, 2], [2, 2, 2, 2]], [8, 9, 10, 11, 12, 13])
    # S: key order of the query-marker lookup on taxonomies with several selection workers (last: the
    # random stream of the scenarios above is the one it was before this scenario existed)
    shapes = [rng.choice(KEY_ORDER_SHAPES)] if q else list(KEY_ORDER_SHAPES) + [rng.choice(KEY_ORDER_SHAPES)]
    for i, shape in enumerate(shapes):
        designed_selection_key_order(ctx, rng, f'{i}', shape)
    faults.uninstall()


def replay(ctx, rec):
    print(json.dumps(rec, indent=1, default=str)[:8000])
    return 0
