"""C04 — results depend only on inputs and seed, never on scheduling.

Ties between Model/Gather.v and the real stages:

 S  controlled schedules: the workers of a stage are real forked processes, delayed by
    harness/faults.py so that they complete in a chosen order (every permutation for <= 3
    workers in the quick tier, <= 4 in the thorough tier); the outputs are compared BITWISE
    with those of the undelayed run; the observed completion order, chunks and seeds are
    fed to the model (Gather.run_gather / run_chunks / run_seeds_sx) and its prediction is
    compared with what the stage returned.
 W  worker counts: every n_processors in 1..6 on the same input; the model's effective chunk
    size partitions the counts into classes; inside a class the mappings are bitwise equal.
 H  hash seeds: the four stages chained in fresh interpreters with PYTHONHASHSEED = 0,1,2,...;
    every output compared bitwise across the seeds."""
import contextlib
import hashlib
import io
import itertools
import json
import os
import pathlib
import shutil
import subprocess
import sys

import h5py
import numpy as np

from harness import faults, pipeline, core
from harness.props import c14 as K

STEP = 0.16          # seconds between two successive completions


# ------------------------------------------------------------------ comparing outputs
def h5_digest(path, skip=('metadata',)):
    """{dataset path: (dtype, shape, sha1 of the bytes)} for every dataset of an HDF5 file."""
    out = {}

    def visit(name, obj):
        if isinstance(obj, h5py.Dataset) and name.split('/')[-1] not in skip:
            v = obj[()]
            if isinstance(v, np.ndarray):
                b = v.tobytes() if v.dtype != object else repr(v.tolist()).encode()
                out[name] = (str(v.dtype), list(v.shape), hashlib.sha1(b).hexdigest())
            else:
                b = v if isinstance(v, bytes) else repr(v).encode()
                if name.split('/')[-1] == 'taxonomy_tree':
                    b = strip_tree(json.loads(b.decode('utf-8'))).encode('utf-8')
                out[name] = ('scalar', [], hashlib.sha1(b).hexdigest())
    with h5py.File(path, 'r') as f:
        f.visititems(visit)
    return out


def strip_tree(tree):
    """The serialized taxonomy tree without its `metadata` entry (factory, timestamp, paths)."""
    if isinstance(tree, dict):
        tree = {k: v for k, v in tree.items() if k != 'metadata'}
    return json.dumps(tree)


def mapping_digest(d):
    """What a mapping run produced, minus what legitimately differs between runs
    (config paths, log, timestamps)."""
    blob = json.load(open(d / 'out' / 'result.json'))
    res = {'results': json.dumps(blob.get('results')),
           'marker_genes': json.dumps(blob.get('marker_genes')),
           'taxonomy_tree': strip_tree(blob.get('taxonomy_tree'))}
    p = d / 'out' / 'result.csv'
    if p.exists():
        res['csv'] = ''.join(ln for ln in open(p) if not ln.startswith('#'))
    p = d / 'out' / 'result.h5'
    if p.exists():
        res['hdf5'] = h5_digest(p)
    return res


def diff_keys(a, b):
    if isinstance(a, dict) and isinstance(b, dict):
        bad = []
        for k in sorted(set(a) | set(b)):
            if k not in a or k not in b:
                bad.append(str(k))
            else:
                bad += [f'{k}/{x}' if x else str(k) for x in diff_keys(a[k], b[k])]
        return bad
    return [] if a == b else ['']


# ------------------------------------------------------------------ schedules
def completion_order(trace, stage, ev='end'):
    t = [(r['t'], r['k']) for r in trace if r['ev'] == ev and r['stage'] == stage]
    return [k for _, k in sorted(t)]


def delays_for(sigma, before=False):
    """Worker sigma[j] completes j-th."""
    d = {w: STEP * j for j, w in enumerate(sigma)}
    return d


def schedules(rng, k, limit):
    perms = list(itertools.permutations(range(k)))
    if len(perms) <= limit:
        return perms
    keep = [perms[0], perms[-1]] + rng.sample(perms[1:-1], limit - 2)
    return keep


def run_scheduled(ctx, stage, make_fn, d, sigma, inj=None, before=False):
    """Run the stage with workers delayed so that they complete in the order sigma.
    Returns (result of call_stage, trace)."""
    plan = {}
    if sigma is not None:
        key = 'delay_before' if before else 'delay_after'
        plan[key] = {stage: delays_for(sigma)}
    res = K.call_stage(make_fn(d), inj or [stage], trace_dir=d / 'trace', poll_sleep=0.002, **plan)
    trace = faults.read_trace(d / 'trace')
    return res, trace


# ------------------------------------------------------------------ S/W: mapping through run_mapping
def mapping_schedules(ctx, rng, tag, n_cells, chunk_size, n_processors, limit):
    base = ctx.scratch / f'ms_{tag}'
    base.mkdir()
    sc = K.mapping_inputs(rng, base, n_cells, max_leaves=7)
    rng_seed = rng.randrange(10 ** 6)
    boot = rng.choice([0.5, 0.7])

    def mk(d, p=n_processors):
        d.mkdir()
        cfg = pipeline.config_for(d, base / 'query.h5ad', base / 'stats.h5', base / 'markers.json',
                                  chunk_size=chunk_size, n_processors=p, rng_seed=rng_seed,
                                  bootstrap_factor=boot, bootstrap_iteration=7)
        return K.mapping_call(cfg)
    res0, tr0 = run_scheduled(ctx, 'mapping', mk, base / 'base', None)
    if not res0['ok']:
        ctx.violation(f'mapping baseline failed: {res0["error"]}', {'class': 'c04-baseline', 'error': res0['error']})
        return
    dig0 = mapping_digest(base / 'base')
    k = len(res0['exit_codes']['mapping'])
    cell_ids = list(sc.cell_ids)                       # the order of the query file
    rank = {c: i for i, c in enumerate(sorted(cell_ids))}
    row_of = {c: i for i, c in enumerate(cell_ids)}
    model_cases, meta = [], []

    def obs_final(dig):
        return [[rank[c['cell_id']], row_of[c['cell_id']]] for c in json.loads(dig['results'])]

    def model_part(trace, order, p, what, dig):
        begins = sorted((r['k'], r['info']) for r in trace if r['ev'] == 'begin' and r['stage'] == 'mapping')
        chunks_o = [[i['r0'], i['r1']] for _, i in begins]
        seeds_o = [[kk, i.get('seed')] for kk, i in begins]
        names = [f"{r0}_{r1}_assignment.json" for r0, r1 in chunks_o]
        nrank = {nm: i for i, nm in enumerate(sorted(names))}
        tables = [[[rank[cell_ids[r]], r] for r in range(r0, r1)] for r0, r1 in chunks_o]
        # 402: chunking; 401: buffer-file gather with the observed completion order; 403: seeds
        stream = [int(x) for x in np.random.default_rng(rng_seed).integers(99, 2 ** 32, size=1)] if False else None
        g = np.random.default_rng(rng_seed)
        stream = [int(g.integers(99, 2 ** 32)) for _ in range(len(chunks_o))]
        model_cases.append((402, [n_cells, p, chunk_size]))
        model_cases.append((401, [1, [rank[c] for c in cell_ids], tables, [nrank[nm] for nm in names], list(order)]))
        model_cases.append((403, [p, len(chunks_o), [0] * len(chunks_o),
                                  [rng.randrange(0, 4) for _ in chunks_o], stream]))
        meta.append({'what': what, 'chunks': chunks_o, 'seeds': seeds_o, 'order': list(order), 'p': p,
                     'observed_final': obs_final(dig), 'stream': stream})

    model_part(tr0, completion_order(tr0, 'mapping'), n_processors, 'baseline', dig0)
    missed = 0
    for si, sigma in enumerate(schedules(rng, k, limit)):
        d = base / f's{si}'
        res, tr = run_scheduled(ctx, 'mapping', mk, d, sigma)
        order = completion_order(tr, 'mapping')
        achieved = order == list(sigma)
        missed += 0 if achieved else 1
        key = ('S', 'mapping', tag, tuple(order))
        ctx.count(key, nontrivial=k >= 2 and order != sorted(order))
        ctx.dist('schedule', f'mapping k={k} ' + ('achieved' if achieved else 'missed'))
        rep = {'kind': 'schedule', 'stage': 'mapping', 'n_cells': n_cells, 'chunk_size': chunk_size,
               'n_processors': n_processors, 'rng_seed': rng_seed, 'intended': list(sigma), 'observed_order': order,
               'tree': sc.tree.data}
        if not res['ok']:
            ctx.violation(f'mapping under schedule {sigma} failed: {res["error"]}', dict(rep, **{'class': 'c04-run-failed'}))
            continue
        dig = mapping_digest(d)
        bad = diff_keys(dig0, dig)
        if bad:
            ctx.violation(f'mapping output differs between completion orders {order} and the baseline in {bad}',
                          dict(rep, differs=bad, **{'class': 'c04-mapping-schedule-dependent'}))
        else:
            ctx.traces_validated += 1
        model_part(tr, order, n_processors, f'schedule {sigma}', dig)
        shutil.rmtree(d, ignore_errors=True)
    # W: worker counts
    classes = {}
    for p in range(1, 7):
        d = base / f'w{p}'
        res, tr = run_scheduled(ctx, 'mapping', lambda dd, p=p: mk(dd, p), d, None)
        if not res['ok']:
            ctx.violation(f'mapping with n_processors={p} failed: {res["error"]}', {'class': 'c04-run-failed', 'p': p})
            continue
        dig = mapping_digest(d)
        begins = sorted((r['k'], r['info']) for r in tr if r['ev'] == 'begin' and r['stage'] == 'mapping')
        chunks_o = tuple((i['r0'], i['r1']) for _, i in begins)
        classes.setdefault(chunks_o, []).append((p, dig))
        model_part(tr, completion_order(tr, 'mapping'), p, f'n_processors={p}', dig)
        ctx.count(('W', tag, p), nontrivial=True)
        ctx.dist('worker_count', f'n={n_cells} c={chunk_size} p={p} -> {len(chunks_o)} chunks')
        shutil.rmtree(d, ignore_errors=True)
    for chunks_o, lst in classes.items():
        p0, d0 = lst[0]
        for p, dg in lst[1:]:
            bad = diff_keys(d0, dg)
            if bad:
                ctx.violation(f'mapping differs between n_processors={p0} and {p} although both induce the chunks {chunks_o}: {bad}',
                              {'class': 'c04-mapping-worker-count-dependent', 'n_cells': n_cells, 'chunk_size': chunk_size,
                               'p': [p0, p], 'chunks': chunks_o, 'differs': bad, 'rng_seed': rng_seed, 'tree': sc.tree.data})
            else:
                ctx.traces_validated += 1
    # the baseline must equal the class of n_processors
    # (a) model
    outs = ctx.model(model_cases)
    for i, m in enumerate(meta):
        ch, ga, se = outs[3 * i], outs[3 * i + 1], outs[3 * i + 2]
        rep = dict(m, kind='mapping-model', n_cells=n_cells, chunk_size=chunk_size)
        if ch[0] != 0 or ch[1][1] != m['chunks']:
            ctx.violation(f'{m["what"]}: chunks {m["chunks"]} but Gather.run_chunks says {ch}',
                          dict(rep, model=ch, **{'class': 'corr:Gather.run_chunks'}), no_input=True)
        if ga[0] != 0 or ga[1] != [m['observed_final']]:
            ctx.violation(f'{m["what"]}: order of the result records {[x[1] for x in m["observed_final"]]} (row numbers) differs from '
                          f'Gather.run_gather {ga[1]}',
                          dict(rep, model=ga, **{'class': 'corr:Gather.run_gather'}), no_input=True)
        exp_seeds = [[kk, s] for kk, s in zip(range(len(m['chunks'])), m['stream'])]
        if se[0] != 0 or se[1][0] != [0] or se[1][1] != exp_seeds or m['seeds'] != exp_seeds:
            ctx.violation(f'{m["what"]}: seeds seen by the workers {m["seeds"]}; stream {m["stream"]}; Gather.run_seeds_sx {se}',
                          dict(rep, model=se, **{'class': 'corr:Gather.run_seeds_sx'}), no_input=True)
    ctx.extra['schedules_missed'] = ctx.extra.get('schedules_missed', 0) + missed
    ctx.sample({'stage': 'mapping', 'n_cells': n_cells, 'chunk_size': chunk_size, 'k': k,
                'classes': {str(c): [p for p, _ in l] for c, l in classes.items()}})
    shutil.rmtree(base, ignore_errors=True)


# ------------------------------------------------------------------ S: shared-list path of the assignment stage
def shared_list_schedules(ctx, rng, tag, n_cells, chunk_size, limit):
    """run_type_assignment_on_h5ad with results_output_path=None: the workers append to a
    Manager list under a lock, in completion order."""
    from cell_type_mapper.type_assignment.election_runner import run_type_assignment_on_h5ad
    from cell_type_mapper.type_assignment.marker_cache_v2 import create_marker_cache_from_specified_markers
    from cell_type_mapper.taxonomy.taxonomy_tree import TaxonomyTree
    base = ctx.scratch / f'sl_{tag}'
    base.mkdir()
    sc = K.mapping_inputs(rng, base, n_cells, max_leaves=7)
    with h5py.File(base / 'stats.h5', 'r') as f:
        tree = TaxonomyTree.from_str(serialized_dict=f['taxonomy_tree'][()].decode('utf-8'))
        ref_genes = json.loads(f['col_names'][()].decode('utf-8'))
    lookup = json.load(open(base / 'markers.json'))
    qgenes = [pipeline.gname(g) for g in sc.query_genes]
    with K.quiet():
        create_marker_cache_from_specified_markers(marker_lookup=lookup, reference_gene_names=ref_genes,
                                                   query_gene_names=qgenes, output_cache_path=base / 'cache.h5',
                                                   taxonomy_tree=tree, min_markers=2)
    k = -(-n_cells // chunk_size)
    seed = rng.randrange(10 ** 6)
    bfl = {lv: 0.6 for lv in tree.hierarchy[:-1]}
    bfl['None'] = 0.6

    def mk(d):
        d.mkdir()
        (d / 'tmp').mkdir()

        def fn():
            return run_type_assignment_on_h5ad(
                query_h5ad_path=base / 'query.h5ad', precomputed_stats_path=base / 'stats.h5',
                marker_gene_cache_path=base / 'cache.h5', taxonomy_tree=tree, n_processors=k, chunk_size=chunk_size,
                bootstrap_factor_lookup=bfl, bootstrap_iteration=7, rng=np.random.default_rng(seed),
                n_assignments=3, normalization='log2CPM', tmp_dir=str(d / 'tmp'), results_output_path=None)
        return fn
    res0, tr0 = run_scheduled(ctx, 'mapping', mk, base / 'base', None)
    if not res0['ok']:
        ctx.violation(f'assignment (shared list) baseline failed: {res0["error"]}', {'class': 'c04-baseline', 'error': res0['error']})
        return
    ref = json.dumps(res0['value'])
    cell_ids = list(sc.cell_ids)
    rank = {c: i for i, c in enumerate(sorted(cell_ids))}
    row_of = {c: i for i, c in enumerate(cell_ids)}
    cases, meta = [], []
    for si, sigma in enumerate(schedules(rng, k, limit)):
        d = base / f's{si}'
        res, tr = run_scheduled(ctx, 'mapping', mk, d, sigma, before=True)
        order = completion_order(tr, 'mapping', ev='worked')
        ctx.count(('S', 'shared-list', tag, tuple(order)), nontrivial=k >= 2 and order != sorted(order))
        ctx.dist('schedule', f'shared-list k={k} ' + ('achieved' if order == list(sigma) else 'missed'))
        rep = {'kind': 'schedule', 'stage': 'assignment-shared-list', 'n_cells': n_cells, 'chunk_size': chunk_size,
               'intended': list(sigma), 'observed_order': order, 'seed': seed}
        if not res['ok']:
            ctx.violation(f'assignment under schedule {sigma} failed: {res["error"]}', dict(rep, **{'class': 'c04-run-failed'}))
            continue
        if json.dumps(res['value']) != ref:
            ctx.violation(f'assignment (shared list) differs between completion order {order} and the baseline',
                          dict(rep, **{'class': 'c04-mapping-schedule-dependent'}))
        else:
            ctx.traces_validated += 1
        begins = sorted((r['k'], r['info']) for r in tr if r['ev'] == 'begin' and r['stage'] == 'mapping')
        tables = [[[rank[cell_ids[r]], r] for r in range(i['r0'], i['r1'])] for _, i in begins]
        cases.append((401, [0, [rank[c] for c in cell_ids], tables, list(range(len(tables))), order]))
        meta.append((rep, [[rank[c['cell_id']], row_of[c['cell_id']]] for c in res['value']]))
        shutil.rmtree(d, ignore_errors=True)
    for (rep, exp), out in zip(meta, ctx.model(cases)):
        if out[0] != 0 or out[1] != [exp]:
            ctx.violation('final order of the shared-list path differs from Gather.run_gather',
                          dict(rep, model=out, **{'class': 'corr:Gather.run_gather'}), no_input=True)
    shutil.rmtree(base, ignore_errors=True)


# ------------------------------------------------------------------ S: the other stages
def generic_schedules(ctx, rng, stage, tag, make_fn, digest, limit, inj=None, what=''):
    base = ctx.scratch / f'gs_{stage}_{tag}'
    base.mkdir()
    res0, tr0 = run_scheduled(ctx, stage, make_fn, base / 'base', None, inj=inj)
    if not res0['ok']:
        ctx.violation(f'{stage} baseline failed: {res0["error"]}', {'class': 'c04-baseline', 'stage': stage, 'error': res0['error']})
        return None
    dig0 = digest(base / 'base', res0)
    k = len(res0['exit_codes'][stage])
    if k < 2:
        ctx.dist('schedule', f'{stage} skipped (k={k})')
        return dig0
    for si, sigma in enumerate(schedules(rng, k, limit)):
        d = base / f's{si}'
        res, tr = run_scheduled(ctx, stage, make_fn, d, sigma, inj=inj)
        order = completion_order(tr, stage)
        ctx.count(('S', stage, tag, tuple(order)), nontrivial=order != sorted(order))
        ctx.dist('schedule', f'{stage} k={k} ' + ('achieved' if order == list(sigma) else 'missed'))
        rep = {'kind': 'schedule', 'stage': stage, 'input': what, 'intended': list(sigma), 'observed_order': order}
        if not res['ok']:
            ctx.violation(f'{stage} under schedule {sigma} failed: {res["error"]}', dict(rep, **{'class': 'c04-run-failed'}))
            continue
        bad = diff_keys(dig0, digest(d, res))
        if bad:
            ctx.violation(f'{stage}: output differs between completion order {order} and the baseline in {bad}',
                          dict(rep, differs=bad, **{'class': f'c04-{stage}-schedule-dependent'}))
        else:
            ctx.traces_validated += 1
        shutil.rmtree(d, ignore_errors=True)
    return dig0


# ------------------------------------------------------------------ H: hash seeds
CHILD = r'''
import json, os, pathlib, sys
os.environ['CELL_TYPE_MAPPER_VERIF'] = '1'
import h5py
from harness import pipeline
from harness.props import c14 as K
base = pathlib.Path(sys.argv[1]); d = pathlib.Path(sys.argv[2]); spec = json.load(open(base / 'spec.json'))
d.mkdir()
class T: pass
gt = T(); gt.levels = spec['levels']
with K.quiet():
    K.stats_call(base, d, gt, spec['rows_at_a_time'], spec['p_stats'])()
    K.markers_call(d / 'stats.h5', d, spec['p_markers'])()
    with h5py.File(d / 'refm.h5', 'a') as f:
        f.create_dataset('metadata', data=json.dumps({'precomputed_path': str(d / 'stats.h5')}).encode('utf-8'))
    K.pmask_call(d / 'stats.h5', d, spec['p_markers'])()
    lookup = K.selection_call(d / 'refm.h5', spec['query_genes'], d, spec['p_sel'], spec['behemoth'])()
lookup = {k: v for k, v in lookup.items() if k not in ('metadata', 'log')}
json.dump(lookup, open(d / 'markers.json', 'w'))
cfg = pipeline.config_for(d, base / 'query.h5ad', d / 'stats.h5', d / 'markers.json', chunk_size=spec['chunk_size'],
                          n_processors=spec['p_map'], rng_seed=spec['rng_seed'], bootstrap_factor=0.6,
                          bootstrap_iteration=7, normalization='raw')
with K.quiet():
    K.mapping_call(cfg)()
print('done', os.environ.get('PYTHONHASHSEED'))
'''


def hash_seed_runs(ctx, rng, tag, seeds):
    base = ctx.scratch / f'hs_{tag}'
    base.mkdir()
    gt, genes, n_rows = K.reference_inputs(rng, base, min_leaves=4, max_leaves=7)
    qgenes = list(genes)
    rng.shuffle(qgenes)
    with h5py.File(base / 'ref.h5ad', 'r') as f:
        pass
    # the query: some reference rows, perturbed, genes shuffled
    import anndata
    a = anndata.read_h5ad(base / 'ref.h5ad')
    X = a.X.toarray() if hasattr(a.X, 'toarray') else np.asarray(a.X)
    rows = rng.sample(range(n_rows), min(n_rows, 9))
    pos = [genes.index(g) for g in qgenes]
    Q = X[rows][:, pos] + np.array([[rng.choice([0, 0, 1]) for _ in pos] for _ in rows], dtype=X.dtype)
    from harness import gen
    gen.write_h5ad(base / 'query.h5ad', Q.astype(np.float32), [f'q{i}' for i in range(len(rows))], qgenes,
                   encoding=rng.choice(['dense', 'csr']))
    spec = {'levels': gt.levels, 'rows_at_a_time': max(3, n_rows // 5), 'p_stats': 3, 'p_markers': 2, 'p_sel': 2,
            'behemoth': rng.choice([0, 1000]), 'query_genes': qgenes, 'chunk_size': 3, 'p_map': 3,
            'rng_seed': rng.randrange(10 ** 6)}
    json.dump(spec, open(base / 'spec.json', 'w'))
    (base / 'child.py').write_text(CHILD)
    digs = {}
    for hs in seeds:
        env = dict(os.environ, PYTHONHASHSEED=str(hs), PYTHONPATH=f'{core.REPO}/src:{core.VERIF}', CELL_TYPE_MAPPER_VERIF='1')
        r = subprocess.run(['/venv/bin/python', '-W', 'ignore', str(base / 'child.py'), str(base), str(base / f'h{hs}')],
                           capture_output=True, text=True, env=env, timeout=600)
        ctx.count(('H', tag, hs), nontrivial=True)
        ctx.dist('hash_seed', hs)
        if r.returncode != 0 or 'done' not in r.stdout:
            ctx.violation(f'stage chain failed under PYTHONHASHSEED={hs}: {r.stderr[-800:]}',
                          {'class': 'c04-run-failed', 'hash_seed': hs, 'stderr': r.stderr[-3000:], 'tree': gt.data})
            continue
        d = base / f'h{hs}'
        digs[hs] = {'stats': h5_digest(d / 'stats.h5'), 'markers': h5_digest(d / 'refm.h5'),
                    'mask': h5_digest(d / 'mask.h5'), 'lookup': open(d / 'markers.json').read(),
                    'mapping': mapping_digest(d)}
    ks = sorted(digs)
    for hs in ks[1:]:
        bad = diff_keys(digs[ks[0]], digs[hs])
        if bad:
            ctx.violation(f'outputs differ between PYTHONHASHSEED={ks[0]} and {hs}: {bad[:8]}',
                          {'class': 'c04-hash-seed-dependent', 'hash_seeds': [ks[0], hs], 'differs': bad, 'tree': gt.data,
                           'spec': spec})
        else:
            ctx.traces_validated += 1
    ctx.sample({'hash_seeds': ks, 'tree_shape': gt.shape_key(), 'n_rows': n_rows, 'spec': {k: v for k, v in spec.items() if k != 'query_genes'}})
    shutil.rmtree(base, ignore_errors=True)


# ------------------------------------------------------------------ entry points
def run(ctx):
    rng = ctx.rng
    if not faults.guard_on():
        raise RuntimeError('CELL_TYPE_MAPPER_VERIF=1 must be set (./check does it)')
    ctx.rule = ('S: a stage run with >= 2 real workers forced to complete in an order other than dispatch order; '
                'W: one worker count of a sweep 1..6 on one input; H: the four stages chained under one hash seed')
    ctx.assumptions += [
        'fixed input files and configuration (including rng_seed); distinct cell ids in the query (obs index)',
        'delays are injected by harness-side wrappers inherited through fork (harness/faults.py, guard '
        'CELL_TYPE_MAPPER_VERIF=1); the completion order actually observed is what is fed to the model',
        'outputs are compared without the fields that legitimately differ between runs: config paths, log, timestamps '
        '(JSON keys config/log/metadata, HDF5 dataset metadata, the metadata entry (timestamp) of a serialized taxonomy '
        'tree, CSV comment lines)',
        'CPU code path only (torch is not installed)',
    ]
    q = ctx.quick()
    lim3, lim4 = (6, 6) if q else (6, 24)
    mapping_schedules(ctx, rng, 'a', n_cells=14, chunk_size=5, n_processors=3, limit=lim3)   # files 0_5, 10_14, 5_10: name order != row order
    shared_list_schedules(ctx, rng, 'a', n_cells=9, chunk_size=3, limit=lim3)
    if not q:
        mapping_schedules(ctx, rng, 'b', n_cells=12, chunk_size=3, n_processors=4, limit=lim4)
        mapping_schedules(ctx, rng, 'c', n_cells=10, chunk_size=4, n_processors=2, limit=6)   # 3 chunks, 2 at a time
        mapping_schedules(ctx, rng, 'd', n_cells=23, chunk_size=6, n_processors=4, limit=lim4)  # files 0_6 12_18 18_23 6_12
        mapping_schedules(ctx, rng, 'e', n_cells=7, chunk_size=2, n_processors=4, limit=lim4)
        shared_list_schedules(ctx, rng, 'b', n_cells=8, chunk_size=2, limit=lim4)
        shared_list_schedules(ctx, rng, 'c', n_cells=11, chunk_size=4, limit=6)
    for rd in range(1 if q else 5):
        fb = ctx.scratch / f'ref{rd}'
        fb.mkdir()
        gt, genes, n_rows = K.reference_inputs(rng, fb, min_leaves=5, max_leaves=7, levels=2)
        kk = 3 if q else rng.choice([3, 4])
        rat = max(2, n_rows // (2 * kk + 1))

        def mk_stats(d, kk=kk):
            d.mkdir()
            return K.stats_call(fb, d, gt, rat, kk)
        generic_schedules(ctx, rng, 'stats', f'{rd}', mk_stats, lambda d, res: h5_digest(d / 'stats.h5'),
                          lim3 if kk == 3 else lim4, what=f'{n_rows} rows {rat} at a time')
        with K.quiet():
            K.stats_call(fb, fb, gt, 50, 1)()

        def mk_markers(d):
            d.mkdir()
            return K.markers_call(fb / 'stats.h5', d, 4)
        generic_schedules(ctx, rng, 'markers', f'{rd}', mk_markers, lambda d, res: h5_digest(d / 'refm.h5'),
                          4 if q else 12, inj=['markers'], what='reference markers')

        def mk_mask(d):
            d.mkdir()
            return K.pmask_call(fb / 'stats.h5', d, 4)
        generic_schedules(ctx, rng, 'pmask', f'{rd}', mk_mask, lambda d, res: h5_digest(d / 'mask.h5'),
                          3 if q else 8, what='p-value mask')
        with K.quiet():
            K.markers_call(fb / 'stats.h5', fb, 2)()
            with h5py.File(fb / 'refm.h5', 'a') as f:
                f.create_dataset('metadata', data=json.dumps({'precomputed_path': str(fb / 'stats.h5')}).encode('utf-8'))

        def mk_sel(d):
            d.mkdir()
            return K.selection_call(fb / 'refm.h5', genes, d, 4, 1000)
        generic_schedules(ctx, rng, 'selection', f'{rd}', mk_sel,
                          lambda d, res: {kk2: vv for kk2, vv in res['value'].items() if kk2 not in ('log', 'metadata')},
                          4 if q else 12, what='query marker selection')
        shutil.rmtree(fb, ignore_errors=True)
    faults.uninstall()
    hash_seed_runs(ctx, rng, 'a', [0, 1, 2] if q else [0, 1, 2, 3, 4, 5])
    if not q:
        hash_seed_runs(ctx, rng, 'b', [0, 7, 11, 12345])
        hash_seed_runs(ctx, rng, 'c', [3, 5, 99, 2 ** 31])


def replay(ctx, rec):
    print(json.dumps(rec, indent=1, default=str)[:8000])
    return 0
