"""C13, guard cases added after the audit (correspondence only).

amalgamate_h5ad(dst_sparse=True) with len(dst_obs) != number of selected rows: the real
amalgamate_csr_to_x does not validate the row count (the pointer array is created with
len(dst_obs)+1 zeros, the pieces are written at the running row position, the last entry
is set to n_valid; h5py refuses only when a clipped slice drops an element).  The model
(Sparse.amalgamate_csr, tag 1305) follows that; this module ties the two on row counts
total-3 .. total+3.  The property's own statement is NOT evaluated on these inputs: an
inconsistent dst_obs is outside what C13 quantifies over (see ctx.assumptions).

Registration (one line at the end of the `try:` block of harness/props/c13.py:run):
    from harness.props import c13_guards; c13_guards.run(ctx)
"""
import numpy as np
import pandas as pd
import scipy.sparse as sp

from harness import gen
from harness.props import c13 as base

# exception class -> Model/Sparse.err_code
ERR = {'IndexError': 1, 'KeyError': 1, 'TypeError': 2, 'OSError': 2, 'ValueError': 3}


def op_amalgamate_rowcount(ctx, d, i):
    from cell_type_mapper.utils.anndata_utils import amalgamate_h5ad
    rng = ctx.rng
    nc = rng.randrange(1, 7)
    dtype = rng.choice(base.DTYPES)
    n_src = rng.randrange(1, 4)
    packets, sources, want, srcdesc = [], [], [], []
    sub = d / f'amrc_{i}'
    sub.mkdir()
    for s in range(n_src):
        nr = rng.randrange(1, 7)
        M = np.zeros((nr, nc), dtype=dtype)
        dens = rng.choice([0.0, 0.3, 0.7, 1.0])
        for a in range(nr):
            for b in range(nc):
                if rng.random() < dens:
                    M[a, b] = base.rand_value(rng, dtype)
        enc = rng.choice(['csr', 'dense'])
        p = sub / f'src_{s}.h5ad'
        with base.quiet():
            gen.write_h5ad(p, M, base.names('c', nr), base.names('g', nc), encoding=enc)
        rows = rng.sample(range(nr), rng.randrange(1, nr + 1))
        packets.append({'path': str(p), 'rows': rows, 'layer': 'X'})
        want.append(M[rows, :])
        if enc == 'dense':
            sources.append([1, base.code_dense(M), nr, rows])
        else:
            sources.append([0, base.comp_of(sp.csr_matrix(M)), nc, rows])
        srcdesc.append(base.mdesc(M, encoding=enc, rows=rows))
    total = sum(w.shape[0] for w in want)
    delta = rng.choice([-3, -2, -1, 1, 2, 3])
    n_out = max(0, total + delta)
    obs_df = pd.DataFrame(index=base.names('o', n_out))
    var_df = pd.DataFrame(index=base.names('g', nc))
    dst = sub / 'dst.h5ad'
    tmp = sub / 'tmp'
    tmp.mkdir()
    err = base.attempt(lambda: amalgamate_h5ad(packets, dst, obs_df, var_df, dst_sparse=True,
                                               tmp_dir=str(tmp), compression=False))
    if base._TRACE['dir'] is not None:
        base.take_traces()
    res = ctx.model([(1305, [sources, n_out])])[0]
    corr = []
    desc = {'sources': srcdesc, 'n_rows_selected': total, 'len_dst_obs': n_out, 'model': res,
            'kind': 'amalgamate-rowcount'}
    if err is None:
        enc, arrs = base.h5ad_x(dst)
        if enc != 'csr_matrix':
            corr.append(f'encoding {enc}')
        elif res[0] != 0:
            corr.append(f'implementation returned normally, model says error {res[1]}')
        else:
            corr += base.comp_eq(arrs, res[1])
        desc['observed'] = {k: np.asarray(v).tolist() for k, v in arrs.items() if k != 'dense'}
    else:
        desc['observed'] = err
        if res[0] != 1 or ERR.get(err[0], 99) != res[1]:
            corr.append(f'implementation raised {err[0]}, model {res}')
    ctx.count(('amalgamate-rowcount', i, total, n_out), nontrivial=total >= 2)
    ctx.dist('op', 'amalgamate_h5ad(sparse, len(dst_obs)-rows=%+d):%s'
             % (n_out - total, 'ok' if err is None else 'raised'))
    if corr:
        ctx.disagreements_checked += 1
        desc['class'] = 'corr:Sparse.amalgamate_csr-rowcount'
        ctx.violation('amalgamate_h5ad (row count != rows selected) and its model disagree: ' + '; '.join(corr),
                      desc, no_input=True)


def run(ctx):
    ctx.assumptions += [
        'amalgamate_h5ad with len(dst_obs) != number of selected rows is outside the property: on such input '
        'the sparse destination returns normally with a pointer array that is not a CSR pointer array '
        '(c13_amalgamate_rowcount_unchecked; reported as finding candidate amalgamate-sparse-rowcount-unchecked); '
        'c13_guards compares implementation and model there (correspondence only)',
    ]
    d = ctx.scratch / 'guards'
    d.mkdir(exist_ok=True)
    for i in range(ctx.n(20, 200)):
        op_amalgamate_rowcount(ctx, d, i)
