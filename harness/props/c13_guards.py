"""C13, guard cases added after the audit (correspondence only).

amalgamate_h5ad(dst_sparse=True) with len(dst_obs) != number of selected rows: the real
amalgamate_csr_to_x does not validate the row count (the pointer array is created with
len(dst_obs)+1 zeros, the pieces are written at the running row position, the last entry
is set to n_valid; h5py refuses only when a clipped slice drops an element).  The model
(Sparse.amalgamate_csr, tag 1305) follows that; this module ties the two on row counts
total-3 .. total+3.  The property's own statement is NOT evaluated on these inputs: an
inconsistent dst_obs is outside what C13 quantifies over (see ctx.assumptions).

Registration (one line at the end of the `try:` block of harness/props/c13.py:run):
    from harness.props import c13_guards; c13_guards.run(ctx)
"""
import numpy as np
import pandas as pd
import scipy.sparse as sp

from harness import gen
from harness.props import c13 as base

# exception class -> Model/Sparse.err_code
ERR = {'IndexError': 1, 'KeyError': 1, 'TypeError': 2, 'OSError': 2, 'ValueError': 3}


def _mk(ctx):
    d = ctx.scratch / 'guards'
    d.mkdir(exist_ok=True)
    return d


def op_amalgamate_rowcount(ctx, d, i):
    from cell_type_mapper.utils.anndata_utils import amalgamate_h5ad
    rng = ctx.rng
    nc = rng.randrange(1, 7)
    dtype = rng.choice(base.DTYPES)
    n_src = rng.randrange(1, 4)
    packets, sources, want, srcdesc = [], [], [], []
    sub = d / f'amrc_{i}'
    sub.mkdir()
    for s in range(n_src):
        nr = rng.randrange(1, 7)
        M = np.zeros((nr, nc), dtype=dtype)
        dens = rng.choice([0.0, 0.3, 0.7, 1.0])
        for a in range(nr):
            for b in range(nc):
                if rng.random() < dens:
                    M[a, b] = base.rand_value(rng, dtype)
        enc = rng.choice(['csr', 'dense'])
        p = sub / f'src_{s}.h5ad'
        with base.quiet():
            gen.write_h5ad(p, M, base.names('c', nr), base.names('g', nc), encoding=enc)
        rows = rng.sample(range(nr), rng.randrange(1, nr + 1))
        packets.append({'path': str(p), 'rows': rows, 'layer': 'X'})
        want.append(M[rows, :])
        if enc == 'dense':
            sources.append([1, base.code_dense(M), nr, rows])
        else:
            sources.append([0, base.comp_of(sp.csr_matrix(M)), nc, rows])
        srcdesc.append(base.mdesc(M, encoding=enc, rows=rows))
    total = sum(w.shape[0] for w in want)
    delta = rng.choice([-3, -2, -1, 1, 2, 3])
    n_out = max(0, total + delta)
    obs_df = pd.DataFrame(index=base.names('o', n_out))
    var_df = pd.DataFrame(index=base.names('g', nc))
    dst = sub / 'dst.h5ad'
    tmp = sub / 'tmp'
    tmp.mkdir()
    err = base.attempt(lambda: amalgamate_h5ad(packets, dst, obs_df, var_df, dst_sparse=True,
                                               tmp_dir=str(tmp), compression=False))
    if base._TRACE['dir'] is not None:
        base.take_traces()
    res = ctx.model([(1305, [sources, n_out])])[0]
    corr = []
    desc = {'sources': srcdesc, 'n_rows_selected': total, 'len_dst_obs': n_out, 'model': res,
            'kind': 'amalgamate-rowcount'}
    if err is None:
        enc, arrs = base.h5ad_x(dst)
        if enc != 'csr_matrix':
            corr.append(f'encoding {enc}')
        elif res[0] != 0:
            corr.append(f'implementation returned normally, model says error {res[1]}')
        else:
            corr += base.comp_eq(arrs, res[1])
        desc['observed'] = {k: np.asarray(v).tolist() for k, v in arrs.items() if k != 'dense'}
    else:
        desc['observed'] = err
        if res[0] != 1 or ERR.get(err[0], 99) != res[1]:
            corr.append(f'implementation raised {err[0]}, model {res}')
    ctx.count(('amalgamate-rowcount', i, total, n_out), nontrivial=total >= 2)
    ctx.dist('op', 'amalgamate_h5ad(sparse, len(dst_obs)-rows=%+d):%s'
             % (n_out - total, 'ok' if err is None else 'raised'))
    if corr:
        ctx.disagreements_checked += 1
        desc['class'] = 'corr:Sparse.amalgamate_csr-rowcount'
        ctx.violation('amalgamate_h5ad (row count != rows selected) and its model disagree: ' + '; '.join(corr),
                      desc, no_input=True)


F27 = 'F27-amalgamate-mixed-dtypes-of-one-file-accepted-and-truncated'


def op_amalgamate_mixed_dtypes(ctx, d, i):
    """Packets whose matrices have DIFFERENT dtypes: in two files, or in two locations (X / layers) of ONE
    file.  amalgamate_h5ad either refuses ('disparate data types') or, if it returns, must have written the
    in-memory stack of the selected rows exactly (the property's clause; no model involved)."""
    from cell_type_mapper.utils.anndata_utils import amalgamate_h5ad
    rng = ctx.rng
    sub = d / f'ammd_{i}'
    sub.mkdir()
    nc = rng.randrange(1, 6)
    nr = rng.randrange(2, 7)
    dt_a, dt_b = rng.sample(['int32', 'float64', 'float32', 'uint16', 'int64'], 2)

    def mat(dt):
        M = np.zeros((nr, nc), dtype=dt)
        for a in range(nr):
            for b in range(nc):
                if rng.random() < 0.7:
                    M[a, b] = rng.choice([0.5, 2.75, 3.5, 1.25]) if dt.startswith('float') else rng.randrange(1, 9)
        return M
    Ma, Mb = mat(dt_a), mat(dt_b)
    same_file = rng.random() < 0.7
    enc_a, enc_b = rng.choice(['csr', 'dense', 'csc']), rng.choice(['csr', 'dense', 'csc'])
    with base.quiet():
        if same_file:
            loc_a, loc_b = rng.choice([('X', 'norm'), ('norm', 'X'), ('raw', 'norm')])
            pa = pb = sub / 'src.h5ad'
            base.write_multi(pa, nr, nc, {loc_a: (Ma, enc_a), loc_b: (Mb, enc_b)}, rng)
        else:
            loc_a = loc_b = 'X'
            pa, pb = sub / 'a.h5ad', sub / 'b.h5ad'
            gen.write_h5ad(pa, Ma, base.names('c', nr), base.names('g', nc), encoding=enc_a)
            gen.write_h5ad(pb, Mb, base.names('c', nr), base.names('g', nc), encoding=enc_b)
    rows_a = rng.sample(range(nr), rng.randrange(1, nr + 1))
    rows_b = rng.sample(range(nr), rng.randrange(1, nr + 1))
    packets = [{'path': str(pa), 'rows': rows_a, 'layer': loc_a}, {'path': str(pb), 'rows': rows_b, 'layer': loc_b}]
    want = np.vstack([Ma[rows_a, :].astype(np.float64), Mb[rows_b, :].astype(np.float64)])
    dst_sparse = rng.random() < 0.5
    obs_df = pd.DataFrame(index=base.names('o', want.shape[0]))
    var_df = pd.DataFrame(index=base.names('g', nc))
    dst = sub / 'dst.h5ad'
    tmp = sub / 'tmp'
    tmp.mkdir()
    err = base.attempt(lambda: amalgamate_h5ad(packets, dst, obs_df, var_df, dst_sparse=dst_sparse,
                                               tmp_dir=str(tmp), compression=False))
    if base._TRACE['dir'] is not None:
        base.take_traces()
    desc = {'kind': 'amalgamate-mixed-dtypes', 'same_file': same_file, 'locations': [loc_a, loc_b], 'dtypes': [dt_a, dt_b],
            'encodings': [enc_a, enc_b], 'A': Ma.tolist(), 'B': Mb.tolist(), 'rows': [rows_a, rows_b], 'dst_sparse': dst_sparse}
    ctx.count(('amalgamate-mixed-dtypes', i), nontrivial=True)
    ctx.dist('op', 'amalgamate_h5ad(mixed dtypes, %s):%s' % ('one file' if same_file else 'two files',
                                                              'refused' if err is not None else 'returned'))
    if err is not None:
        desc['observed'] = err
        if err[0] != 'RuntimeError' or 'disparate' not in str(err[1]):
            ctx.disagreements_checked += 1
            desc['class'] = 'amalgamate:mixed-dtypes-unexpected-error'
            ctx.violation(f'amalgamate_h5ad on sources of dtypes {dt_a}/{dt_b} raised {err[0]}: {str(err[1])[:150]} '
                          '(expected the "disparate data types" refusal)', desc)
        return
    enc, arrs = base.h5ad_x(dst)
    got = np.asarray(base.dense_of_x(enc, arrs, np.float64), dtype=np.float64)
    if got.shape != want.shape or not np.array_equal(got, want):
        ctx.disagreements_checked += 1
        desc['observed'] = got.tolist()
        desc['class'] = F27 if same_file else 'amalgamate:mixed-dtypes-wrong-matrix'
        ctx.violation(f'amalgamate_h5ad accepted sources of dtypes {dt_a} ({loc_a}) and {dt_b} ({loc_b})'
                      f'{" of ONE file" if same_file else ""} and wrote a matrix that differs from the stack of the '
                      f'selected rows: {got.tolist()} instead of {want.tolist()}', desc)


def run(ctx):
    for i in range(ctx.n(12, 150)):
        op_amalgamate_mixed_dtypes(ctx, ctx.scratch / 'guards' if (ctx.scratch / 'guards').exists() else _mk(ctx), i)
    ctx.assumptions += [
        'amalgamate_h5ad with len(dst_obs) != number of selected rows is outside the property: on such input '
        'the sparse destination returns normally with a pointer array that is not a CSR pointer array '
        '(c13_amalgamate_rowcount_unchecked; reported as finding candidate amalgamate-sparse-rowcount-unchecked); '
        'c13_guards compares implementation and model there (correspondence only)',
    ]
    d = ctx.scratch / 'guards'
    d.mkdir(exist_ok=True)
    for i in range(ctx.n(20, 200)):
        op_amalgamate_rowcount(ctx, d, i)
