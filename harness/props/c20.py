"""C20 — cloud-safe outputs reveal no absolute path of the host.

Tie (i): the REAL cloud_utils.sanitize_paths on generated strings / nested
structures over a generated real directory tree, compared with Model/Sanitize.v
(the harness supplies the file-system facts the words can reach) and with the
property's own statement (no absolute path of anything existing on the host is a
sub-string of the output).  Tie (ii): REAL run_mapping(cloud_safe=True) on a tiny
generated data set, successes and failures on invalid input, scanning `config`
and `log` of the JSON and HDF5 outputs and the log file.
"""
import contextlib
import copy
import json
import os
import pathlib
import re
import warnings

import numpy as np

from harness.core import exc_class

F10 = 'F10-sanitize-path-glued-to-leading-prefix'
F13 = 'F13-sanitize-raises-on-sibling-of-package-dir'
F14 = 'F14-sanitize-top-level-entry-with-glued-suffix'
F18 = 'F18-earlier-replacement-rewrites-later-word'

NAME_ALPHA = 'abcxyzQR019'
NAME_PUNCT = '._-,=:()[]+@#{}<>;!'
SPACES = [' ', ' ', ' ', '\t', '\n', '  ', '\r\n', '\x0b', '\x0c', '\x1c', '\x1f', '\x85', '\xa0', '\u2003', '\u2028',
          '\u3000']


def codes(s):
    return [ord(c) for c in s]


def uncodes(l):
    return ''.join(chr(c) for c in l)


# ------------------------------------------------------------------ a real directory tree
def gen_fs_name(rng, used):
    for _ in range(100):
        n = rng.randrange(1, 7)
        s = ''.join(rng.choice(NAME_ALPHA) if rng.random() < 0.75 else rng.choice(NAME_PUNCT) for _ in range(n))
        if s in ('.', '..') or s in used:
            continue
        used.add(s)
        return s
    s = f'n{len(used)}'
    used.add(s)
    return s


def make_tree(rng, root):
    """Create files, directories and symlinks under root; return the lists of what exists."""
    root.mkdir(parents=True)
    dirs, files = [root], []
    used = set()
    for _ in range(rng.randrange(3, 7)):
        parent = rng.choice(dirs)
        if len(parent.relative_to(root).parts) >= 3:
            continue
        d = parent / gen_fs_name(rng, used)
        d.mkdir()
        dirs.append(d)
    for _ in range(rng.randrange(4, 9)):
        parent = rng.choice(dirs)
        f = parent / (gen_fs_name(rng, used) + rng.choice(['', '.h5', '.h5ad', '.json', '.csv', '.txt']))
        if not f.exists():
            f.write_text('x')
            files.append(f)
    links = []
    for _ in range(rng.randrange(0, 3)):
        parent = rng.choice(dirs)
        target = rng.choice(files + dirs[1:]) if len(dirs) > 1 else rng.choice(files)
        ln = parent / gen_fs_name(rng, used)
        if not ln.exists():
            os.symlink(target, ln)
            links.append(ln)
    return dirs, files, links


@contextlib.contextmanager
def chdir(p):
    old = os.getcwd()
    os.chdir(p)
    try:
        yield
    finally:
        os.chdir(old)


# ------------------------------------------------------------------ strings as they occur in messages
TEMPLATES = [
    '{p}', '{p}', 'reading {p}', 'using {p} for precomputed_stats', 'File "{p}", line 12, in run',
    "'{p}'", '"{p}"', "'{p}',", '"{p}":', '{p},', '{p}.', '{p};', '{p}:', '{p}:12:', '{p})', '{p}]', '{p}>',
    '({p})', '[{p}]', '<{p}>', '{{{p}}}', 'path={p}', '--query_path={p}', 'query_path:{p}', 'file://{p}',
    "['{p}', '{q}']", '["{p}", "{q}"]', "{{'path': '{p}'}}", '{{"{p}": 1}}', "('{p}')", 'a={p},b={q}',
    '{p} {q}', '{p}\t{q}\nand {p}', '"{p}" and {p}', "'{p}'{q}", 'copied {p} to {q}', '{p}/', '{p}//', '{p}/.',
    '{p}/..', '{p}/nonexistent/y.h5', 'x{p}', '={p}', '{p}={q}', '{p}"extra', '({p}', '{p} (see {q})',
    'marker cache path ({p})', 'unable to write to {p}', 'OSError: [Errno 2] No such file: \'{p}\'',
    'h5py: unable to open file (name = \'{p}\', errno = 2)', '{p}{sp}{q}', '{sp}{p}{sp}', 'no path here',
    'ratio 3/4 and/or a / b', '/', '.', '..', '//', '""', "''", '{p}"', 'in {p}, line 3', 'cwd={p}/',
]


def gen_path_text(rng, world):
    """Text of a path: existing / below an existing one / nowhere / relative / package / odd."""
    dirs, files, links, root, mapper = world['dirs'], world['files'], world['links'], world['root'], world['mapper']
    r = rng.random()
    if r < 0.30:
        return str(rng.choice(files))
    if r < 0.42:
        return str(rng.choice(dirs))
    if r < 0.50 and links:
        return str(rng.choice(links))
    if r < 0.58:
        return str(rng.choice(dirs) / 'nonexistent' / 'z.h5')
    if r < 0.63:
        return '/nonexistent_root_dir/' + rng.choice(['a', 'a/b.h5', ''])
    if r < 0.72:
        # relative to the current directory (= root of the generated tree)
        c = rng.choice(files + dirs[1:]) if len(dirs) > 1 else rng.choice(files)
        rel = str(c.relative_to(root))
        return rng.choice(['', './', '../' + root.name + '/']) + rel
    if r < 0.80:
        return rng.choice(world['package_files'])
    if r < 0.84:
        return rng.choice([str(mapper), str(mapper) + '/', str(mapper / 'cell_type_mapper')])
    if r < 0.88:
        # starts with the package directory as a STRING but is not inside it
        return str(mapper) + rng.choice(['x/y.py', '_data/q.h5ad', ',', '.', '2', ').'])
    if r < 0.92:
        return rng.choice(world['site_files'])
    if r < 0.96:
        p = str(rng.choice(files))
        return rng.choice(['/', '//', '///']) + p.lstrip('/').replace('/', rng.choice(['//', '/./', '/']), 1)
    return rng.choice(['/', '//', '.', '..', '~', '/tmp', '/root', '//root', '/usr/lib', str(root.parent), '../..'])


def gen_string(rng, world):
    t = rng.choice(TEMPLATES)
    s = t.format(p=gen_path_text(rng, world), q=gen_path_text(rng, world), sp=rng.choice(SPACES))
    if rng.random() < 0.2:
        s = s + rng.choice(SPACES) + rng.choice(TEMPLATES).format(p=gen_path_text(rng, world), q=gen_path_text(rng, world),
                                                               sp=rng.choice(SPACES))
    return s


def gen_structure(rng, world, depth=0):
    r = rng.random()
    if depth >= 3 or r < 0.45:
        return gen_string(rng, world)
    if r < 0.55:
        return rng.choice([None, 3, 2.5, True, ('tuple', gen_string(rng, world))])
    if r < 0.78:
        return [gen_structure(rng, world, depth + 1) for _ in range(rng.randrange(0, 4))]
    return {rng.choice(['query_path', 'tmp_dir', 'k', gen_path_text(rng, world)]) + str(i):
            gen_structure(rng, world, depth + 1) for i in range(rng.randrange(0, 4))}


# ------------------------------------------------------------------ facts about the file system
def enc_path(p):
    parts = list(p.parts)
    if p.anchor == '/':
        root, parts = 1, parts[1:]
    elif p.anchor == '//':
        root, parts = 2, parts[1:]
    elif p.anchor == '':
        root = 0
    else:
        raise ValueError(p.anchor)
    return [root, [codes(x) for x in parts]]


def strings_of(v):
    if isinstance(v, str):
        yield v
    elif isinstance(v, list):
        for x in v:
            yield from strings_of(x)
    elif isinstance(v, dict):
        for x in v.values():
            yield from strings_of(x)


def fs_facts(value):
    """Existing (lexical) paths reachable from the words of every string in value, and what the
    word paths resolve to.  Raises OSError when the OS refuses a name (too long)."""
    existing, resolved = {}, {}
    for s in strings_of(value):
        for w in s.split():
            p = pathlib.Path(w.replace('"', '').replace("'", ''))
            chain = [p] + list(p.parents)
            for q in chain:
                k = json.dumps(enc_path(q))
                if k not in existing:
                    existing[k] = bool(q.is_file() or q.is_dir())
            k = json.dumps(enc_path(p))
            if k not in resolved:
                resolved[k] = enc_path(p.resolve().absolute())
    fs = [json.loads(k) for k, v in existing.items() if v]
    tbl = [[json.loads(k), v] for k, v in resolved.items()]
    return fs, tbl


def enc_value(v, side):
    if isinstance(v, str):
        return [0, codes(v)]
    if isinstance(v, list):
        return [1, [enc_value(x, side) for x in v]]
    if isinstance(v, dict):
        return [2, [[codes(k), enc_value(x, side)] for k, x in v.items()]]
    side.append(v)
    return [3, len(side) - 1]


def dec_value(x, side):
    if x[0] == 0:
        return uncodes(x[1])
    if x[0] == 1:
        return [dec_value(e, side) for e in x[1]]
    if x[0] == 2:
        return {uncodes(k): dec_value(e, side) for k, e in x[1]}
    return side[x[1]]


# ------------------------------------------------------------------ the property's own statement
def is_name_char(c):
    return (c.isascii() and (c.isalnum() or c in '_-.~/')) or ord(c) > 127


def find_leaks(s, limit=3):
    """Sub-strings of s that are absolute paths of something existing on this host.
    A '/' starts a candidate when it is at the start of the text or follows a character that
    cannot be part of a file name written before it (space, quote, bracket, '=', ':', ',' ...)."""
    out = []
    n = len(s)
    for i, c in enumerate(s):
        if c != '/' or (i > 0 and is_name_char(s[i - 1])):
            continue
        # the LONGEST prefix of the rest of the word that exists (the first one would always be the
        # top-level directory and make every leak look like finding F14)
        j = i + 1
        best = None
        while j < n and not s[j].isspace():
            j += 1
            sub = s[i:j]
            if os.path.normpath(sub) in ('/', '//'):
                continue
            try:
                if os.path.lexists(sub):
                    best = sub
            except (OSError, ValueError):
                break
        if best is not None:
            out.append((i, best))
        if len(out) >= limit:
            break
    return out


def leak_class(s, leak, original_words=None):
    """F10: the leaked path is glued, inside its blank-delimited word, to a leading prefix that does
    not consist of quote characters only (such a word is not recognised as a path).
    F14: the word starts with the path, but what exists is an entry directly under "/" followed by
    glued text ('/tmp,' '"/data",' '/scratch]'): the walk up the parents stops at "/"."""
    i, sub = leak
    k = i
    while k > 0 and not s[k - 1].isspace():
        k -= 1
    e = i
    while e < len(s) and not s[e].isspace():
        e += 1
    if original_words is not None and s[k:e] not in original_words:
        # F18: the word holding the leak is not a word of the input: an earlier word's
        # str.replace rewrote part of it, after which its own replacement found nothing
        return F18
    prefix = s[k:i].replace('"', '').replace("'", '')
    if prefix != '':
        return F10
    if os.path.normpath(sub).count('/') == 1:
        return F14
    return 'c20:absolute-path-at-the-start-of-a-word'


# ------------------------------------------------------------------ tie (i)
def sanitize_cases(ctx):
    import cell_type_mapper
    import h5py
    from cell_type_mapper.utils.cloud_utils import sanitize_paths
    rng = ctx.rng
    mapper = pathlib.Path(cell_type_mapper.__file__).resolve().absolute().parent.parent
    pkg = mapper / 'cell_type_mapper'
    package_files = [str(pkg / 'utils' / 'cloud_utils.py'), str(pkg / 'cli' / 'from_specified_markers.py'),
                     str(pkg / '__init__.py'), str(pkg / 'utils'), str(pkg / 'type_assignment' / 'matching.py')]
    site = pathlib.Path(h5py.__file__).resolve().parent
    site_files = [str(site / '__init__.py'), str(site), str(pathlib.Path(np.__file__).resolve()),
                  str(pathlib.Path(os.__file__).resolve())]
    n_trees = ctx.n(6, 60)
    per_tree = ctx.n(350, 850)
    recs = []
    for t in range(n_trees):
        root = ctx.scratch / f'fs{t}' / 'host'
        dirs, files, links = make_tree(rng, root)
        world = {'dirs': dirs, 'files': files, 'links': links, 'root': root, 'mapper': mapper,
                 'package_files': package_files, 'site_files': site_files}
        with chdir(root):
            for k in range(per_tree):
                value = gen_string(rng, world) if rng.random() < 0.8 else gen_structure(rng, world)
                try:
                    fs, tbl = fs_facts(value)
                except OSError:
                    ctx.dist('sanitize', 'os-refused-name')
                    continue
                try:
                    with warnings.catch_warnings():
                        warnings.simplefilter('ignore')
                        out = [0, sanitize_paths(copy.deepcopy(value))]
                except ValueError as e:
                    out = [1, 1, str(e)[:200]]
                except RecursionError as e:
                    out = [1, 2, 'RecursionError']
                except Exception as e:
                    out = [1, 99, f'{exc_class(e)}: {e}'[:200]]
                leaks = []
                if out[0] == 0:
                    for s in strings_of(out[1]):
                        lk = find_leaks(s)
                        if lk:
                            leaks.append((s, lk))
                recs.append({'value': value, 'fs': fs, 'tbl': tbl, 'out': out, 'leaks': leaks, 'tree': t,
                             'cwd': str(root)})
    menc = enc_path(mapper)
    cases, sides = [], []
    for r in recs:
        side = []
        cases.append((2001, [r['fs'], r['tbl'], menc, enc_value(r['value'], side)]))
        sides.append(side)
    res = ctx.model(cases)
    for k, (r, m, side) in enumerate(zip(recs, res, sides)):
        out = r['out']
        changed = out[0] == 0 and out[1] != r['value']
        ctx.count(('san', k), nontrivial=bool(changed or r['leaks'] or out[0] == 1))
        ctx.dist('sanitize', 'raised' if out[0] == 1 else 'leak' if r['leaks'] else 'rewritten' if changed else 'unchanged')
        rec = {'kind': 'sanitize', 'value': r['value'], 'cwd': r['cwd'], 'existing': r['fs'], 'resolve': r['tbl'],
               'observed': out, 'model': m}
        if changed and isinstance(r['value'], str):
            ctx.sample({'in': r['value'], 'out': out[1]}, limit=3)
        # (a) correspondence
        if out[0] == 0:
            ok = m[0] == 0 and dec_value(m[1], side) == out[1]
        else:
            ok = m[0] == 1 and m[1] == out[1]
        if not ok:
            ctx.disagreements_checked += 1
            rec['class'] = 'corr:Sanitize.sanitize'
            if m[0] == 0:
                rec['model_decoded'] = dec_value(m[1], side)
            ctx.violation('sanitize_paths and its model disagree', rec, no_input=True)
        # (b) the property on the observed output
        if out[0] == 1 and out[1] == 1:
            rec2 = dict(rec)
            rec2['class'] = F13
            ctx.violation('sanitize_paths raises ValueError: ' + out[2], rec2)
        elif out[0] == 1:
            rec2 = dict(rec)
            rec2['class'] = 'c20:sanitize-raises-' + str(out[2])[:30]
            ctx.violation('sanitize_paths raises: ' + str(out[2]), rec2)
        seen = set()
        for s, lk in r['leaks']:
            for leak in lk:
                cls = leak_class(s, leak, set(w for v in strings_of(r['value']) for w in v.split()))
                if cls in seen:
                    continue
                seen.add(cls)
                rec2 = dict(rec)
                rec2['class'] = cls
                rec2['leaked'] = leak[1]
                ctx.violation(f'sanitize_paths output {s!r} still contains the absolute path {leak[1]!r}', rec2)


def parse_cases(ctx):
    """_word_to_path and str.split() against the model, directly."""
    from cell_type_mapper.utils.cloud_utils import _word_to_path
    rng = ctx.rng
    words = ['', '/', '//', '///', '.', '..', './', '/.', 'a', 'a/', '/a', '//a', '///a', 'a//b', 'a/./b', 'a/../b',
             '"', "'", '"/a"', "'/a'/b", '/a"b"/c', './/', '/./', '//./a', '..//..', 'a/.', 'a/..', '...', '/...',
             '.a', 'a.', '/ /', '"."', "'..'"]
    alpha = ['a', 'b', '.', '.', '/', '/', '/', '"', "'", '-', '(', '=', 'é', ',']
    for _ in range(ctx.n(600, 6000)):
        words.append(''.join(rng.choice(alpha) for _ in range(rng.randrange(0, 9))))
    obs = []
    for w in words:
        p = _word_to_path(w)
        obs.append([enc_path(p), codes(str(p)), codes(p.name)])
    res = ctx.model([(2004, [codes(w) for w in words])])[0]
    assert res[0] == 0
    for w, o, m in zip(words, obs, res[1]):
        ctx.count(('parse', w), nontrivial='/' in w)
        if o != m:
            ctx.disagreements_checked += 1
            ctx.violation(f'_word_to_path({w!r}): pathlib gives {o}, the model {m}',
                          {'class': 'corr:Sanitize.word_to_path', 'kind': 'parse', 'word': w, 'observed': o, 'model': m},
                          no_input=True)
    # str.split(): every code point up to U+3100 on its own, then random strings
    strs = [''.join('a' + chr(c) for c in range(lo, lo + 256)) + 'a' for lo in range(0, 0x3100, 256)]
    for _ in range(ctx.n(200, 2000)):
        strs.append(''.join(rng.choice(['a', 'b', '/']) if rng.random() < 0.6 else rng.choice(SPACES)
                            for _ in range(rng.randrange(0, 12))))
    # lone surrogates cannot be encoded but are harmless here
    res = ctx.model([(2003, codes(s)) for s in strs])
    for s, m in zip(strs, res):
        ctx.count(('split', s[:40]), nontrivial=len(s) > 1)
        if m != [0, [codes(w) for w in s.split()]]:
            ctx.disagreements_checked += 1
            ctx.violation('str.split() and the model disagree',
                          {'class': 'corr:Sanitize.split', 'kind': 'split', 'string': s, 'model': m}, no_input=True)
    ctx.extra['split_exhaustive_code_points'] = 0x3100


# ------------------------------------------------------------------ tie (ii): real cloud-safe runs
RUN_LEAK = 'c20-run-leaks-absolute-path'
RUN_CORR = 'corr:Sanitize.run_sinks'
RUN_NO_OUTPUT = 'c20-run-writes-no-output-record'
KNOWN_LEAK_CLASSES = (F10, F14, F18)
RUN_CLASSES = ['success', 'marker-path-missing', 'marker-unknown-gene', 'stats-without-sum', 'query-path-missing',
               'directory-as-file', 'csv-directory-missing', 'worker-failure']
# classes whose failure happens inside the try block of run_mapping with a readable query file: the finally block
# then writes the JSON and the HDF5 record (a missing / unreadable query file makes the finally block itself raise
# in read_uns_from_h5ad before anything is written: only the log file exists then)
WRITES_RECORD = {'success', 'marker-path-missing', 'marker-unknown-gene', 'stats-without-sum', 'csv-directory-missing',
                 'worker-failure'}
FAULT_MODES = ('kill', 'exit3', 'raise')
FAULT_POINTS = ('before', 'mid', 'after')


def host_name(rr, used, ext=''):
    """A file / directory name as hosts have them: letters, digits and blank-free punctuation."""
    for _ in range(100):
        n = rr.randrange(2, 8)
        s = ''.join(rr.choice(NAME_ALPHA) if rr.random() < 0.8 else rr.choice(NAME_PUNCT) for _ in range(n))
        if s.strip('.') == '' or (s + ext) in used:
            continue
        used.add(s + ext)
        return s + ext
    s = f'n{len(used)}{ext}'
    used.add(s)
    return s


def make_run_inputs(top, sseed):
    """The generated data set of one scenario, in a generated directory layout under top."""
    import random
    from harness import pipeline, trees
    rr = random.Random(f'{sseed}-inputs')
    used = set()
    layout = top
    for _ in range(rr.randrange(0, 3)):
        layout = layout / host_name(rr, used)
    in_dir = layout / host_name(rr, used)
    in_dir.mkdir(parents=True)
    while True:
        tree = trees.random_tree(rr, max_levels=3, max_leaves=6)
        if len(tree.model[0]) >= 2:       # the election runs at least once per chunk
            break
    n_cells = rr.randrange(4, 9)
    sc = pipeline.gen_scenario(rr, n_cells=n_cells, tree=tree)
    inp = {'layout': layout, 'in_dir': in_dir, 'sc': sc, 'n_cells': n_cells, 'used': used,
           'stats': in_dir / host_name(rr, used, '.h5'),
           'markers': in_dir / host_name(rr, used, '.json'),
           'query': in_dir / host_name(rr, used, '.h5ad')}
    pipeline.write_stats(inp['stats'], sc)
    pipeline.write_markers(inp['markers'], sc)
    pipeline.write_query(inp['query'], sc, encoding=rr.choice(['dense', 'csr']))
    return inp


class Capture:
    """Harness-side wrappers of module-level names of the two CLI modules: every top-level call of
    sanitize_paths is recorded with its raw argument and the file-system facts its words can reach AT THE TIME OF
    THE CALL, and the CommandLog the run creates is kept (its lines are the raw log even when the code under
    test does not pass them through sanitize_paths)."""

    def __init__(self):
        self.calls = []
        self.logs = []

    def __enter__(self):
        import cell_type_mapper.cli.from_specified_markers as fsm
        import cell_type_mapper.cli.cli_log as cl
        self.mods = (fsm, cl)
        self.saved = [(fsm, 'sanitize_paths', getattr(fsm, 'sanitize_paths', None)),
                      (cl, 'sanitize_paths', getattr(cl, 'sanitize_paths', None)),
                      (fsm, 'CommandLog', getattr(fsm, 'CommandLog', None))]
        cap = self

        def wrap(real, where):
            def sanitize_paths(x):
                rec = {'where': where, 'arg': copy.deepcopy(x)}
                try:
                    rec['facts'] = fs_facts(x)
                except OSError:
                    rec['facts'] = None
                cap.calls.append(rec)
                out = real(x)
                rec['out'] = copy.deepcopy(out)
                return out
            return sanitize_paths
        for mod, name, real in self.saved[:2]:
            if real is not None:
                setattr(mod, name, wrap(real, mod.__name__.rsplit('.', 1)[-1]))
        real_log = self.saved[2][2]
        if real_log is not None:
            def CommandLog(*a, **k):
                lg = real_log(*a, **k)
                cap.logs.append(lg)
                return lg
            fsm.CommandLog = CommandLog
        return self

    def __exit__(self, *exc):
        for mod, name, real in self.saved:
            if real is not None:
                setattr(mod, name, real)
        return False


def run_spec(sseed, idx, cls, use_log, use_tmp):
    return {'sseed': sseed, 'idx': idx, 'run_class': cls, 'log_path_given': use_log, 'tmp_dir_given': use_tmp}


def one_run(top, inp, spec):
    """One real run_mapping(cloud_safe=True); returns the observation (sinks, raw log, facts)."""
    import gc
    import io
    import random
    import shutil
    import h5py
    from harness import pipeline, faults
    from cell_type_mapper.cli.from_specified_markers import run_mapping as real
    rr = random.Random(f"{spec['sseed']}-run-{spec['idx']}")
    cls = spec['run_class']
    used = inp['used']
    d = inp['layout'] / host_name(rr, used)
    d.mkdir()
    out_dir = d / host_name(rr, used)
    out_dir.mkdir()
    scratch = d / host_name(rr, used)
    scratch.mkdir()
    paths = {k: inp[k] for k in ('stats', 'markers', 'query')}
    detail = None
    if cls == 'marker-path-missing':
        paths['markers'] = inp['in_dir'] / host_name(rr, set(used), '.json')
    elif cls == 'query-path-missing':
        paths['query'] = inp['in_dir'] / host_name(rr, set(used), '.h5ad')
    elif cls == 'marker-unknown-gene':
        m = dict(inp['sc'].markers)
        bad = d / host_name(rr, used, '.json')
        table = {k: [pipeline.gname(g) for g in v] for k, v in m.items()}
        table['None'] = ['unknown_gene_a', 'unknown_gene_b']
        with open(bad, 'w') as f:
            json.dump(table, f)
        paths['markers'] = bad
    elif cls == 'stats-without-sum':
        bad = d / host_name(rr, used, '.h5')
        shutil.copy(inp['stats'], bad)
        with h5py.File(bad, 'a') as f:
            del f['sum']
        paths['stats'] = bad
    elif cls == 'directory-as-file':
        detail = rr.choice(['stats', 'markers', 'query'])
        bad = d / host_name(rr, used, {'stats': '.h5', 'markers': '.json', 'query': '.h5ad'}[detail])
        bad.mkdir()
        paths[detail] = bad
    n_proc = rr.choice([1, 2, 3])
    chunk = rr.choice([1, 2, 3])
    cfg = {
        'query_path': str(paths['query']),
        'extended_result_path': str(out_dir / host_name(rr, used, '.json')),
        'csv_result_path': str(out_dir / host_name(rr, used, '.csv')) if rr.random() < 0.7 else None,
        'hdf5_result_path': str(out_dir / host_name(rr, used, '.h5')),
        # popped from the record; when there is no scratch directory the result buffer goes here
        'extended_result_dir': str(scratch) if (not spec['tmp_dir_given'] or rr.random() < 0.5) else None,
        'tmp_dir': str(scratch) if spec['tmp_dir_given'] else None,
        'cloud_safe': True,
        'log_path': str(out_dir / host_name(rr, used, rr.choice(['.txt', '.log', '']))) if spec['log_path_given'] else None,
        'summary_metadata_path': None,
        'obsm_key': None, 'obsm_clobber': False,
        'max_gb': 1, 'flatten': rr.random() < 0.2, 'drop_level': None, 'map_to_ensembl': False,
        'precomputed_stats': {'path': str(paths['stats'])},
        'query_markers': {'serialized_lookup': str(paths['markers'])},
        'type_assignment': {'n_processors': n_proc, 'chunk_size': chunk,
                            'bootstrap_factor': 0.5, 'bootstrap_factor_lookup': None,
                            'bootstrap_iteration': 5, 'rng_seed': rr.randrange(1000),
                            'n_runners_up': rr.choice([0, 2]), 'normalization': 'log2CPM', 'min_markers': 2},
    }
    if cls == 'csv-directory-missing':
        cfg['csv_result_path'] = str(out_dir / host_name(rr, set(used)) / host_name(rr, used, '.csv'))
    plan = None
    if cls == 'worker-failure':
        k = -(-inp['n_cells'] // min(max(1, -(-inp['n_cells'] // n_proc)), chunk))
        plan = {'stage': 'mapping', 'worker': rr.randrange(k), 'mode': rr.choice(FAULT_MODES),
                'point': rr.choice(FAULT_POINTS)}
        detail = plan
    # the output locations are ARGUMENTS of run_mapping; the configuration may repeat them, leave them None or omit
    # the keys altogether (run_mapping does not read them from the configuration)
    out_args = {'output_path': cfg['extended_result_path'], 'log_path': cfg['log_path'],
                'hdf5_output_path': cfg['hdf5_result_path']}
    cfg_outputs = rr.choice(['repeated', 'repeated', 'none'])      # (omitting the keys makes the run raise KeyError)
    if cfg_outputs != 'repeated':
        for key_ in ('extended_result_path', 'hdf5_result_path', 'log_path'):
            if cfg_outputs == 'none':
                cfg[key_] = None
            else:
                cfg.pop(key_, None)
    given = copy.deepcopy(cfg)
    obs = {'spec': spec, 'detail': detail, 'config': given, 'error': None, 'fired': None, 'output_keys_in_config': cfg_outputs}
    buf = io.StringIO()
    trace_dir = d / 'trace'
    snapshot = None
    # the system temporary directory of the run (where mkstemp_clean(dir=None) puts the marker cache when there is
    # no scratch directory -- and leaves it, finding F9d): a directory of the layout, so that nothing stays in /tmp
    import tempfile
    systmp = d / host_name(rr, used)
    systmp.mkdir()
    old_tempdir = tempfile.tempdir
    tempfile.tempdir = str(systmp)
    with Capture() as cap:
        if plan is not None:
            faults.arm(['mapping'], fault=plan, trace_dir=trace_dir, poll_sleep=0.002)
        try:
            with contextlib.redirect_stdout(buf), contextlib.redirect_stderr(buf), warnings.catch_warnings():
                warnings.simplefilter('ignore')
                try:
                    real(cfg, **out_args)
                    snapshot = [str(x) for x in cap.logs[-1].log] if cap.logs else None
                except Exception as e:
                    # taken while the traceback still holds the frames of the run: the FileTracker of a failed run
                    # is finalised (and appends 'cleaning up' to the log) only after this handler
                    snapshot = [str(x) for x in cap.logs[-1].log] if cap.logs else None
                    obs['error'] = f'{exc_class(e)}: {e}'[:600]
                    obs['etype'] = type(e).__name__
                gc.collect()
        finally:
            tempfile.tempdir = old_tempdir
            if plan is not None:
                faults.settle()
                obs['fired'] = any(r['ev'] == 'fault' for r in faults.read_trace(trace_dir))
                faults.disarm()
    # ---- what the run recorded
    sinks = {}
    jp = pathlib.Path(out_args['output_path'])
    if jp.is_file():
        try:
            blob = json.load(open(jp))
            sinks['json'] = {'config': blob.get('config'), 'log': blob.get('log')}
        except ValueError as e:
            sinks['json'] = {'unreadable': str(e)[:200]}
    hp = pathlib.Path(out_args['hdf5_output_path'])
    if hp.is_file():
        try:
            with h5py.File(hp, 'r') as f:
                meta = json.loads(f['metadata'][()].decode('utf-8')) if 'metadata' in f else None
            if meta is not None:
                sinks['hdf5'] = {'config': meta.get('config'), 'log': meta.get('log')}
        except (OSError, ValueError, KeyError) as e:
            sinks['hdf5'] = {'unreadable': str(e)[:200]}
    if out_args['log_path'] is not None and pathlib.Path(out_args['log_path']).is_file():
        sinks['log_file'] = open(out_args['log_path'], encoding='utf-8', errors='surrogateescape').read()
    obs['sinks'] = sinks
    # ---- the raw log and the file-system facts
    raw = snapshot
    if raw is None:
        lists = [c['arg'] for c in cap.calls if isinstance(c['arg'], list)]
        if lists:
            raw = lists[-1]
    obs['raw_log'] = raw
    obs['sanitize_calls'] = [{'where': c['where'], 'type': type(c['arg']).__name__} for c in cap.calls]
    cfg_calls = [c for c in cap.calls if isinstance(c['arg'], dict)]
    log_calls = [c for c in cap.calls if isinstance(c['arg'], list)]
    # facts at the time of the call when the code made the call, else as they are now
    if cfg_calls and cfg_calls[0]['facts'] is not None:
        obs['facts_config'] = cfg_calls[0]['facts']
    else:
        obs['facts_config'] = fs_facts(given)
    facts = None
    for c in log_calls:
        if c['facts'] is not None and c['arg'] == raw:
            facts = c['facts']
    if facts is None and raw is not None:
        facts = fs_facts(raw)
    obs['facts_log'] = facts
    obs['raw_log_args_differ'] = any(c['arg'] != raw for c in log_calls)
    obs['dir'] = d
    return obs


def sink_strings(sinks):
    """(sink name, string) for EVERY string of config and log of the JSON and HDF5 records and the log file."""
    for name in ('json', 'hdf5'):
        sk = sinks.get(name)
        if not sk or 'unreadable' in sk:
            continue
        for s in strings_of(sk.get('config')):
            yield f'{name}:config', s
        for s in strings_of(sk.get('log')):
            yield f'{name}:log', s
    if 'log_file' in sinks:
        yield 'log_file', sinks['log_file']


def judge_run(ctx, obs, m_cfg, m_log, menc):
    """(a) the records against Sanitize.run_sinks of the raw configuration / raw log, (b) the property on the
    records."""
    spec, sinks = obs['spec'], obs['sinks']
    cls = spec['run_class']
    rep = {'kind': 'run', 'spec': spec, 'detail': obs['detail'], 'config': obs['config'], 'error': obs['error'],
           'sinks_present': sorted(sinks), 'sanitize_calls': obs['sanitize_calls'],
           'how_to_rerun': "./check C20 --replay <this file> regenerates the data set from spec['sseed'] and repeats the run"}
    # ---- (a)
    problems = []
    exp_cfg = exp_log = None
    if m_cfg[0] == 0:
        exp_cfg = dec_value(m_cfg[1][0], obs['side'])
    else:
        # the model says sanitising the configuration raises: the run must have died with that error
        want = {1: 'ValueError', 2: 'RecursionError', 3: 'KeyError'}.get(m_cfg[1])
        if obs.get('etype') != want or 'json' in sinks:
            problems.append(f'model: sanitising the configuration raises code {m_cfg[1]}; run: {obs["error"]}')
    if obs['raw_log'] is None:
        problems.append('the raw log of the run could not be captured (no CommandLog created, no list passed to '
                        'sanitize_paths)')
    elif m_log[0] == 0:
        exp_log = [uncodes(x) for x in m_log[1][1]]
        exp_file = ''.join(uncodes(x) + '\n' for x in m_log[1][2])
    else:
        want = {1: 'ValueError', 2: 'RecursionError'}.get(m_log[1])
        if obs.get('etype') != want or 'json' in sinks:
            problems.append(f'model: sanitising the log raises code {m_log[1]}; run: {obs["error"]}')
    if obs['raw_log_args_differ']:
        problems.append('a list passed to sanitize_paths differs from the lines of the CommandLog')
    agrees = {}
    for name in ('json', 'hdf5'):
        sk = sinks.get(name)
        if sk is None:
            continue
        if 'unreadable' in sk:
            problems.append(f'{name} record unreadable: {sk["unreadable"]}')
            continue
        agrees[f'{name}:config'] = exp_cfg is not None and sk['config'] == exp_cfg
        agrees[f'{name}:log'] = exp_log is not None and sk['log'] == exp_log
        if exp_cfg is not None and sk['config'] != exp_cfg:
            problems.append(f'{name} config differs from the model: {sk["config"]!r} vs {exp_cfg!r}'[:900])
        if exp_log is not None and sk['log'] != exp_log:
            bad = [(a, b) for a, b in zip(sk['log'] or [], exp_log) if a != b][:1] if isinstance(sk['log'], list) else []
            problems.append(f'{name} log differs from the model sanitisation of the raw log '
                            f'({len(sk["log"]) if isinstance(sk["log"], list) else sk["log"]!r} vs {len(exp_log)} lines; '
                            f'first differing pair {bad!r})'[:1500])
    if 'log_file' in sinks:
        agrees['log_file'] = exp_log is not None and sinks['log_file'] == exp_file
        if exp_log is not None and sinks['log_file'] != exp_file:
            problems.append('the log file differs from the model sanitisation of the raw log: '
                            f'{sinks["log_file"][-400:]!r} vs {exp_file[-400:]!r}')
    if problems:
        ctx.disagreements_checked += 1
        r2 = dict(rep)
        r2['class'] = RUN_CORR
        r2['problems'] = problems
        r2['raw_log'] = obs['raw_log']
        ctx.violation(f'cloud-safe run ({cls}, log_path {"given" if spec["log_path_given"] else "None"}, tmp_dir '
                      f'{"given" if spec["tmp_dir_given"] else "None"}): records and Sanitize.run_sinks disagree: '
                      + problems[0][:300], r2, no_input=True)
    # ---- (b) the property: no absolute path of the host in any string of the records
    original_words = set()
    for s in strings_of(obs['config']):
        original_words.update(s.split())
    for s in obs['raw_log'] or []:
        original_words.update(s.split())
    seen = set()
    n_leaks = 0
    for where, s in sink_strings(sinks):
        for leak in find_leaks(s, limit=20):
            n_leaks += 1
            # The recorded weaknesses of sanitize_paths (F10, F13, F14, F18) are findings about the FUNCTION, identified
            # on generated strings.  Whether a real run's records leak is a matter of which texts the run produces: on
            # the unchanged tree no cloud-safe run of any class leaks (the package words its own messages so that the
            # sanitiser can cope: '../parent/name'), so a leaking record is a violation whatever mechanism let it
            # through -- the mechanism is reported as a hint only
            mech = leak_class(s, leak, original_words)
            c = RUN_LEAK
            if (c, where) in seen:
                continue
            seen.add((c, where))
            i = leak[0]
            r2 = dict(rep)
            r2['class'] = c
            r2['where'] = where
            r2['leaked'] = leak[1]
            r2['context'] = s[max(0, i - 120):i + len(leak[1]) + 60]
            r2['record_equals_model'] = agrees.get(where, False)
            r2['sanitiser_weakness_that_let_it_through'] = mech if mech in KNOWN_LEAK_CLASSES else None
            ctx.violation(f'cloud-safe run ({cls}, log_path {"given" if spec["log_path_given"] else "None"}, tmp_dir '
                          f'{"given" if spec["tmp_dir_given"] else "None"}; {obs["error"] or "succeeded"}): {where} '
                          f'contains the absolute host path {leak[1]!r}: ...{r2["context"]!r}...'[:1200], r2)
    # a cloud-safe run that should leave a record and leaves none cannot report at all
    expects_record = cls in WRITES_RECORD or (cls == 'directory-as-file' and obs['detail'] != 'query')
    if expects_record and not ('json' in sinks and 'hdf5' in sinks) and not problems:
        r2 = dict(rep)
        r2['class'] = RUN_NO_OUTPUT
        ctx.violation(f'cloud-safe run ({cls}): no JSON / HDF5 record written ({sorted(sinks)}); {obs["error"]}', r2)
    return n_leaks


def run_cases(ctx):
    import shutil
    import cell_type_mapper
    from harness import faults
    if not faults.guard_on():
        raise RuntimeError('CELL_TYPE_MAPPER_VERIF=1 is not set (run through ./check)')
    mapper = pathlib.Path(cell_type_mapper.__file__).resolve().absolute().parent.parent
    menc = enc_path(mapper)
    n_scen = ctx.n(2, 14)
    observations = []
    t0 = __import__('time').time()
    for si in range(n_scen):
        sseed = ctx.rng.getrandbits(48)
        top = ctx.scratch / f'runs{si}'
        inp = make_run_inputs(top, sseed)
        idx = 0
        for cls in RUN_CLASSES:
            for use_log in (False, True):
                for use_tmp in (False, True):
                    spec = run_spec(sseed, idx, cls, use_log, use_tmp)
                    idx += 1
                    obs = one_run(top, inp, spec)
                    shutil.rmtree(obs.pop('dir'), ignore_errors=True)
                    observations.append(obs)
        shutil.rmtree(top, ignore_errors=True)
    faults.uninstall()
    ctx.extra['run_level_wall_s'] = round(__import__('time').time() - t0, 1)
    # ---- the model: the configuration with the facts at its call, the log with the facts at its call
    cases = []
    for obs in observations:
        side = []
        fs, tbl = obs['facts_config']
        cases.append((2002, [fs, tbl, menc, 1, enc_value(obs['config'], side), []]))
        obs['side'] = side
        raw = obs['raw_log'] or []
        fs, tbl = obs['facts_log'] if obs['facts_log'] is not None else ([], [])
        side2 = []
        cases.append((2002, [fs, tbl, menc, 1, enc_value({'extended_result_dir': None, 'tmp_dir': None}, side2),
                             [codes(x) for x in raw]]))
    res = ctx.model(cases)
    for k, obs in enumerate(observations):
        spec = obs['spec']
        cls = spec['run_class']
        failed = obs['error'] is not None
        expected_failure = cls != 'success'
        fired = obs['fired']
        if cls == 'worker-failure' and not fired:
            ctx.dist('run', 'worker fault point not reached (control run)')
            expected_failure = False
        if failed != expected_failure:
            # the scenario did not do what its class says: a harness problem, not a finding about C20
            ctx.violation(f'run of class {cls} {"failed: " + str(obs["error"]) if failed else "succeeded"}',
                          {'class': 'c20-run-setup', 'kind': 'run', 'spec': spec, 'config': obs['config'],
                           'error': obs['error']}, no_input=True)
        n_leaks = judge_run(ctx, obs, res[2 * k], res[2 * k + 1], menc)
        has_tb = any('Traceback' in s for s in (obs['raw_log'] or []))
        ctx.count(('run', spec['sseed'], spec['idx']), nontrivial=failed and has_tb)
        ctx.dist('run', f'{cls}: ' + ('failed' if failed else 'ok') + ', records ' + '+'.join(sorted(obs['sinks'])))
        ctx.dist('run_output_keys_in_config', obs.get('output_keys_in_config'))
        ctx.dist('run_log_and_tmp', f'log_path {"given" if spec["log_path_given"] else "None"}, tmp_dir '
                                    f'{"given" if spec["tmp_dir_given"] else "None"}')
        if n_leaks:
            ctx.dist('run', 'leaking records')
        if failed and has_tb and spec['idx'] % 8 == 4:
            tb = [s for s in obs['sinks'].get('json', {}).get('log') or [] if 'Traceback' in s]
            if tb:
                ctx.sample({'run': cls, 'error': obs['error'][:160], 'recorded_traceback': tb[0][-500:]}, limit=6)
    ctx.extra['cloud_safe_runs'] = len(observations)


def run(ctx):
    ctx.rule = ('sanitize_paths on strings built from message templates (paths bare, quoted, followed by , . ; : ) ] > '
                'or glued to ( [ < { key= file:// ; python list / dict / JSON renderings; several blanks kinds) over a '
                'generated real directory tree (names with . _ - , = : ( ) [ ] + @ # { } < > ; !, symlinks, the '
                'current directory inside the tree) with existing files / directories, paths below an existing '
                'directory, nowhere, relative, package sources, site-packages, odd roots (//, ///, .., ~); 20% nested '
                'lists / dicts with non-string leaves.  non-trivial = the string was rewritten, leaks, or the '
                'function raised')
    ctx.assumptions += [
        'file and directory names contain no white space (the property quantifies over space-free names), no quote '
        'characters and no NUL; no path component longer than 255 bytes (is_file() then raises OSError: '
        'ENAMETOOLONG is not among the errors pathlib ignores)',
        'an occurrence of an absolute path = a "/" at the start of the text or after a character that cannot belong '
        'to a file name ([A-Za-z0-9_.~/-] and non-ASCII letters can), extended to the right until what has been read '
        'names something that exists on the host; "/" and "//" themselves are not counted',
        'the file system does not change between the call and the scan',
        'dict keys are not sanitised by the code and are outside the scanned text',
    ]
    ctx.rule += ('.  Run level: real run_mapping(cloud_safe=True) on generated data sets in generated directory layouts '
                 '(directory and file names with blank-free punctuation): ' + ', '.join(RUN_CLASSES) + ', each with '
                 'log_path None / given and tmp_dir None / given; non-trivial = the run failed and a traceback reached '
                 'the log')
    ctx.assumptions += [
        'run level: the configuration is sanitised when the run starts and the log when it ends; the model is given the '
        'file-system facts observed at each of the two calls (harness-side wrapper of the module-level name '
        'sanitize_paths in cli/from_specified_markers.py and cli/cli_log.py), the scan looks at the file system as it '
        'is when the run has returned',
        'run level: a leak is attributed to a recorded weakness of sanitize_paths (F10, F14, F18) only when the record '
        'holding it equals the model sanitisation of the raw text; a query file that is missing or unreadable makes the '
        'finally block of run_mapping raise before the JSON / HDF5 records are written (only the log file is scanned '
        'then)',
    ]
    parse_cases(ctx)
    sanitize_cases(ctx)
    run_cases(ctx)


def replay(ctx, rec):
    print(json.dumps(rec, indent=1, default=str)[:6000])
    if rec.get('kind') == 'sanitize':
        from cell_type_mapper.utils.cloud_utils import sanitize_paths
        try:
            print('implementation now:', repr(sanitize_paths(copy.deepcopy(rec['value']))))
        except Exception as e:
            print('implementation now raises', exc_class(e), e)
        print('(the directory tree of the original run is gone; the recorded model input is under '
              '"existing" / "resolve")')
    if rec.get('kind') == 'run':
        import cell_type_mapper
        spec = rec['spec']
        top = ctx.scratch / 'replay'
        inp = make_run_inputs(top, spec['sseed'])
        obs = one_run(top, inp, spec)
        mapper = pathlib.Path(cell_type_mapper.__file__).resolve().absolute().parent.parent
        menc = enc_path(mapper)
        side = []
        fs, tbl = obs['facts_config']
        fs2, tbl2 = obs['facts_log'] if obs['facts_log'] is not None else ([], [])
        res = ctx.model([(2002, [fs, tbl, menc, 1, enc_value(obs['config'], side), []]),
                         (2002, [fs2, tbl2, menc, 1, enc_value({'extended_result_dir': None, 'tmp_dir': None}, []),
                                 [codes(x) for x in obs['raw_log'] or []]])])
        obs['side'] = side
        print('run now:', obs['error'] or 'succeeded', '; records:', sorted(obs['sinks']))

        class Collect:          # judge without writing replay files over the recorded ones
            disagreements_checked = 0
            found = []

            def violation(self, what, rep, no_input=False):
                known = [k['id'] for k in ctx.known if k['match'] == rep.get('class')]
                self.found.append((known[0] if known else None, rep.get('class'), what))
        col = Collect()
        n = judge_run(col, obs, res[0], res[1], menc)
        for known, c, what in col.found:
            print(f'known finding {known}:' if known else f'STILL FAILS [{c}]:', what[:600])
        print('leaks found now:', n)
        import shutil
        shutil.rmtree(ctx.scratch, ignore_errors=True)
        return 1 if any(k is None for k, _, _ in col.found) else 0
    return 0
