"""C20 — cloud-safe outputs reveal no absolute path of the host.

Tie (i): the REAL cloud_utils.sanitize_paths on generated strings / nested
structures over a generated real directory tree, compared with Model/Sanitize.v
(the harness supplies the file-system facts the words can reach) and with the
property's own statement (no absolute path of anything existing on the host is a
sub-string of the output).  Tie (ii): REAL run_mapping(cloud_safe=True) on a tiny
generated data set, successes and failures on invalid input, scanning `config`
and `log` of the JSON and HDF5 outputs and the log file.
"""
import contextlib
import copy
import json
import os
import pathlib
import re
import warnings

import numpy as np

from harness.core import exc_class

F10 = 'F10-sanitize-path-glued-to-leading-prefix'
F13 = 'F13-sanitize-raises-on-sibling-of-package-dir'
F14 = 'F14-sanitize-top-level-entry-with-glued-suffix'
F18 = 'F18-earlier-replacement-rewrites-later-word'

NAME_ALPHA = 'abcxyzQR019'
NAME_PUNCT = '._-,=:()[]+@#{}<>;!'
SPACES = [' ', ' ', ' ', '\t', '\n', '  ', '\r\n', '\x0b', '\x0c', '\x1c', '\x1f', '\x85', '\xa0', '\u2003', '\u2028',
          '\u3000']


def codes(s):
    return [ord(c) for c in s]


def uncodes(l):
    return ''.join(chr(c) for c in l)


# ------------------------------------------------------------------ a real directory tree
def gen_fs_name(rng, used):
    for _ in range(100):
        n = rng.randrange(1, 7)
        s = ''.join(rng.choice(NAME_ALPHA) if rng.random() < 0.75 else rng.choice(NAME_PUNCT) for _ in range(n))
        if s in ('.', '..') or s in used:
            continue
        used.add(s)
        return s
    s = f'n{len(used)}'
    used.add(s)
    return s


def make_tree(rng, root):
    """Create files, directories and symlinks under root; return the lists of what exists."""
    root.mkdir(parents=True)
    dirs, files = [root], []
    used = set()
    for _ in range(rng.randrange(3, 7)):
        parent = rng.choice(dirs)
        if len(parent.relative_to(root).parts) >= 3:
            continue
        d = parent / gen_fs_name(rng, used)
        d.mkdir()
        dirs.append(d)
    for _ in range(rng.randrange(4, 9)):
        parent = rng.choice(dirs)
        f = parent / (gen_fs_name(rng, used) + rng.choice(['', '.h5', '.h5ad', '.json', '.csv', '.txt']))
        if not f.exists():
            f.write_text('x')
            files.append(f)
    links = []
    for _ in range(rng.randrange(0, 3)):
        parent = rng.choice(dirs)
        target = rng.choice(files + dirs[1:]) if len(dirs) > 1 else rng.choice(files)
        ln = parent / gen_fs_name(rng, used)
        if not ln.exists():
            os.symlink(target, ln)
            links.append(ln)
    return dirs, files, links


@contextlib.contextmanager
def chdir(p):
    old = os.getcwd()
    os.chdir(p)
    try:
        yield
    finally:
        os.chdir(old)


# ------------------------------------------------------------------ strings as they occur in messages
TEMPLATES = [
    '{p}', '{p}', 'reading {p}', 'using {p} for precomputed_stats', 'File "{p}", line 12, in run',
    "'{p}'", '"{p}"', "'{p}',", '"{p}":', '{p},', '{p}.', '{p};', '{p}:', '{p}:12:', '{p})', '{p}]', '{p}>',
    '({p})', '[{p}]', '<{p}>', '{{{p}}}', 'path={p}', '--query_path={p}', 'query_path:{p}', 'file://{p}',
    "['{p}', '{q}']", '["{p}", "{q}"]', "{{'path': '{p}'}}", '{{"{p}": 1}}', "('{p}')", 'a={p},b={q}',
    '{p} {q}', '{p}\t{q}\nand {p}', '"{p}" and {p}', "'{p}'{q}", 'copied {p} to {q}', '{p}/', '{p}//', '{p}/.',
    '{p}/..', '{p}/nonexistent/y.h5', 'x{p}', '={p}', '{p}={q}', '{p}"extra', '({p}', '{p} (see {q})',
    'marker cache path ({p})', 'unable to write to {p}', 'OSError: [Errno 2] No such file: \'{p}\'',
    'h5py: unable to open file (name = \'{p}\', errno = 2)', '{p}{sp}{q}', '{sp}{p}{sp}', 'no path here',
    'ratio 3/4 and/or a / b', '/', '.', '..', '//', '""', "''", '{p}"', 'in {p}, line 3', 'cwd={p}/',
]


def gen_path_text(rng, world):
    """Text of a path: existing / below an existing one / nowhere / relative / package / odd."""
    dirs, files, links, root, mapper = world['dirs'], world['files'], world['links'], world['root'], world['mapper']
    r = rng.random()
    if r < 0.30:
        return str(rng.choice(files))
    if r < 0.42:
        return str(rng.choice(dirs))
    if r < 0.50 and links:
        return str(rng.choice(links))
    if r < 0.58:
        return str(rng.choice(dirs) / 'nonexistent' / 'z.h5')
    if r < 0.63:
        return '/nonexistent_root_dir/' + rng.choice(['a', 'a/b.h5', ''])
    if r < 0.72:
        # relative to the current directory (= root of the generated tree)
        c = rng.choice(files + dirs[1:]) if len(dirs) > 1 else rng.choice(files)
        rel = str(c.relative_to(root))
        return rng.choice(['', './', '../' + root.name + '/']) + rel
    if r < 0.80:
        return rng.choice(world['package_files'])
    if r < 0.84:
        return rng.choice([str(mapper), str(mapper) + '/', str(mapper / 'cell_type_mapper')])
    if r < 0.88:
        # starts with the package directory as a STRING but is not inside it
        return str(mapper) + rng.choice(['x/y.py', '_data/q.h5ad', ',', '.', '2', ').'])
    if r < 0.92:
        return rng.choice(world['site_files'])
    if r < 0.96:
        p = str(rng.choice(files))
        return rng.choice(['/', '//', '///']) + p.lstrip('/').replace('/', rng.choice(['//', '/./', '/']), 1)
    return rng.choice(['/', '//', '.', '..', '~', '/tmp', '/root', '//root', '/usr/lib', str(root.parent), '../..'])


def gen_string(rng, world):
    t = rng.choice(TEMPLATES)
    s = t.format(p=gen_path_text(rng, world), q=gen_path_text(rng, world), sp=rng.choice(SPACES))
    if rng.random() < 0.2:
        s = s + rng.choice(SPACES) + rng.choice(TEMPLATES).format(p=gen_path_text(rng, world), q=gen_path_text(rng, world),
                                                               sp=rng.choice(SPACES))
    return s


def gen_structure(rng, world, depth=0):
    r = rng.random()
    if depth >= 3 or r < 0.45:
        return gen_string(rng, world)
    if r < 0.55:
        return rng.choice([None, 3, 2.5, True, ('tuple', gen_string(rng, world))])
    if r < 0.78:
        return [gen_structure(rng, world, depth + 1) for _ in range(rng.randrange(0, 4))]
    return {rng.choice(['query_path', 'tmp_dir', 'k', gen_path_text(rng, world)]) + str(i):
            gen_structure(rng, world, depth + 1) for i in range(rng.randrange(0, 4))}


# ------------------------------------------------------------------ facts about the file system
def enc_path(p):
    parts = list(p.parts)
    if p.anchor == '/':
        root, parts = 1, parts[1:]
    elif p.anchor == '//':
        root, parts = 2, parts[1:]
    elif p.anchor == '':
        root = 0
    else:
        raise ValueError(p.anchor)
    return [root, [codes(x) for x in parts]]


def strings_of(v):
    if isinstance(v, str):
        yield v
    elif isinstance(v, list):
        for x in v:
            yield from strings_of(x)
    elif isinstance(v, dict):
        for x in v.values():
            yield from strings_of(x)


def fs_facts(value):
    """Existing (lexical) paths reachable from the words of every string in value, and what the
    word paths resolve to.  Raises OSError when the OS refuses a name (too long)."""
    existing, resolved = {}, {}
    for s in strings_of(value):
        for w in s.split():
            p = pathlib.Path(w.replace('"', '').replace("'", ''))
            chain = [p] + list(p.parents)
            for q in chain:
                k = json.dumps(enc_path(q))
                if k not in existing:
                    existing[k] = bool(q.is_file() or q.is_dir())
            k = json.dumps(enc_path(p))
            if k not in resolved:
                resolved[k] = enc_path(p.resolve().absolute())
    fs = [json.loads(k) for k, v in existing.items() if v]
    tbl = [[json.loads(k), v] for k, v in resolved.items()]
    return fs, tbl


def enc_value(v, side):
    if isinstance(v, str):
        return [0, codes(v)]
    if isinstance(v, list):
        return [1, [enc_value(x, side) for x in v]]
    if isinstance(v, dict):
        return [2, [[codes(k), enc_value(x, side)] for k, x in v.items()]]
    side.append(v)
    return [3, len(side) - 1]


def dec_value(x, side):
    if x[0] == 0:
        return uncodes(x[1])
    if x[0] == 1:
        return [dec_value(e, side) for e in x[1]]
    if x[0] == 2:
        return {uncodes(k): dec_value(e, side) for k, e in x[1]}
    return side[x[1]]


# ------------------------------------------------------------------ the property's own statement
def is_name_char(c):
    return (c.isascii() and (c.isalnum() or c in '_-.~/')) or ord(c) > 127


def find_leaks(s, limit=3):
    """Sub-strings of s that are absolute paths of something existing on this host.
    A '/' starts a candidate when it is at the start of the text or follows a character that
    cannot be part of a file name written before it (space, quote, bracket, '=', ':', ',' ...)."""
    out = []
    n = len(s)
    for i, c in enumerate(s):
        if c != '/' or (i > 0 and is_name_char(s[i - 1])):
            continue
        # the LONGEST prefix of the rest of the word that exists (the first one would always be the
        # top-level directory and make every leak look like finding F14)
        j = i + 1
        best = None
        while j < n and not s[j].isspace():
            j += 1
            sub = s[i:j]
            if os.path.normpath(sub) in ('/', '//'):
                continue
            try:
                if os.path.lexists(sub):
                    best = sub
            except (OSError, ValueError):
                break
        if best is not None:
            out.append((i, best))
        if len(out) >= limit:
            break
    return out


def leak_class(s, leak, original_words=None):
    """F10: the leaked path is glued, inside its blank-delimited word, to a leading prefix that does
    not consist of quote characters only (such a word is not recognised as a path).
    F14: the word starts with the path, but what exists is an entry directly under "/" followed by
    glued text ('/tmp,' '"/data",' '/scratch]'): the walk up the parents stops at "/"."""
    i, sub = leak
    k = i
    while k > 0 and not s[k - 1].isspace():
        k -= 1
    e = i
    while e < len(s) and not s[e].isspace():
        e += 1
    if original_words is not None and s[k:e] not in original_words:
        # F18: the word holding the leak is not a word of the input: an earlier word's
        # str.replace rewrote part of it, after which its own replacement found nothing
        return F18
    prefix = s[k:i].replace('"', '').replace("'", '')
    if prefix != '':
        return F10
    if os.path.normpath(sub).count('/') == 1:
        return F14
    return 'c20:absolute-path-at-the-start-of-a-word'


# ------------------------------------------------------------------ tie (i)
def sanitize_cases(ctx):
    import cell_type_mapper
    import h5py
    from cell_type_mapper.utils.cloud_utils import sanitize_paths
    rng = ctx.rng
    mapper = pathlib.Path(cell_type_mapper.__file__).resolve().absolute().parent.parent
    pkg = mapper / 'cell_type_mapper'
    package_files = [str(pkg / 'utils' / 'cloud_utils.py'), str(pkg / 'cli' / 'from_specified_markers.py'),
                     str(pkg / '__init__.py'), str(pkg / 'utils'), str(pkg / 'type_assignment' / 'matching.py')]
    site = pathlib.Path(h5py.__file__).resolve().parent
    site_files = [str(site / '__init__.py'), str(site), str(pathlib.Path(np.__file__).resolve()),
                  str(pathlib.Path(os.__file__).resolve())]
    n_trees = ctx.n(6, 60)
    per_tree = ctx.n(350, 850)
    recs = []
    for t in range(n_trees):
        root = ctx.scratch / f'fs{t}' / 'host'
        dirs, files, links = make_tree(rng, root)
        world = {'dirs': dirs, 'files': files, 'links': links, 'root': root, 'mapper': mapper,
                 'package_files': package_files, 'site_files': site_files}
        with chdir(root):
            for k in range(per_tree):
                value = gen_string(rng, world) if rng.random() < 0.8 else gen_structure(rng, world)
                try:
                    fs, tbl = fs_facts(value)
                except OSError:
                    ctx.dist('sanitize', 'os-refused-name')
                    continue
                try:
                    with warnings.catch_warnings():
                        warnings.simplefilter('ignore')
                        out = [0, sanitize_paths(copy.deepcopy(value))]
                except ValueError as e:
                    out = [1, 1, str(e)[:200]]
                except RecursionError as e:
                    out = [1, 2, 'RecursionError']
                except Exception as e:
                    out = [1, 99, f'{exc_class(e)}: {e}'[:200]]
                leaks = []
                if out[0] == 0:
                    for s in strings_of(out[1]):
                        lk = find_leaks(s)
                        if lk:
                            leaks.append((s, lk))
                recs.append({'value': value, 'fs': fs, 'tbl': tbl, 'out': out, 'leaks': leaks, 'tree': t,
                             'cwd': str(root)})
    menc = enc_path(mapper)
    cases, sides = [], []
    for r in recs:
        side = []
        cases.append((2001, [r['fs'], r['tbl'], menc, enc_value(r['value'], side)]))
        sides.append(side)
    res = ctx.model(cases)
    for k, (r, m, side) in enumerate(zip(recs, res, sides)):
        out = r['out']
        changed = out[0] == 0 and out[1] != r['value']
        ctx.count(('san', k), nontrivial=bool(changed or r['leaks'] or out[0] == 1))
        ctx.dist('sanitize', 'raised' if out[0] == 1 else 'leak' if r['leaks'] else 'rewritten' if changed else 'unchanged')
        rec = {'kind': 'sanitize', 'value': r['value'], 'cwd': r['cwd'], 'existing': r['fs'], 'resolve': r['tbl'],
               'observed': out, 'model': m}
        if changed and isinstance(r['value'], str):
            ctx.sample({'in': r['value'], 'out': out[1]}, limit=3)
        # (a) correspondence
        if out[0] == 0:
            ok = m[0] == 0 and dec_value(m[1], side) == out[1]
        else:
            ok = m[0] == 1 and m[1] == out[1]
        if not ok:
            ctx.disagreements_checked += 1
            rec['class'] = 'corr:Sanitize.sanitize'
            if m[0] == 0:
                rec['model_decoded'] = dec_value(m[1], side)
            ctx.violation('sanitize_paths and its model disagree', rec, no_input=True)
        # (b) the property on the observed output
        if out[0] == 1 and out[1] == 1:
            rec2 = dict(rec)
            rec2['class'] = F13
            ctx.violation('sanitize_paths raises ValueError: ' + out[2], rec2)
        elif out[0] == 1:
            rec2 = dict(rec)
            rec2['class'] = 'c20:sanitize-raises-' + str(out[2])[:30]
            ctx.violation('sanitize_paths raises: ' + str(out[2]), rec2)
        seen = set()
        for s, lk in r['leaks']:
            for leak in lk:
                cls = leak_class(s, leak, set(w for v in strings_of(r['value']) for w in v.split()))
                if cls in seen:
                    continue
                seen.add(cls)
                rec2 = dict(rec)
                rec2['class'] = cls
                rec2['leaked'] = leak[1]
                ctx.violation(f'sanitize_paths output {s!r} still contains the absolute path {leak[1]!r}', rec2)


def parse_cases(ctx):
    """_word_to_path and str.split() against the model, directly."""
    from cell_type_mapper.utils.cloud_utils import _word_to_path
    rng = ctx.rng
    words = ['', '/', '//', '///', '.', '..', './', '/.', 'a', 'a/', '/a', '//a', '///a', 'a//b', 'a/./b', 'a/../b',
             '"', "'", '"/a"', "'/a'/b", '/a"b"/c', './/', '/./', '//./a', '..//..', 'a/.', 'a/..', '...', '/...',
             '.a', 'a.', '/ /', '"."', "'..'"]
    alpha = ['a', 'b', '.', '.', '/', '/', '/', '"', "'", '-', '(', '=', 'é', ',']
    for _ in range(ctx.n(600, 6000)):
        words.append(''.join(rng.choice(alpha) for _ in range(rng.randrange(0, 9))))
    obs = []
    for w in words:
        p = _word_to_path(w)
        obs.append([enc_path(p), codes(str(p)), codes(p.name)])
    res = ctx.model([(2004, [codes(w) for w in words])])[0]
    assert res[0] == 0
    for w, o, m in zip(words, obs, res[1]):
        ctx.count(('parse', w), nontrivial='/' in w)
        if o != m:
            ctx.disagreements_checked += 1
            ctx.violation(f'_word_to_path({w!r}): pathlib gives {o}, the model {m}',
                          {'class': 'corr:Sanitize.word_to_path', 'kind': 'parse', 'word': w, 'observed': o, 'model': m},
                          no_input=True)
    # str.split(): every code point up to U+3100 on its own, then random strings
    strs = [''.join('a' + chr(c) for c in range(lo, lo + 256)) + 'a' for lo in range(0, 0x3100, 256)]
    for _ in range(ctx.n(200, 2000)):
        strs.append(''.join(rng.choice(['a', 'b', '/']) if rng.random() < 0.6 else rng.choice(SPACES)
                            for _ in range(rng.randrange(0, 12))))
    # lone surrogates cannot be encoded but are harmless here
    res = ctx.model([(2003, codes(s)) for s in strs])
    for s, m in zip(strs, res):
        ctx.count(('split', s[:40]), nontrivial=len(s) > 1)
        if m != [0, [codes(w) for w in s.split()]]:
            ctx.disagreements_checked += 1
            ctx.violation('str.split() and the model disagree',
                          {'class': 'corr:Sanitize.split', 'kind': 'split', 'string': s, 'model': m}, no_input=True)
    ctx.extra['split_exhaustive_code_points'] = 0x3100


def run(ctx):
    ctx.rule = ('sanitize_paths on strings built from message templates (paths bare, quoted, followed by , . ; : ) ] > '
                'or glued to ( [ < { key= file:// ; python list / dict / JSON renderings; several blanks kinds) over a '
                'generated real directory tree (names with . _ - , = : ( ) [ ] + @ # { } < > ; !, symlinks, the '
                'current directory inside the tree) with existing files / directories, paths below an existing '
                'directory, nowhere, relative, package sources, site-packages, odd roots (//, ///, .., ~); 20% nested '
                'lists / dicts with non-string leaves.  non-trivial = the string was rewritten, leaks, or the '
                'function raised')
    ctx.assumptions += [
        'file and directory names contain no white space (the property quantifies over space-free names), no quote '
        'characters and no NUL; no path component longer than 255 bytes (is_file() then raises OSError: '
        'ENAMETOOLONG is not among the errors pathlib ignores)',
        'an occurrence of an absolute path = a "/" at the start of the text or after a character that cannot belong '
        'to a file name ([A-Za-z0-9_.~/-] and non-ASCII letters can), extended to the right until what has been read '
        'names something that exists on the host; "/" and "//" themselves are not counted',
        'the file system does not change between the call and the scan',
        'dict keys are not sanitised by the code and are outside the scanned text',
    ]
    parse_cases(ctx)
    sanitize_cases(ctx)


def replay(ctx, rec):
    print(json.dumps(rec, indent=1, default=str)[:6000])
    if rec.get('kind') == 'sanitize':
        from cell_type_mapper.utils.cloud_utils import sanitize_paths
        try:
            print('implementation now:', repr(sanitize_paths(copy.deepcopy(rec['value']))))
        except Exception as e:
            print('implementation now raises', exc_class(e), e)
        print('(the directory tree of the original run is gone; the recorded model input is under '
              '"existing" / "resolve")')
    return 0
