"""C12, part "batch": _run_selection / select_marker_genes_v2 with genes_at_a_time = k > 1.

Tie (trace refinement, Model/SelectionK.v, tags 1250-1252).  The real functions are run with
k in {2, 3, 5, 17} (and 1, which links tag 1250 to the k = 1 model behind tag 1201) on marker tables of
the generator of c12.py (dense, sparse, pairs with no marker, fewer than n markers in one / both
directions, overrides).  A harness-side wrapper around selection._choose_gene (module attribute replaced
for the duration of the call; no source hook) records which genes each call appended: the calls with an
explicit chosen_idx are the desperate phase, every other call is one iteration of `while True`.  The
model replays desperate prefix + batches (tag 1250) and must arrive at the same outcome: `break` with
the same final statistics and utility array.  A batch has a VARIABLE length (1..k genes): _choose_gene
stops it as soon as sorted_utility_idx is empty or its last element has utility <= 0; the model accepts
a batch shorter than k only if no member of the list has a positive utility any more, and a pop only
of a member of maximal, positive utility.  Property on the observed list: the extracted spec_c12 (the
FULL statement, as for k = 1) and spec_c12_batch (tag 1252) and the independent census of c12.py; on
the observed trace: every batch of the loop has between 1 and k genes.

Before the repair of _choose_gene (findings F23, F24, F25, now "fixed" in known_findings.json) a batch
always popped k entries: genes marking no pair of the parent were selected, IndexError (pop from empty
list) and RuntimeError (chose gene twice) were raised.  The model proves that none of the three can
happen (Props/C12.v c12_batch_in_query_and_marker, c12_batch_never_raises, c12_batch_full_spec); an
occurrence is a violation with its input (classes c12-batch:gene-marks-no-pair-of-parent,
c12-batch:raises-pop-from-empty-list, c12-batch:raises-chose-gene-twice).  The tables on which the
old code went wrong are generated as before (distribution batch_stopped_early counts the runs in which the
early stop fired).

Stand-alone replay of a record written by this part:
    PYTHONPATH=/repo/src:<checkout> python -m harness.props.c12_batch <replay.json>"""
import contextlib
import json
import re
import warnings

from harness.core import exc_class

KS = [2, 3, 5, 17]
CLS_USELESS = 'c12-batch:gene-marks-no-pair-of-parent'
CLS_EMPTY = 'c12-batch:raises-pop-from-empty-list'
CLS_TWICE = 'c12-batch:raises-chose-gene-twice'
USELESS, EMPTY, TWICE = (c.split(':', 1)[1] for c in (CLS_USELESS, CLS_EMPTY, CLS_TWICE))   # report() prefixes 'c12-batch:'


# ------------------------------------------------------------------ the wrapper that records the batches
class Recorder:
    """Replaces selection._choose_gene by a function that calls the original and notes how long
    marker_gene_name_list was before and after (None after = the call raised)."""

    def __init__(self):
        self.calls = []
        self.names = None

    def wrap(self, orig):
        def choose_gene(*args, **kw):
            lst = kw['marker_gene_name_list']
            self.names = lst
            rec = [kw.get('chosen_idx') is None, len(lst), None]
            self.calls.append(rec)
            out = orig(*args, **kw)
            rec[2] = len(lst)
            return out
        return choose_gene

    def split(self):
        names = [str(g) for g in (self.names or [])]
        loop = [c for c in self.calls if c[0]]
        first = loop[0][1] if loop else len(names)
        prefix = names[:first]
        batches = [names[c[1]:(c[2] if c[2] is not None else len(names))] for c in loop]
        return prefix, batches


@contextlib.contextmanager
def recording():
    import cell_type_mapper.marker_selection.selection as sel
    rec = Recorder()
    orig = sel._choose_gene
    sel._choose_gene = rec.wrap(orig)
    try:
        yield rec
    finally:
        sel._choose_gene = orig


def classify_exception(e):
    msg = f'{exc_class(e)}: {e}'[:300]
    if isinstance(e, IndexError) and 'pop from empty list' in str(e):
        return ['empty'], msg
    m = re.search(r'chose gene (\d+) twice', str(e))
    if isinstance(e, RuntimeError) and m:
        return ['twice', int(m.group(1))], msg
    return ['other'], msg


# ------------------------------------------------------------------ one case against the real code
def run_case(world, tree, ref, parent, behemoth, k):
    from cell_type_mapper.marker_selection.marker_array import MarkerGeneArray
    from cell_type_mapper.marker_selection.selection import (select_marker_genes_v2, _get_taxonomy_idx,
                                                              _run_selection)
    from cell_type_mapper.marker_selection.utils import create_utility_array
    obs = {'k': k}
    n_per = world['n_per_utility']
    if world['override'] and parent in world['override']:
        n_per = world['override'][parent]
    obs['n_per'] = n_per

    def fresh():
        arr = MarkerGeneArray.from_cache_path(cache_path=ref, query_gene_names=list(world['query']))
        if not behemoth:
            arr = arr.downsample_pairs_to_other(only_keep_pairs=tree.leaves_to_compare(parent))
        return arr
    with warnings.catch_warnings():
        warnings.simplefilter('ignore')
        try:
            arr = fresh()
            idx = _get_taxonomy_idx(taxonomy_tree=tree, parent_node=parent, marker_gene_array=arr)
            obs['thin_genes'] = [str(g) for g in arr.gene_names]
            obs['thin_pairs'] = [[sorted(int(v) for v in arr.down_by_pair.get_genes_for_pair(i)),
                                  sorted(int(v) for v in arr.up_by_pair.get_genes_for_pair(i))] for i in idx]
            ua, mc = create_utility_array(marker_gene_array=arr, gb_size=10, taxonomy_mask=idx)
        except Exception as e:
            obs['setup_failed'] = f'{exc_class(e)}: {e}'[:300]
            return obs
        # the inner function, batches recorded
        with recording() as rec:
            try:
                res, stats = _run_selection(marker_gene_array=arr, utility_array=ua, marker_census=mc,
                                            taxonomy_idx_array=idx, n_per_utility=n_per, parent_node=parent,
                                            genes_at_a_time=k)
                obs['outcome'] = ['done']
                obs['selected'] = [str(g) for g in res]
                obs['stats'] = {kk: v for kk, v in stats.items() if kk != 'duration'}
                obs['utility_final'] = [int(u) for u in ua]
            except Exception as e:
                obs['outcome'], obs['msg'] = classify_exception(e)
        obs['prefix'], obs['batches'] = rec.split()
        # the public function on a fresh array
        with recording() as rec2:
            try:
                res2 = select_marker_genes_v2(marker_gene_array=fresh(), query_gene_names=list(world['query']),
                                              taxonomy_tree=tree, parent_node=parent, n_per_utility=n_per,
                                              genes_at_a_time=k)
                obs['public'] = [['done'], [str(g) for g in res2]]
            except Exception as e:
                obs['public'] = [classify_exception(e)[0], None]
        obs['public_batches'] = list(rec2.split())
    return obs


# ------------------------------------------------------------------ comparison
def check_case(base, world, parent, obs, thin, rep, spec, greedy, canaries):
    """-> (corr, prop, known, label); `known` stays empty: nothing of this part is a known finding any more"""
    corr, prop, known = [], [], []
    if 'setup_failed' in obs:
        overlap = set(world['genes']) & set(world['query'])
        if not overlap and 'No gene overlap' in obs['setup_failed']:
            return corr, prop, known, 'no-overlap-refused'
        prop.append(('implementation-raised', obs['setup_failed']))
        return corr, prop, known, 'raised'
    if obs['outcome'][0] == 'other':
        prop.append(('implementation-raised', obs['msg']))
        return corr, prop, known, 'raised'
    if thin[0] != 0:
        corr.append(('Selection.parent_idx', f'model thinning failed: {thin}'))
        return corr, prop, known, 'thin-failed'
    mp = [[sorted(thin[1][1][i][0]), sorted(thin[1][1][i][1])] for i in thin[1][2]]
    if mp != obs['thin_pairs']:
        corr.append(('Selection.parent_idx', f'by-pair tables: impl {obs["thin_pairs"]} model {mp}'))
    # the public function does the same thing
    pub_out, pub_sel = obs['public']
    if pub_out != obs['outcome'] or (pub_sel is not None and pub_sel != obs.get('selected')) \
            or obs['public_batches'] != [obs['prefix'], obs['batches']]:
        prop.append(('inner-and-wrapper-differ', f'_run_selection: {obs["outcome"]} {obs["prefix"]} {obs["batches"]}; '
                                                 f'select_marker_genes_v2: {obs["public"]} {obs["public_batches"]}'))
    if obs['outcome'][0] == 'done':
        flat = obs['prefix'] + [g for b in obs['batches'] for g in b]
        if flat != obs['selected']:
            corr.append(('SelectionK.recorder', f'recorded {flat} but returned {obs["selected"]}'))
    # trace refinement
    res, n_desp, n_pool = rep
    label = 'done'
    if obs['outcome'][0] == 'done':
        if res[0] != 0:
            corr.append(('SelectionK.replayk', f'k={obs["k"]}: the observed batches {obs["prefix"]} + {obs["batches"]} are not a '
                                               f'completed run of the model: {res}'))
        else:
            chosen, counts, aggr, filled, util = res[1]
            st = obs['stats']
            n_filled = sum(int(a) + int(b) for a, b in filled)
            exp = {'n_genes': len(chosen), 'filled': n_filled, 'unfilled': 2 * len(counts) - n_filled,
                   'n_desperate': n_desp, 'min_n_genes': min(aggr) if aggr else None,
                   'max_n_genes': max(aggr) if aggr else None, 'n_zero': sum(1 for a in aggr if a == 0),
                   'genes_at_a_time': obs['k']}
            got = {kk: st.get(kk) for kk in exp}
            if exp != got:
                corr.append(('SelectionK.state', f'final statistics: impl {got} model {exp}'))
            n_per = obs['n_per']
            ths = sorted(set([1] + list(range(5, n_per, 5)) + [n_per]))
            md = {f'lt_{t}': {'up': sum(1 for c in counts if c[1] < t), 'down': sum(1 for c in counts if c[0] < t)}
                  for t in ths}
            if md != st.get('marker_distribution'):
                corr.append(('SelectionK.state', f'marker_distribution: impl {st.get("marker_distribution")} model {md}'))
            if list(util) != obs['utility_final']:
                corr.append(('SelectionK.state', f'final utility_array: impl {obs["utility_final"]} model {list(util)}'))
        # every batch of the loop has between 1 and k genes (c12_batch_trace_legal)
        bad = [b for b in obs['batches'] if not 1 <= len(b) <= obs['k']]
        if bad:
            prop.append(('batch-length', f'k={obs["k"]}: a pass of the loop chose {len(bad[0])} genes: {bad[0]}'))
    elif obs['outcome'][0] == 'empty':
        label = 'IndexError'         # the model has no such outcome (c12_batch_never_raises): reported below, with the input
    else:
        label = 'RuntimeError-twice'
    if greedy[0] != 0:
        # c12_batch_never_raises / c12_batch_terminates: the fuelled loop of the model ends in `break` on every table
        corr.append(('SelectionK.greedyk', f'the fuelled loop of the model did not end in break: {greedy}'))
    for c in canaries:
        if c[0][0] == 0:
            corr.append(('SelectionK.replayk-canary', 'the model accepts mutilated batches (one gene dropped / last batch repeated / '
                                                      f'last batch extended by an unselected gene) of {obs["prefix"]} + {obs["batches"]}'))
    # property
    if obs['outcome'][0] == 'done':
        if spec[0] != 0 or not spec[1][2]:
            corr.append(('Selection.both_ways_free', 'a generated table lists a gene as up- and down-marker of one pair'))
        else:
            if not spec[1][0]:
                prop.append(('spec_c12_batch', f'k={obs["k"]}: extracted spec_c12_batch is false on {obs["selected"]}'))
            elif not spec[1][1]:
                # spec_c12 = spec_c12_batch + "every gene marks a slot of the parent" (c12_batch_full_spec)
                prop.append((USELESS, f'k={obs["k"]}: extracted spec_c12 is false on {obs["selected"]}: it contains a gene that '
                                      'marks no pair of the parent'))
        useless = False
        others = []
        for cls, msg in base.census(world, parent, obs['selected'], obs['n_per']):
            if cls == USELESS:
                useless = True
                if not any(c == USELESS for c, _ in prop):
                    prop.append((USELESS, f'k={obs["k"]}: {msg}'))
                continue
            others.append((cls, f'k={obs["k"]}: {msg}'))
        prop += others
        if useless != bool(spec[0] == 0 and spec[1][0] and not spec[1][1]) and not others:
            corr.append(('SelectionK.spec_c12_batch', f'independent census and extracted predicates differ on {obs["selected"]}'))
        if useless:
            label = 'done-with-useless-gene'
    elif obs['outcome'][0] == 'empty':
        prop.append((EMPTY, f'k={obs["k"]}: {obs["msg"]} after {obs["prefix"]} + {obs["batches"]}; model replay: {res}'))
    else:
        prop.append((TWICE, f'k={obs["k"]}: {obs["msg"]} after {obs["prefix"]} + {obs["batches"]}; model replay: {res}'))
    # the three classes of F23/F24/F25 come first: they name the failure (known_findings.json matches on them)
    prop.sort(key=lambda cm: cm[0] not in (USELESS, EMPTY, TWICE))
    if obs['k'] == 1:
        # with k = 1 none of the three could occur before the repair either (c12_batch_one_*): a class of its own
        prop = [(('k1-' + c) if c in (USELESS, EMPTY, TWICE) else c, m) for c, m in prop]
    return corr, prop, known, label


def report(ctx, desc, corr, prop, known):
    if not (corr or prop or known):
        return
    ctx.disagreements_checked += 1
    desc = dict(desc)
    desc['how_to_replay'] = 'PYTHONPATH=/repo/src:<checkout> python -m harness.props.c12_batch <this file>'
    for cls, msg in known[:1]:
        d = dict(desc)
        d['class'] = cls
        ctx.violation(f'C12 (genes_at_a_time > 1) fails on a generated case: {msg}'[:700], d)
    if prop:
        d = dict(desc)
        d['class'] = 'c12-batch:' + prop[0][0]
        d['all_property_failures'] = prop[:10]
        d['correspondence_failures'] = corr[:10]
        ctx.violation(f'C12 (genes_at_a_time > 1) fails on a generated case: {prop[0][0]}: {prop[0][1]}'[:700], d)
    if corr:
        d = dict(desc)
        d['class'] = 'corr:' + corr[0][0]
        d['correspondence_failures'] = corr[:10]
        ctx.violation(f'model and implementation disagree ({corr[0][0]}): {corr[0][1]}'[:700], d, no_input=True)


def jsonable_world(world):
    w = dict(world)
    if w.get('override') is not None:
        w['override'] = [[('None' if k is None else list(k)), v] for k, v in w['override'].items()]
    return w


def batch_level(ctx, base, worlds, pick, say=None):
    """worlds: list of (world, tree, ref); pick(world, tree) -> list of (parent, behemoth, k)."""
    recs = []
    for world, tree, ref in worlds:
        rn = base.Renaming(world)
        for parent, behemoth, k, obs in pick(world, tree, ref):
            if obs is None:
                obs = run_case(world, tree, ref, parent, behemoth, k)
            recs.append((world, rn, parent, behemoth, obs))
    thin = ctx.model([(1203, [rn.refmarkers(w), [rn.gene[g] for g in w['query']], rn.tree_sx(w['tree']),
                              rn.parent(p), b]) for w, rn, p, b, o in recs])
    second = []
    for (w, rn, p, b, o), th in zip(recs, thin):
        if 'outcome' in o and o['outcome'][0] != 'other' and th[0] == 0:
            ng = len(th[1][0])
            pd, idx = th[1][1], th[1][2]
            name_idx = {g: i for i, g in enumerate(o['thin_genes'])}
            pre = [name_idx.get(g, 10 ** 6) for g in o['prefix']]
            bs = [[name_idx.get(g, 10 ** 6) for g in bb] for bb in o['batches']]
            sel = pre + [g for bb in bs for g in bb]
            dropped = [list(bb) for bb in bs]
            if dropped:
                dropped[-1] = dropped[-1][:-1]
            # what _choose_gene did before its repair: go on popping although nothing useful is left (or: one gene
            # more than k) - the last batch extended by a gene that was not selected
            rest = [i for i in range(ng) if i not in set(sel)]
            extended = (bs[:-1] + [bs[-1] + rest[:1]]) if bs else [rest[:1]]
            if not rest:
                extended = bs + ([bs[-1]] if bs else [[0]])
            second += [(1250, [ng, pd, idx, o['n_per'], o['k'], pre, bs]),
                       (1252, [ng, pd, idx, o['n_per'], sel]),
                       (1251, [ng, pd, idx, o['n_per'], o['k']]),
                       (1250, [ng, pd, idx, o['n_per'], o['k'], pre, dropped if bs else [[0]]]),
                       (1250, [ng, pd, idx, o['n_per'], o['k'], pre, bs + ([bs[-1]] if bs else [[0]])]),
                       (1250, [ng, pd, idx, o['n_per'], o['k'], pre, extended])]
    r2 = ctx.model(second)
    j = 0
    for (w, rn, p, b, o), th in zip(recs, thin):
        rep = spec = greedy = None
        canaries = []
        if 'outcome' in o and o['outcome'][0] != 'other' and th[0] == 0:
            rep, spec, greedy = r2[j], r2[j + 1], r2[j + 2]
            if o['outcome'][0] == 'done':
                canaries = [r2[j + 3], r2[j + 4], r2[j + 5]]
            j += 6
        corr, prop, known, label = check_case(base, w, p, o, th, rep, spec, greedy, canaries)
        for c in canaries:
            ctx.dist('batch_canary_mutant_rejected', c[0][0] != 0)
        n_pairs = len(o.get('thin_pairs', []))
        nb = len(o.get('batches', []))
        nontriv = label != 'raised' and 'outcome' in o and n_pairs >= 2 and nb >= 2 and o['k'] >= 2
        ctx.count(json.dumps(['batch', w['table'], w['query'], str(p), b, o.get('n_per'), o['k']]), nontrivial=bool(nontriv))
        ctx.dist('batch_nontrivial', bool(nontriv))
        ctx.dist('batch_genes_at_a_time', o['k'])
        ctx.dist('batch_outcome', f'k={o["k"]}:{label}')
        ctx.dist('batch_outcome_all_k', label)
        ctx.dist('batch_table_density', w['density'] + ('/big' if w.get('big') else ''))
        ctx.dist('batch_n_per_utility', o.get('n_per'))
        ctx.dist('batch_pairs_of_parent', min(n_pairs, 10))
        ctx.dist('batch_iterations_of_the_loop', min(nb, 8))
        ctx.dist('batch_desperate_genes', min(len(o.get('prefix', [])), 5))
        if o['k'] >= 2 and o.get('outcome') == ['done']:
            # a batch shorter than k = the early stop of _choose_gene fired: exactly the runs in which the unrepaired
            # code went on popping entries of utility <= 0 (a gene marking filled slots only, a gene marking no pair of
            # the parent: F23) or raised (F24, F25)
            ctx.dist('batch_stopped_early', any(len(bb) < o['k'] for bb in o['batches']))
            ctx.dist('batch_length_of_last_batch_vs_k', 'no-batch' if not o['batches'] else
                     ('short' if len(o['batches'][-1]) < o['k'] else 'full'))
        if 'thin_pairs' in o:
            ctx.dist('batch_has_pair_short_of_target', any(len(a) < o['n_per'] or len(bb) < o['n_per'] for a, bb in o['thin_pairs']))
            ctx.dist('batch_has_pair_without_marker', any(not a and not bb for a, bb in o['thin_pairs']))
            ctx.dist('batch_k_exceeds_thinned_genes', o['k'] > len(o['thin_genes']))
        if 'outcome' in o and not corr:
            ctx.traces_validated += 1
        if nontriv and label == 'done':
            ctx.sample({'part': 'batch', 'genes_at_a_time': o['k'], 'parent': str(p), 'behemoth_order': b,
                        'n_per_utility': o['n_per'], 'by_pair_tables': o['thin_pairs'], 'desperate': o['prefix'],
                        'batches': o['batches']}, limit=6)
        if say is not None:
            say({'parent': str(p), 'global_pair_order': b, 'k': o['k'], 'n_per_utility': o.get('n_per'),
                 'implementation': {kk: o.get(kk) for kk in ('outcome', 'msg', 'prefix', 'batches', 'setup_failed')},
                 'model_replay': rep[0] if rep else None, 'spec_c12_batch,spec_c12,both_ways_free': spec[1] if spec and spec[0] == 0 else None,
                 'correspondence': corr, 'property': prop, 'known': known})
        report(ctx, {'kind': 'batch', 'batch_world': jsonable_world(w), 'parent': list(p) if p is not None else None,
                     'behemoth': b, 'k': o['k'], 'observed': o, 'model': {'thin': th, 'replay': rep, 'spec': spec}},
               corr, prop, known)


def malformed_stream(ctx, base, worlds):
    """Inputs the functions must refuse, whatever genes_at_a_time: a query without any reference gene;
    a genes_at_a_time that is not an integer."""
    from cell_type_mapper.marker_selection.marker_array import MarkerGeneArray
    from cell_type_mapper.marker_selection.selection import select_marker_genes_v2
    rng = ctx.rng
    for world, tree, ref in worlds:
        parents = [p for p in tree.all_parents if tree.leaves_to_compare(p)]
        if not parents:
            continue
        parent = rng.choice(parents)
        kind = rng.choice(['no-overlap', 'float-k'])
        k = rng.choice(KS)
        query = list(world['query'])
        if kind == 'no-overlap':
            query = base.fresh_names(rng, rng.randrange(1, 4), 'zz')
            kk = k
        else:
            kk = float(k) + rng.choice([0.0, 0.5])
        outcome = 'returned'
        try:
            with warnings.catch_warnings():
                warnings.simplefilter('ignore')
                arr = MarkerGeneArray.from_cache_path(cache_path=ref, query_gene_names=query)
                res = select_marker_genes_v2(marker_gene_array=arr, query_gene_names=query, taxonomy_tree=tree,
                                             parent_node=parent, n_per_utility=world['n_per_utility'],
                                             genes_at_a_time=kk)
        except Exception as e:
            outcome = f'refused:{exc_class(e)}'
            res = None
        ctx.count()
        ctx.dist('batch_malformed', f'{kind}:{outcome}')
        # a returned list is acceptable only if nothing had to be chosen by the loop (float k never reached)
        if outcome == 'returned' and kind == 'no-overlap':
            ctx.violation(f'select_marker_genes_v2 returned {res} for a query without any reference gene',
                          {'class': 'c12-batch:no-overlap-accepted', 'kind': 'batch-malformed',
                           'batch_world': jsonable_world(world), 'query': query, 'parent': list(parent) if parent else None})


# ------------------------------------------------------------------ genes_at_a_time = 0: OBSERVED, not a violation
K0_WAIT_S = 2.0


def _k0_child(world, tree, ref, parent, n_per, conn):
    """Runs in a forked child: _run_selection(genes_at_a_time=0) on the behemoth array of one parent."""
    from cell_type_mapper.marker_selection.marker_array import MarkerGeneArray
    from cell_type_mapper.marker_selection.selection import _get_taxonomy_idx, _run_selection
    from cell_type_mapper.marker_selection.utils import create_utility_array
    try:
        with warnings.catch_warnings():
            warnings.simplefilter('ignore')
            arr = MarkerGeneArray.from_cache_path(cache_path=ref, query_gene_names=list(world['query']))
            idx = _get_taxonomy_idx(taxonomy_tree=tree, parent_node=parent, marker_gene_array=arr)
            ua, mc = create_utility_array(marker_gene_array=arr, gb_size=10, taxonomy_mask=idx)
            conn.send('entered')
            res, _ = _run_selection(marker_gene_array=arr, utility_array=ua, marker_census=mc, taxonomy_idx_array=idx,
                                    n_per_utility=n_per, parent_node=parent, genes_at_a_time=0)
        conn.send(['returned', [str(g) for g in res]])
    except BaseException as e:           # noqa: the child reports whatever happened
        conn.send(['raised', f'{exc_class(e)}: {e}'[:200]])


def k0_observed(ctx, base, worlds):
    """genes_at_a_time = 0 is accepted by the schema (schemas/query_marker_finder.py: a plain Int, default 1) and is
    OUTSIDE the quantifier of C12 (the theorems say 1 <= k; the model gives WKOutOfFuel: Props/C12.v ex_excluded_k0).
    What the real _run_selection does with it is observed once per run, on the first generated table and parent whose
    k = 1 run enters the loop (at least one gene popped by `while True`): a forked child calls _run_selection with
    genes_at_a_time = 0 and is killed if it has not come back after K0_WAIT_S seconds.  The outcome is published in
    the distribution batch_k0_observed; it is never a violation.  Uses no random number."""
    import multiprocessing
    for world, tree, ref in worlds[:20]:
        for parent in [p for p in tree.all_parents if tree.leaves_to_compare(p)]:
            o1 = run_case(world, tree, ref, parent, True, 1)
            if o1.get('outcome') != ['done'] or sum(len(b) for b in o1.get('batches', [])) < 1:
                continue
            rn = base.Renaming(world)
            th = ctx.model([(1203, [rn.refmarkers(world), [rn.gene[g] for g in world['query']], rn.tree_sx(world['tree']),
                                    rn.parent(parent), True])])[0]
            model = 'model-not-run'
            if th[0] == 0:
                g0, g1 = ctx.model([(1251, [len(th[1][0]), th[1][1], th[1][2], o1['n_per'], 0]),
                                    (1251, [len(th[1][0]), th[1][1], th[1][2], o1['n_per'], 1])])
                model = ('model:out-of-fuel' if g0[0] != 0 else 'model:break') + \
                        ('/k=1:break' if g1[0] == 0 else '/k=1:no-break')
            mp = multiprocessing.get_context('fork')
            rd, wr = mp.Pipe(duplex=False)
            child = mp.Process(target=_k0_child, args=(world, tree, ref, parent, o1['n_per'], wr))
            with base.quiet_stdout():
                child.start()
            wr.close()
            child.join(K0_WAIT_S)
            spinning = child.is_alive()
            if spinning:
                child.kill()
                child.join()
            msgs = []
            try:
                while rd.poll(0):
                    msgs.append(rd.recv())
            except EOFError:
                pass
            rd.close()
            if spinning and 'entered' in msgs:
                real = f'real:still-in-_run_selection-after-{K0_WAIT_S}s(killed)'
            elif msgs and isinstance(msgs[-1], list):
                real = f'real:{msgs[-1][0]}'
            else:
                real = 'real:no-report'
            ctx.dist('batch_k0_observed', f'{real}; {model}; k=1 on the same input: break after '
                                          f'{len(o1["batches"])} passes of the loop')
            ctx.extra['batch_k0_observed_input'] = {'parent': str(parent), 'n_per_utility': o1['n_per'],
                                                    'by_pair_tables': o1.get('thin_pairs'), 'k1_batches': o1['batches']}
            return
    ctx.dist('batch_k0_observed', 'no table of the first 20 enters the loop')



def picker(rng, per_world):
    """Per table `per_world` draws of (parent with pairs, pair order).  Each is first run with k = 1 (a case of its
    own); if the loop then chooses at least two genes, two values of k from KS follow on the same parent and
    order, otherwise one value with probability 0.3 (most of those runs never enter the loop)."""
    def pick(world, tree, ref):
        parents = [p for p in tree.all_parents if tree.leaves_to_compare(p)]
        out = []
        if not parents:
            return out
        for _ in range(per_world):
            p = rng.choice(parents)
            b = rng.random() < 0.5
            o1 = run_case(world, tree, ref, p, b, 1)
            out.append((p, b, 1, o1))
            loop_genes = sum(len(x) for x in o1.get('batches', []))
            ks = rng.sample(KS, 2)
            if loop_genes < 2:
                ks = ks[:1] if rng.random() < 0.3 else []
            out += [(p, b, k, None) for k in ks]
        return out
    return pick


def run_part(ctx):
    """Called once from harness/props/c12.py:run (after its own parts, so their random stream is unchanged)."""
    from harness.props import c12 as base
    ctx.rule += ('; part batch (genes_at_a_time in {1,2,3,5,17}): same generator; per table 2 draws of (parent with pairs, pair '
                 'order), each run with k = 1 and - if the loop chooses >= 2 genes - with two values of k; non-trivial = k >= 2, >= 2 pairs, >= 2 iterations of the loop, no unexpected exception')
    ctx.assumptions += [
        'part batch: genes_at_a_time is an integer >= 1; its values are {1, 2, 3, 5, 17}.  genes_at_a_time = 0 is accepted by '
        'the schema (argschema Int, default 1, no validator) and makes the real `while True` of _run_selection spin for ever '
        'without choosing a gene (model: WKOutOfFuel; theorems: 1 <= k).  It is outside the quantifier of C12 and is not '
        'generated; it is OBSERVED once per run in a forked child that is killed after 2 s (distribution batch_k0_observed, '
        'extra batch_k0_observed_input) and is never a violation',
        'part batch: the predicate evaluated on the observed lists is the full spec_c12 for every genes_at_a_time (no '
        'duplicates, in the query, marker of a pair of the parent, coverage); F23/F24/F25 are repaired (kind "fixed"): a useless '
        'gene, IndexError or RuntimeError("chose gene twice") is a violation with its input; no table is excluded',
    ]
    import time
    t0 = time.time()
    n = ctx.n(50, 800)
    done = 0
    while done < n:
        m = min(100, n - done)
        worlds, d = make_worlds(ctx, base, m, f'bt_{done}')
        batch_level(ctx, base, worlds, picker(ctx.rng, 2))
        malformed_stream(ctx, base, worlds[:max(1, m // 6)])
        if done == 0:
            k0_observed(ctx, base, worlds)       # after the generated cases of the chunk; draws no random number
        base.cleanup(d)
        done += m
    ctx.extra['batch_part_wall_s'] = round(time.time() - t0, 1)


def make_worlds(ctx, base, n, sub):
    """Tables of c12.gen_world; a small table (<= 16 genes) is redrawn once with probability 1/2, so that about
    half of the tables have 17..40 genes (batches of 5 and 17 genes then have something to pop)."""
    d = ctx.scratch / sub
    d.mkdir(exist_ok=True)
    out = []
    for i in range(n):
        w = base.gen_world(ctx.rng)
        if not w['big'] and ctx.rng.random() < 0.5:
            w = base.gen_world(ctx.rng)
        tree, ref, stats = base.write_files(w, d, i)
        out.append((w, tree, ref))
    return out, d


# ------------------------------------------------------------------ stand-alone replay of a record of this part
def replay_file(path):
    import pathlib
    import shutil
    import sys
    from harness import core
    from harness.props import c12 as base
    rec = json.load(open(path))
    world = rec['batch_world']
    shown = json.dumps(world, default=str)[:3000]
    if world.get('override') is not None:
        world['override'] = {(None if k == 'None' else tuple(k)): v for k, v in world['override']}
    ctx = core.Check('C12', 'quick', 0)
    try:
        d = ctx.scratch / 'replay'
        d.mkdir(exist_ok=True)
        tree, ref, stats = base.write_files(world, d, 0)
        parent = tuple(rec['parent']) if rec.get('parent') is not None else None
        print('INPUT', shown, 'parent', parent, 'global pair order', rec.get('behemoth'), 'genes_at_a_time', rec.get('k'))
        batch_level(ctx, base, [(world, tree, ref)], lambda w, t, r: [(parent, rec.get('behemoth', False), rec.get('k', 2), None)],
                    say=lambda o: print('OBSERVED', json.dumps(o, default=str)[:1500]))
        for what, p, no_input in ctx.violations:
            print('RESULT', what)
        for kid, cnt in ctx.known_hits.items():
            print('RESULT known finding', kid)
        if not ctx.violations and not ctx.known_hits:
            print('RESULT implementation, model and property agree on this input')
        return 1 if ctx.violations else 0
    finally:
        shutil.rmtree(ctx.scratch, ignore_errors=True)
        for what, p, no_input in ctx.violations:
            if p is not None:
                pathlib.Path(p).unlink(missing_ok=True)


if __name__ == '__main__':
    import sys
    sys.exit(replay_file(sys.argv[1]))
