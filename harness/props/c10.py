"""C10 — the taxonomy stays a strict tree under construction and transformation.

Tie between coq/Model/Tree.v and taxonomy/utils.py + taxonomy/taxonomy_tree.py:
exhaustive tree shapes (<=4 levels, <=6 leaves; <=5 leaves in the quick tier) with
varied names / dict insertion orders / child-list orders / 0-2 rows per leaf, random
larger trees, every public operation of TaxonomyTree compared with the model, a
malformed stream of one-edit mutants, get_taxonomy_tree / from_h5ad on generated
label columns, and the property's own clauses evaluated on the observed outputs."""
import copy
import itertools
import json
import warnings

import numpy as np
from harness.props.c10_reread import reread_part

from harness.core import exc_class

# finding F3 (a child listed twice under one parent was accepted), repaired in the package: the entry
# of known_findings.json is kind=fixed and suppresses nothing, so an implementation that accepts such a
# tree again is reported under this class
F3 = 'F3-validator-accepts-duplicate-child'

LEVEL_NAMES = ['class', 'subclass', 'supertype', 'cluster', 'a_level', 'Z_level']
EXTRA_NAMES = ['!new_lo', 'm_new_mid', '~new_hi']     # names introduced by mutants (lowest / middle / highest)
NO_LEVEL = 'no_such_level'


# ------------------------------------------------------------------ generation
def compositions(n, k):
    """all k-tuples of positive integers with sum n"""
    if k == 1:
        yield (n,)
        return
    for first in range(1, n - k + 2):
        for rest in compositions(n - first, k - 1):
            yield (first,) + rest


def shapes(max_levels, max_leaves):
    """every ordered forest of uniform depth d <= max_levels with <= max_leaves leaves:
    (n_top, [child counts of the nodes of level 0, of level 1, ...])"""
    def rec(depth_left, n_here, comps):
        if depth_left == 0:
            yield list(comps)
            return
        for n_next in range(n_here, max_leaves + 1):
            for c in compositions(n_next, n_here):
                yield from rec(depth_left - 1, n_next, comps + [c])
    for d in range(1, max_levels + 1):
        for n0 in range(1, max_leaves + 1):
            for comps in rec(d - 1, n0, []):
                yield (n0, comps)


NAME_STYLES = ['padded', 'padded_shared', 'unpadded', 'mixed_case', 'slashed']


def node_names(style, level_idx, n, rng):
    """n distinct node names for one level; python string order is whatever it is --
    the renaming to integers is by rank, hence order preserving for every style."""
    if style == 'padded':
        return [f'{"abcdef"[level_idx]}{i:03d}' for i in range(n)]
    if style == 'padded_shared':          # the same names at every level
        return [f'n{i:03d}' for i in range(n)]
    if style == 'unpadded':               # '10' < '9' as strings
        return [str(i + 5) for i in range(n)]
    if style == 'slashed':                # 'A' + '/' + 'B/C' = 'A/B' + '/' + 'C': joined names are ambiguous
        letters = 'ABCD'
        pool = [a for a in letters] + [f'{a}/{b}' for a in letters for b in letters] + \
               [f'{a}/{b}/{c}' for a in letters for b in letters for c in letters]
        return rng.sample(pool[:max(n + 8, 20)], n) if n <= 70 else [f's{i}' for i in range(n)]
    pool = ['B', 'a', 'A1', 'b', 'Ab', 'aB', '_x', 'Z', 'z9', 'z10', 'C c', 'c/d', "q'", 'é', '0', '00']
    pool = pool + [f'X{i}' for i in range(64)]
    return rng.sample(pool[:max(n + 4, 16)], n)


def build_tree(shape, rng, variant):
    """variant 0: canonical (names and insertion orders follow the shape, one row per leaf);
    otherwise names permuted, dict insertion order and child-list order shuffled,
    0-2 rows per leaf (every 5th variant: no rows at all)."""
    n0, comps = shape
    sizes = [n0] + [sum(c) for c in comps]
    d = len(sizes)
    canonical = variant == 0
    style = 'padded' if canonical else rng.choice(NAME_STYLES)
    hier = LEVEL_NAMES[:d] if canonical or rng.random() < 0.5 else rng.sample(LEVEL_NAMES, d)
    names = []
    for k in range(d):
        nm = node_names(style, k, sizes[k], rng)
        if not canonical:
            rng.shuffle(nm)
        names.append(nm)
    data = {'hierarchy': list(hier)}
    if not canonical and rng.random() < 0.3:
        data['metadata'] = {'note': 'ignored by the validator'}
    for k in range(d - 1):
        entries = []
        off = 0
        for i, cnt in enumerate(comps[k]):
            ch = names[k + 1][off:off + cnt]
            off += cnt
            if not canonical:
                rng.shuffle(ch)
            entries.append((names[k][i], ch))
        if not canonical:
            rng.shuffle(entries)
        data[hier[k]] = dict(entries)
    n_leaves = sizes[-1]
    if canonical:
        counts = [1] * n_leaves
    elif variant % 5 == 4:
        counts = [0] * n_leaves
    else:
        counts = [rng.randrange(0, 3) for _ in range(n_leaves)]
    total = sum(counts)
    rows = list(range(total)) if canonical else rng.sample(range(0, 3 * total + 3), total)
    entries = []
    off = 0
    for i in range(n_leaves):
        entries.append((names[-1][i], rows[off:off + counts[i]]))
        off += counts[i]
    if not canonical:
        rng.shuffle(entries)
    data[hier[-1]] = dict(entries)
    return data


def random_shape(rng, max_levels=6, max_leaves=40):
    d = rng.randrange(1, max_levels + 1)
    n_leaves = rng.randrange(1, max_leaves + 1)
    sizes = sorted(rng.randrange(1, n_leaves + 1) for _ in range(d - 1)) + [n_leaves]
    comps = []
    for k in range(d - 1):
        a, b = sizes[k], sizes[k + 1]
        cuts = sorted(rng.sample(range(1, b), a - 1)) if a > 1 else []
        bounds = [0] + cuts + [b]
        comps.append(tuple(bounds[i + 1] - bounds[i] for i in range(a)))
    return (sizes[0], comps)


# ------------------------------------------------------------------ encoding
def all_names(data):
    out = set()
    h = data['hierarchy']
    for i, lv in enumerate(h):
        for n, ch in data.get(lv, {}).items():
            out.add(n)
            if i < len(h) - 1:
                out.update(ch)
    return out


class Ranker:
    """order-preserving renaming: a name -> its rank in python's string order"""

    def __init__(self, *trees, extra=()):
        names = set(extra)
        for t in trees:
            names |= all_names(t)
        self.names = sorted(names)
        self.rank = {s: i for i, s in enumerate(self.names)}

    def __getitem__(self, s):
        return self.rank[s]


def enc_tree(data, rk):
    out = []
    h = data['hierarchy']
    for i, lv in enumerate(h):
        d = data[lv]
        if i == len(h) - 1:
            out.append([[rk[n], [int(r) for r in d[n]]] for n in d])
        else:
            out.append([[rk[n], [rk[c] for c in (sorted(d[n]) if isinstance(d[n], (set, frozenset)) else d[n])]]
                        for n in d])
    return out


def enc_hier(h):
    return [LEVEL_NAMES.index(x) if x in LEVEL_NAMES else 100 + sum(map(ord, x)) for x in h]


def enc_parent(p, h, rk):
    return [] if p is None else [h.index(p[0]), rk[p[1]]]


def err_code(e):
    m = str(e)
    if 'It is flat' in m:
        return 1
    if 'not in the hierarchy' in m:
        return 2
    if 'That is the leaf level' in m:
        return 3
    return 4


def quiet(f, *a, **k):
    with warnings.catch_warnings():
        warnings.simplefilter('ignore')
        return f(*a, **k)


def construct(data):
    """TaxonomyTree(data) -> (tree | None, error text)"""
    from cell_type_mapper.taxonomy.taxonomy_tree import TaxonomyTree
    try:
        return quiet(TaxonomyTree, data), None
    except RuntimeError as e:
        return None, 'RuntimeError: ' + str(e)[:200]


def tres(f, rk):
    """run a transformation of the implementation: [0, encoded tree] | [1, code]"""
    try:
        t2 = quiet(f)
    except RuntimeError as e:
        return [1, err_code(e)], None
    return [0, enc_tree(t2._data, rk)], t2


def has_dup_child(data):
    h = data['hierarchy']
    for lv in h[:-1]:
        for ch in data[lv].values():
            if len(list(ch)) != len(set(ch)):
                return True
    return False


# ------------------------------------------------------------------ the property's own clauses
def spec_strict(tt):
    """accepted => exactly one parent, listed children exist, rows disjoint"""
    bad = []
    h = tt.hierarchy
    for k in range(1, len(h)):
        above = tt.nodes_at_level(h[k - 1])
        for c in tt.nodes_at_level(h[k]):
            ps = [p for p in above if c in tt.children(h[k - 1], p)]
            if len(ps) != 1:
                bad.append(('one-parent', f'{h[k]}:{c} has parents {ps}'))
    for k in range(len(h) - 1):
        below = set(tt.nodes_at_level(h[k + 1]))
        for p in tt.nodes_at_level(h[k]):
            for c in tt.children(h[k], p):
                if c not in below:
                    bad.append(('child-exists', f'{h[k]}:{p} lists {c}'))
    rows = [r for leaf in tt.all_leaves for r in tt.rows_for_leaf(leaf)]
    if len(rows) != len(set(rows)):
        bad.append(('rows-disjoint', 'a row belongs to two leaves'))
    return bad


def true_parents(tt, level, node):
    """the ancestors of a node read off the child lists of the tree's own dict, nearest first -- no query method
    of the implementation involved; None when some level does not hold exactly one parent"""
    h = list(tt.hierarchy)
    d = tt._data
    out = {}
    cur = node
    for j in range(h.index(level) - 1, -1, -1):
        ps = [p for p, ch in d[h[j]].items() if cur in ch]
        if len(ps) != 1:
            return None
        cur = ps[0]
        out[h[j]] = cur
    return out


def anc_path(tt, level, node):
    """ancestors through the public parents() query: {level: node}"""
    return tt.parents(level, node)


def spec_inverse(tt):
    bad = []
    h = tt.hierarchy
    for k in range(len(h)):
        for x in tt.nodes_at_level(h[k]):
            par = tt.parents(h[k], x)
            tp = true_parents(tt, h[k], x)
            if tp is not None and (par != tp or list(par.keys()) != list(tp.keys())):
                bad.append(('inverse', f'parents({h[k]},{x}) = {par}, the child lists give {tp}'))
                continue
            if list(par.keys()) != list(reversed(h[:k])):
                bad.append(('inverse', f'parents({h[k]},{x}) has levels {list(par.keys())}'))
                continue
            cur = x
            for j in range(k - 1, -1, -1):
                p = par[h[j]]
                if p not in tt.nodes_at_level(h[j]) or cur not in tt.children(h[j], p):
                    bad.append(('inverse', f'{cur} is not a child of its recorded parent {h[j]}:{p}'))
                cur = p
        if k + 1 < len(h):
            for p in tt.nodes_at_level(h[k]):
                for c in tt.children(h[k], p):
                    if tt.parents(h[k + 1], c).get(h[k]) != p:
                        bad.append(('inverse', f'{c} is a child of {h[k]}:{p} but its parent is recorded otherwise'))
    return bad


def leaves_under(tt, k, x):
    """independent of as_leaves AND of parents(): descent from x through the child lists of the tree's own dict
    (the oracle used parents() until seed C10-I -- a parents() memoised by name alone -- made it raise KeyError
    before spec_inverse could report the failing query)"""
    h = tt.hierarchy
    d = tt._data
    cur = [x]
    for j in range(k, len(h) - 1):
        cur = [c for p in cur for c in d[h[j]].get(p, [])]
    return set(cur) & set(tt.all_leaves)


def spec_partition(tt):
    bad = []
    h = tt.hierarchy
    al = tt.as_leaves
    leaves = tt.all_leaves
    for k in range(len(h)):
        tot = []
        for x in tt.nodes_at_level(h[k]):
            mine = list(al[h[k]][x])
            tot += mine
            if len(mine) != len(set(mine)):
                bad.append(('partition', f'leaf list of {h[k]}:{x} repeats a leaf: {mine}'))
            if set(mine) != leaves_under(tt, k, x):
                bad.append(('partition', f'leaf list of {h[k]}:{x} is not the set of its descendant leaves'))
            if k + 1 < len(h):
                parts = [list(al[h[k + 1]][c]) for c in tt.children(h[k], x)]
                union = [l for p in parts for l in p]
                if sorted(union) != sorted(mine):
                    bad.append(('partition', f'children of {h[k]}:{x} do not partition its leaves'))
                if len(union) != len(set(union)):
                    bad.append(('partition', f'leaf lists of the children of {h[k]}:{x} overlap'))
        if sorted(tot) != sorted(leaves):
            bad.append(('partition', f'leaf lists at level {h[k]} do not partition the leaf set'))
    return bad


def spec_pairs(tt, parent, got):
    """got = leaves_to_compare(parent)"""
    bad = []
    h = tt.hierarchy
    leaf = h[-1]
    if any(g[0] != leaf for g in got):
        bad.append(('pairs', 'a pair is not labelled with the leaf level'))
    pairs = [(g[1], g[2]) for g in got]
    if len(pairs) != len(set(pairs)):
        bad.append(('pairs', f'under {parent}: a pair is listed more than once'))
    if any(not (a < b) for a, b in pairs):
        bad.append(('pairs', f'under {parent}: a pair is not in name order / pairs a leaf with itself'))
    if parent is None:
        kc = 0
        kids = tt.children(None, None)
    else:
        kc = h.index(parent[0]) + 1
        kids = tt.children(parent[0], parent[1]) if kc < len(h) else []
    groups = [leaves_under(tt, kc, c) for c in dict.fromkeys(kids)] if kc < len(h) else []
    want = set()
    for g1, g2 in itertools.combinations(groups, 2):
        for a in g1:
            for b in g2:
                want.add((min(a, b), max(a, b)))
    if set(pairs) != want:
        bad.append(('pairs', f'under {parent}: pairs differ from the leaves under two different children'))
    return bad


def spec_preserved(old, new, kept_levels, rows_kept=True):
    """leaf set and every leaf's ancestor at every remaining level preserved"""
    bad = []
    if sorted(old.all_leaves) != sorted(new.all_leaves) or len(set(new.all_leaves)) != len(new.all_leaves):
        bad.append(('preserve', 'leaf set changed'))
        return bad
    if new.hierarchy != kept_levels:
        bad.append(('preserve', f'hierarchy {new.hierarchy} expected {kept_levels}'))
        return bad
    lo, ln = old.hierarchy[-1], new.hierarchy[-1]
    for l in old.all_leaves:
        po = old.parents(lo, l)
        pn = new.parents(ln, l)
        if pn != {k: v for k, v in po.items() if k in kept_levels}:
            bad.append(('preserve', f'ancestors of leaf {l} changed: {po} -> {pn}'))
        if rows_kept and list(old.rows_for_leaf(l)) != list(new.rows_for_leaf(l)):
            bad.append(('preserve', f'rows of leaf {l} changed'))
    return bad


# ------------------------------------------------------------------ one tree through implementation and model
class Batch:
    def __init__(self, ctx, verbose=False):
        self.ctx = ctx
        self.items = []
        self.verbose = verbose

    def add(self, tag, x, expect, fn, desc, canon=None):
        self.items.append((tag, x, expect, fn, desc, canon))
        if len(self.items) >= 4000:
            self.flush()

    def flush(self):
        if not self.items:
            return
        res = self.ctx.model([(it[0], it[1]) for it in self.items])
        for (tag, x, expect, fn, desc, canon), r in zip(self.items, res):
            if canon is not None:
                r = canon(r)
            if self.verbose:
                print(f'  model {fn} (tag {tag}): {"agrees" if r == expect else "DISAGREES"}\n'
                      f'    implementation: {json.dumps(expect)[:600]}\n    model:          {json.dumps(r)[:600]}')
            if r != expect:
                self.ctx.disagreements_checked += 1
                d = dict(desc)
                d.update({'class': f'corr:Tree.{fn}', 'tag': tag, 'model_input': x, 'model': r, 'implementation': expect})
                self.ctx.violation(f'model Tree.{fn} and the implementation disagree', d, no_input=True)
        self.items = []


def report_spec(ctx, bad, data, origin, extra=None):
    """bad: list of (clause, detail) failures of the property's own statement"""
    if not bad:
        return
    ctx.disagreements_checked += 1
    clause, detail = bad[0]
    cls = F3 if has_dup_child(data) else f'C10-{clause}'
    d = {'class': cls, 'tree': data, 'origin': origin, 'failed_clauses': sorted({c for c, _ in bad}),
         'details': [x for _, x in bad[:6]]}
    if extra:
        d.update(extra)
    ctx.violation(f'property clause "{clause}" fails on the implementation: {detail}', d)


def drop_sequence_case(ctx, batch, tt, T, rk, desc, rng):
    """a random sequence of drop_level calls (valid ones, sometimes ending in a refused one)
    through the implementation and through Tree.drop_levels; (b): leaf set / ancestors kept"""
    h = list(tt.hierarchy)
    n = len(h)
    bad = []
    seq = rng.sample(h[:-1], rng.randrange(0, n)) if n > 1 else []
    tail = rng.random()
    if tail < 0.15:
        seq.append(h[-1])                 # the leaf level: refused
    elif tail < 0.3:
        seq.append(NO_LEVEL)              # not a level: refused
    elif tail < 0.4 and seq:
        seq.append(seq[0])                # already dropped: not a level any more
    cur, kept, idxs = tt, list(h), []
    obs = None
    for lv in seq:
        idxs.append(kept.index(lv) if lv in kept else len(kept))
        try:
            cur = quiet(cur.drop_level, lv)
        except RuntimeError as e:
            obs = [1, err_code(e)]
            break
        kept.remove(lv)
        bad += spec_preserved(tt, cur, kept)
    if obs is None:
        obs = [0, enc_tree(cur._data, rk)]
        if seq and enc_tree(quiet(cur.flatten)._data, rk) != enc_tree(quiet(tt.flatten)._data, rk):
            bad.append(('preserve', 'drops then flatten differs from flatten'))
    ctx.dist('drop_sequences', f'len{len(idxs)}:{"ok" if obs[0] == 0 else "err%d" % obs[1]}')
    batch.add(1017, [T, idxs], obs, 'drop_levels', dict(desc, drop_sequence=seq))
    return bad


def backfill_cases(ctx, batch, tt, T, rk, desc, rng, n_cells=3):
    """TaxonomyTree.backfill_assignments against Tree.backfill: per cell a record holding the
    assignment at some of the levels (as left by mapping onto a reduced tree), sometimes
    inconsistent with the tree or naming a node that does not exist (KeyError).
    (b): a record that holds the leaf and only true ancestors comes back with the leaf's
    ancestor at every level, present levels untouched, filled levels flagged, runner-ups dropped."""
    h = list(tt.hierarchy)
    n = len(h)
    bad = []
    leaves = tt.all_leaves
    if not leaves:
        return bad
    good_cells = []
    for ci in range(n_cells):
        leaf = rng.choice(leaves)
        par = true_parents(tt, h[-1], leaf)
        if par is None:
            continue
        truth = {lv: par[lv] for lv in h[:-1]}
        truth[h[-1]] = leaf
        mode = rng.choice(['reduced', 'reduced', 'reduced', 'flat', 'no_leaf', 'inconsistent', 'ghost'])
        if mode == 'flat':
            present = [h[-1]]
        elif mode == 'no_leaf':
            present = [lv for lv in h[:-1] if rng.random() < 0.5]
        else:
            present = [lv for lv in h[:-1] if rng.random() < 0.5] + [h[-1]]
        cell = {'cell_id': f'cell_{ci}'}
        for lv in present:
            cell[lv] = {'assignment': truth[lv], 'bootstrapping_probability': 0.25 + 0.5 * rng.random(),
                        'runner_up_assignment': ['r'], 'runner_up_probability': [0.1], 'directly_assigned': True}
        consistent = mode in ('reduced', 'flat')
        if mode == 'inconsistent' and present:
            lv = rng.choice(present)
            cell[lv]['assignment'] = rng.choice(tt.nodes_at_level(lv))
            consistent = cell[lv]['assignment'] == truth[lv]
        if mode == 'ghost' and present:
            lv = rng.choice(present)
            cell[lv]['assignment'] = rng.choice(EXTRA_NAMES)
        x = [[rk[cell[lv]['assignment']]] if lv in cell else [] for lv in h]
        before = copy.deepcopy(cell)
        try:
            out = tt.backfill_assignments([cell])
            if out[0] is not cell or len(out) != 1:
                bad.append(('backfill', 'backfill_assignments did not return the (altered) input list'))
            obs = [0, [[rk[cell[lv]['assignment']]] if lv in cell else [] for lv in h]]
            ok = True
        except KeyError:
            obs = [1, 6]
            ok = False
        ctx.dist('backfill', f'{mode}:{"ok" if ok else "KeyError"}')
        batch.add(1018, [T, x], obs, 'backfill', dict(desc, backfill_record={k: (v['assignment'] if isinstance(v, dict) else v) for k, v in before.items()}))
        if not ok:
            if mode != 'ghost':
                bad.append(('backfill', f'backfill_assignments raised KeyError on nodes of the tree ({mode})'))
            continue
        for lv in h:
            if lv in before and cell.get(lv) != before[lv]:
                bad.append(('backfill', f'a level that was present was altered ({lv})'))
        if consistent and mode != 'no_leaf':
            good_cells.append((before, copy.deepcopy(cell)))
            for lv in h:
                if lv not in cell or cell[lv]['assignment'] != truth[lv]:
                    bad.append(('backfill', f'level {lv} is not filled with the ancestor of the assigned leaf'))
                elif lv not in before:
                    if cell[lv].get('directly_assigned') is not False:
                        bad.append(('backfill', f'filled level {lv} is not flagged directly_assigned=False'))
                    if any(k.startswith('runner_up') for k in cell[lv]):
                        bad.append(('backfill', f'filled level {lv} carries runner-up data'))
    # all cells in one call give the same as one call per cell
    if len(good_cells) > 1:
        together = tt.backfill_assignments([copy.deepcopy(b) for b, _ in good_cells])
        if together != [a for _, a in good_cells]:
            bad.append(('backfill', 'backfilling several cells at once differs from one at a time'))
    return bad


def check_tree(ctx, batch, data, origin, rng, full=True):
    """All public operations of TaxonomyTree on `data` against the model, plus the clauses
    of the property on the observed outputs.  Returns the TaxonomyTree or None."""
    from cell_type_mapper.taxonomy.taxonomy_tree import TaxonomyTree
    rk = Ranker(data, extra=EXTRA_NAMES)
    T = enc_tree(data, rk)
    desc = {'tree': data, 'origin': origin}
    tt, err = construct(data)
    batch.add(1001, T, [0, 1 if tt is not None else 0], 'validate', desc)
    if tt is None:
        return None
    h = tt.hierarchy
    n = len(h)
    bad = []
    # ---- queries
    table = []
    for li, lv in enumerate(h):
        row = []
        nodes = tt.nodes_at_level(lv)
        if nodes != list(data[lv].keys()):
            bad.append(('nodes', f'nodes_at_level({lv}) is not the key list'))
        for x in nodes:
            ch = tt.children(lv, x)
            ch = [int(r) for r in ch] if li == n - 1 else [rk[c] for c in ch]
            par = tt.parents(lv, x)
            row.append([rk[x], [0, ch], [0, [[h.index(k), rk[v]] for k, v in par.items()]]])
        table.append(row)
    batch.add(1012, T, [0, [[rk[x] for x in tt.children(None, None)], table]], 'node_table', desc)
    ap = tt.all_parents
    batch.add(1009, T, [0, [enc_parent(p, h, rk) for p in ap]], 'all_parents', desc)
    al = tt.as_leaves
    if list(al.keys()) != h:
        bad.append(('as_leaves', 'levels of as_leaves differ from the hierarchy'))
    batch.add(1002, T, [0, [[[rk[x], [rk[l] for l in al[lv][x]]] for x in al[lv]] for lv in h]], 'as_leaves', desc)
    pairs_obs = []
    for p in ap:
        got = tt.leaves_to_compare(p)
        pairs_obs.append([[rk[g[1]], rk[g[2]]] for g in got])
        bad += spec_pairs(tt, p, got)
    batch.add(1013, T, [0, pairs_obs], 'leaf_pairs(all parents)', desc)
    if n > 0 and ap:
        i = rng.randrange(len(ap))
        batch.add(1003, [T, enc_parent(ap[i], h, rk)], [0, pairs_obs[i]], 'leaf_pairs', desc)
    # a leaf-level "parent" has nothing to compare
    if tt.all_leaves:
        lf = rng.choice(tt.all_leaves)
        got = tt.leaves_to_compare((h[-1], lf))
        batch.add(1003, [T, [n - 1, rk[lf]]], [0, [[rk[g[1]], rk[g[2]]] for g in got]], 'leaf_pairs', desc)
    # error behaviour of children()/parents() on a node that does not exist
    li = rng.randrange(n)
    ghost = EXTRA_NAMES[rng.randrange(3)]
    try:
        ch = tt.children(h[li], ghost)
        c_obs = [0, [int(r_) for r_ in ch] if li == n - 1 else [rk[c] for c in ch]]
    except RuntimeError:
        c_obs = [1, 5]
    try:
        pg = tt.parents(h[li], ghost)
        p_obs = [0, [[h.index(k), rk[v]] for k, v in pg.items()]]
    except KeyError:
        p_obs = [1, 6]
    batch.add(1016, [T, li, rk[ghost]], [0, [c_obs, p_obs]], 'children_chk/ancestors_chk', desc)
    li = rng.randrange(n)
    if tt.nodes_at_level(h[li]):
        x = rng.choice(tt.nodes_at_level(h[li]))
        batch.add(1007, [T, li, rk[x]], [0, [[h.index(k), rk[v]] for k, v in tt.parents(h[li], x).items()]],
                  'ancestors', desc)
    bad += spec_strict(tt) + spec_inverse(tt) + spec_partition(tt)
    # ---- transformations
    drops = []
    for li, lv in enumerate(h + [NO_LEVEL]):
        r, t2 = tres(lambda: tt.drop_level(lv), rk)
        drops.append(r)
        if t2 is not None:
            bad += spec_preserved(tt, t2, [x for x in h if x != lv])
            if full:
                bad += spec_strict(t2) + spec_partition(t2)
        elif li < n - 1 and n > 1:
            bad.append(('closure', f'drop_level({lv}) of an accepted tree raised'))
    batch.add(1014, T, [0, drops], 'drop_level(all levels)', desc)
    li = rng.randrange(n + 1)
    batch.add(1004, [T, li], drops[li], 'drop_level', desc)
    r, t2 = tres(lambda: tt.drop_leaf_level(), rk)
    batch.add(1006, T, r, 'drop_leaf_level', desc)
    if t2 is not None:
        if t2.hierarchy != h[:-1]:
            bad.append(('preserve', 'drop_leaf_level: wrong hierarchy'))
        for li in range(n - 1):
            for x in tt.nodes_at_level(h[li]):
                if x not in t2.nodes_at_level(h[li]) or t2.parents(h[li], x) != tt.parents(h[li], x):
                    bad.append(('preserve', f'drop_leaf_level changed the ancestors of {h[li]}:{x}'))
        if sorted(t2.all_leaves) != sorted(tt.nodes_at_level(h[-2])):
            bad.append(('preserve', 'drop_leaf_level: new leaves are not the nodes of the level above'))
        for x in t2.all_leaves:
            want = [r_ for c in tt.children(h[-2], x) for r_ in tt.rows_for_leaf(c)]
            if sorted(t2.rows_for_leaf(x)) != sorted(want):
                bad.append(('preserve', f'drop_leaf_level: rows of {x} are not the rows of its former children'))
        bad += spec_strict(t2)
    elif n > 1:
        bad.append(('closure', 'drop_leaf_level of an accepted tree raised'))
    r, t2 = tres(lambda: tt.flatten(), rk)
    batch.add(1005, T, r, 'flatten', desc)
    if t2 is not None:
        bad += spec_preserved(tt, t2, [h[-1]]) + spec_strict(t2)
        if n > 1 and full:
            # compositions: drop then flatten, flatten then drop (flat), repeated drops down to one level
            r2, t3 = tres(lambda: t2.drop_level(h[-1]), rk)
            if r2 != [1, 1]:
                bad.append(('closure', 'dropping a level of a flat tree did not raise "flat"'))
            cur, kept = tt, list(h)
            order = list(h[:-1])
            rng.shuffle(order)
            for lv in order:
                try:
                    cur = quiet(cur.drop_level, lv)
                except RuntimeError as e:
                    bad.append(('closure', f'repeated drop_level raised: {str(e)[:80]}'))
                    break
                kept.remove(lv)
                bad += spec_preserved(tt, cur, kept)
                fl = quiet(cur.flatten)
                if enc_tree(fl._data, rk) != enc_tree(t2._data, rk):
                    bad.append(('preserve', 'drop then flatten differs from flatten'))
    else:
        bad.append(('closure', 'flatten of an accepted tree raised'))
    bad += drop_sequence_case(ctx, batch, tt, T, rk, desc, rng)
    bad += backfill_cases(ctx, batch, tt, T, rk, desc, rng, n_cells=3 if full else 1)
    # ---- serialisation round trips
    try:
        rt = quiet(TaxonomyTree.from_str, tt.to_str())
        if rt._data != json.loads(json.dumps(tt._data)) or enc_tree(rt._data, rk) != T:
            bad.append(('roundtrip', 'to_str/from_str changed the content'))
        bad += spec_preserved(tt, rt, h)
        if not (rt == tt) or rt != tt or not rt.is_equal_to(tt):
            bad.append(('roundtrip', 'round-tripped tree does not compare equal'))
        rt2 = quiet(TaxonomyTree.from_str, tt.to_str(drop_cells=True, indent=2))
        batch.add(1010, T, [0, enc_tree(rt2._data, rk)], 'drop_cells', desc)
        bad += spec_preserved(tt, rt2, h, rows_kept=False) + spec_inverse(rt2)
        if any(len(rt2.rows_for_leaf(l)) for l in rt2.all_leaves):
            bad.append(('roundtrip', 'drop_cells kept rows'))
        if not rt2.is_equal_to(tt) or not tt.is_equal_to(rt2):
            bad.append(('roundtrip', 'tree without cells is not is_equal_to the original'))
    except RuntimeError as e:
        bad.append(('closure', f'serialisation round trip raised: {str(e)[:100]}'))
        rt2 = None
    # ---- is_equal_to / ==
    others = [('self', tt), ('no_cells', rt2)]
    sh = copy.deepcopy(data)                     # same content, other insertion / list orders
    for lv in h:
        items = list(sh[lv].items())
        rng.shuffle(items)
        sh[lv] = {k: (rng.sample(list(v), len(v))) for k, v in items}
    others.append(('shuffled', construct(sh)[0]))
    if n > 1:
        try:
            others.append(('dropped', quiet(tt.drop_level, h[rng.randrange(n - 1)])))
        except RuntimeError:
            pass
        ren = copy.deepcopy(data)                # same shape, one level renamed
        new_name = 'renamed_level'
        k = rng.randrange(n)
        ren['hierarchy'][k] = new_name
        ren[new_name] = ren.pop(h[k])
        others.append(('level_renamed', construct(ren)[0]))
        mv = move_one_child(data, rng)
        if mv is not None:
            others.append(('child_moved', construct(mv)[0]))
    rr = copy.deepcopy(data)
    if any(len(v) for v in rr[h[-1]].values()):  # other rows: is_equal_to true, == false
        for k_ in rr[h[-1]]:
            rr[h[-1]][k_] = [r_ + 1000 for r_ in rr[h[-1]][k_]]
        others.append(('other_rows', construct(rr)[0]))
    for name, o in others:
        if o is None:
            continue
        rk2 = Ranker(data, o._data, extra=EXTRA_NAMES)
        obs = [1 if tt.is_equal_to(o) else 0, 1 if tt == o else 0]
        batch.add(1015, [enc_hier(h), enc_hier(o.hierarchy), enc_tree(data, rk2), enc_tree(o._data, rk2)], [0, obs],
                  f'is_equal_to[{name}]', desc)
        if o.hierarchy == h:
            batch.add(1011, [enc_tree(data, rk2), enc_tree(o._data, rk2)], [0, obs[0]], 'is_equal_to', desc)
        want = {'self': [1, 1], 'no_cells': [1, None], 'shuffled': [1, 1], 'dropped': [0, 0],
                'level_renamed': [0, 0], 'child_moved': [0, 0], 'other_rows': [1, 0]}[name]
        if obs[0] != want[0] or (want[1] is not None and obs[1] != want[1]):
            bad.append(('equality', f'is_equal_to/== against the {name} tree gave {obs}'))
    report_spec(ctx, bad, data, origin)
    return tt


def move_one_child(data, rng):
    """a valid tree with the same nodes but one child under another parent (or None)"""
    h = data['hierarchy']
    cands = [k for k in range(len(h) - 1) if len(data[h[k]]) >= 2 and any(len(v) >= 2 for v in data[h[k]].values())]
    if not cands:
        return None
    out = copy.deepcopy(data)
    k = rng.choice(cands)
    src = rng.choice([p for p, v in out[h[k]].items() if len(v) >= 2])
    dst = rng.choice([p for p in out[h[k]] if p != src])
    c = out[h[k]][src].pop(rng.randrange(len(out[h[k]][src])))
    out[h[k]][dst].append(c)
    return out


# ------------------------------------------------------------------ the caller goes on editing its own dict
ALIAS = 'C10-tree-aliases-caller-data'


def snapshot(tt):
    """The answers of every query of a tree as plain, un-aliased JSON values (orders kept)."""
    h = list(tt.hierarchy)
    ap = list(tt.all_parents)
    al = tt.as_leaves
    snap = {
        'hierarchy': h,
        'top': list(tt.children(None, None)),
        'nodes_at_level': {lv: list(tt.nodes_at_level(lv)) for lv in h},
        'children': {lv: {x: list(tt.children(lv, x)) for x in tt.nodes_at_level(lv)} for lv in h},
        'parents': {lv: {x: [[k, v] for k, v in tt.parents(lv, x).items()] for x in tt.nodes_at_level(lv)} for lv in h},
        'as_leaves': {lv: {x: list(al[lv][x]) for x in al[lv]} for lv in al},
        'all_leaves': list(tt.all_leaves),
        'rows_for_leaf': {x: [int(r) for r in tt.rows_for_leaf(x)] for x in tt.all_leaves},
        'all_parents': [None if p_ is None else list(p_) for p_ in ap],
        'leaves_to_compare': [[list(g) for g in tt.leaves_to_compare(p_)] for p_ in ap],
        'to_str': tt.to_str(),
        'to_str(drop_cells)': tt.to_str(drop_cells=True),
    }
    return json.loads(json.dumps(snap))


def edit_in_place(data, rng):
    """One edit of the caller's dict, made IN PLACE on its nested objects, that turns a valid taxonomy into
    another valid taxonomy.  Returns a description, or None when no edit of the drawn kind applies."""
    h = data['hierarchy']
    n = len(h)
    kind = rng.choice(['move', 'move', 'rename_node', 'rename_node', 'delete_leaf', 'delete_leaf', 'add_row',
                       'rename_level', 'new_leaf'])
    if kind == 'move':
        cands = [k for k in range(n - 1) if len(data[h[k]]) >= 2 and any(len(v) >= 2 for v in data[h[k]].values())]
        if not cands:
            return None
        k = rng.choice(cands)
        src = rng.choice([p_ for p_, v in data[h[k]].items() if len(v) >= 2])
        dst = rng.choice([p_ for p_ in data[h[k]] if p_ != src])
        c = data[h[k]][src].pop(rng.randrange(len(data[h[k]][src])))
        data[h[k]][dst].append(c)
        return f'move: {h[k + 1]}:{c} from {h[k]}:{src} to {h[k]}:{dst}'
    if kind == 'rename_node':
        k = rng.randrange(n)
        if not data[h[k]]:
            return None
        x = rng.choice(list(data[h[k]]))
        new = rng.choice(EXTRA_NAMES)
        if new in all_names(data):
            return None
        items = list(data[h[k]].items())
        data[h[k]].clear()
        for a, b in items:
            data[h[k]][new if a == x else a] = b
        if k > 0:
            for v in data[h[k - 1]].values():
                if x in v:
                    v[v.index(x)] = new
        return f'rename_node: {h[k]}:{x} to {new}'
    if kind == 'delete_leaf':
        lf = h[-1]
        if n == 1:
            if len(data[lf]) < 2:
                return None
            x = rng.choice(list(data[lf]))
        else:
            par = [p_ for p_, v in data[h[-2]].items() if len(v) >= 2]
            if not par:
                return None
            p_ = rng.choice(par)
            x = rng.choice(list(data[h[-2]][p_]))
            data[h[-2]][p_].remove(x)
        del data[lf][x]
        return f'delete_leaf: {x}'
    if kind == 'add_row':
        lf = h[-1]
        if not data[lf]:
            return None
        x = rng.choice(list(data[lf]))
        used = {r for v in data[lf].values() for r in v}
        r = max(used, default=-1) + 1 + rng.randrange(3)
        data[lf][x].insert(rng.randrange(len(data[lf][x]) + 1), r)
        return f'add_row: leaf {x} gets the further row {r}'
    if kind == 'rename_level':
        k = rng.randrange(n)
        old, new = h[k], 'renamed_level'
        if new in data:
            return None
        data[new] = data.pop(old)
        h[k] = new
        return f'rename_level: {old} to {new}'
    # new leaf under an existing parent
    lf = h[-1]
    new = rng.choice(EXTRA_NAMES)
    if new in all_names(data) or (n > 1 and not data[h[-2]]):
        return None
    if n > 1:
        p_ = rng.choice(list(data[h[-2]]))
        data[h[-2]][p_].append(new)
    data[lf][new] = []
    return f'new_leaf: {new}'


def snap_diff(a, b):
    for k in a:
        if a[k] != b.get(k):
            if isinstance(a[k], dict) and isinstance(b.get(k), dict):
                for k2 in a[k]:
                    if a[k][k2] != b[k].get(k2):
                        return f'{k}[{k2}]: {json.dumps(a[k][k2])[:150]} -> {json.dumps(b[k].get(k2))[:150]}'
            return f'{k}: {json.dumps(a[k])[:150]} -> {json.dumps(b.get(k))[:150]}'
    return None


def alias_case(ctx, batch, data, origin, rng):
    """A tree is built from a caller-owned dict; the caller then edits ITS dict in place into other valid
    taxonomies (1-3 edits) and after each edit the first tree is queried again: every answer must be the one
    given before the edit, parent and child queries must stay mutually inverse, and the node table must
    still be the model's table of the original tree."""
    original = copy.deepcopy(data)
    work = copy.deepcopy(data)
    tt, _ = construct(work)
    if tt is None:
        return
    rk = Ranker(original, extra=EXTRA_NAMES)
    T = enc_tree(original, rk)
    before = snapshot(tt)
    edits = []
    for _ in range(rng.randrange(1, 4)):
        e = None
        for _try in range(6):
            e = edit_in_place(work, rng)
            if e is not None:
                break
        if e is None:
            break
        edits.append(e)
        ctx.dist('in_place_edit', e.split(':')[0])
        if construct(copy.deepcopy(work))[0] is None:
            raise AssertionError(f'harness: in-place edit produced an invalid taxonomy: {edits} on {original}')
        desc = {'class': ALIAS, 'tree': original, 'origin': origin, 'edits_of_the_callers_dict': list(edits),
                'callers_dict_after_the_edits': copy.deepcopy(work)}
        try:
            after = snapshot(tt)
            diff = snap_diff(before, after) or snap_diff(after, before)
        except Exception as exc:      # a tree that was accepted can no longer answer
            diff = f'a query raised {exc_class(exc)}: {str(exc)[:150]}'
        if diff:
            try:
                inv = spec_inverse(tt)
            except Exception as exc:
                inv = [('inverse', f'raised {exc_class(exc)}')]
            ctx.disagreements_checked += 1
            ctx.violation('TaxonomyTree(data) answers differently after the caller edited its own dict in place '
                          f'({"; ".join(edits)}): {diff}'
                          + (f'; parent and child queries are no longer mutually inverse: {inv[0][1]}' if inv else ''),
                          dict(desc, failed_clauses=['unchanged-answers'] + (['inverse'] if inv else [])))
            return
    if not edits:
        return
    # same answers as before imply the clauses established by check_tree on this tree; the inverse clause is
    # nevertheless re-evaluated on the live object after the last edit
    inv = spec_inverse(tt)
    if inv:
        ctx.disagreements_checked += 1
        ctx.violation(f'parent and child queries are not mutually inverse after the caller edited its dict: {inv[0][1]}',
                      dict(desc, failed_clauses=['inverse']))
        return
    if not edits:
        return
    ctx.count(('alias', json.dumps(original), tuple(edits)), nontrivial=True)
    # correspondence: the table of all child / parent queries asked AFTER the edits = model of the original tree
    h = tt.hierarchy
    table = []
    for li, lv in enumerate(h):
        row = []
        for x in tt.nodes_at_level(lv):
            ch = tt.children(lv, x)
            ch = [int(r) for r in ch] if li == len(h) - 1 else [rk[c] for c in ch]
            row.append([rk[x], [0, ch], [0, [[h.index(k), rk[v]] for k, v in tt.parents(lv, x).items()]]])
        table.append(row)
    batch.add(1012, T, [0, [[rk[x] for x in tt.children(None, None)], table]],
              'node_table(after the caller edited its dict)', {'tree': original, 'origin': origin, 'edits': edits})


# ------------------------------------------------------------------ malformed stream
REJECTED = {'orphan_new_node', 'orphan_unlisted', 'dangling_new_name', 'dangling_deleted_node', 'second_parent',
            'shared_row', 'shared_row_same_leaf', 'dup_child', 'dup_child_appended'}
ACCEPTED = {'childless_top_node', 'empty_only_level', 'empty_new_leaf_level'}   # documented gaps of the validator


def accepts_class(cls):
    """class string of 'a malformed tree of class cls was accepted'"""
    return F3 if cls.startswith('dup_child') else f'C10-accepts-{cls}'


def mutants(data, rng):
    """one-edit mutants of a valid tree: (class, tree)"""
    h = data['hierarchy']
    n = len(h)
    out = []

    def cp():
        return copy.deepcopy(data)
    nonempty = [k for k in range(n) if data[h[k]]]
    # orphan: a new node below the top that nobody lists
    if n > 1:
        k = rng.randrange(1, n)
        m = cp()
        m[h[k]][rng.choice(EXTRA_NAMES)] = []
        out.append(('orphan_new_node', m))
        # orphan: a child removed from its parent's list
        k = rng.randrange(0, n - 1)
        ps = [p for p, v in data[h[k]].items() if v]
        if ps:
            m = cp()
            p = rng.choice(ps)
            m[h[k]][p].pop(rng.randrange(len(m[h[k]][p])))
            out.append(('orphan_unlisted', m))
        # dangling: a listed child that is not a node
        k = rng.randrange(0, n - 1)
        if data[h[k]]:
            m = cp()
            p = rng.choice(list(m[h[k]]))
            m[h[k]][p].insert(rng.randrange(len(m[h[k]][p]) + 1), rng.choice(EXTRA_NAMES))
            out.append(('dangling_new_name', m))
        # dangling: a listed node deleted from its level
        k = rng.randrange(1, n)
        if data[h[k]]:
            m = cp()
            m[h[k]].pop(rng.choice(list(m[h[k]])))
            out.append(('dangling_deleted_node', m))
        # second parent
        ks = [k for k in range(n - 1) if len(data[h[k]]) >= 2]
        if ks:
            k = rng.choice(ks)
            m = cp()
            p = rng.choice([p for p, v in m[h[k]].items() if v])
            c = rng.choice(m[h[k]][p])
            q = rng.choice([q for q in m[h[k]] if q != p])
            m[h[k]][q].insert(rng.randrange(len(m[h[k]][q]) + 1), c)
            out.append(('second_parent', m))
        # the same child twice in one list
        k = rng.randrange(0, n - 1)
        ps = [p for p, v in data[h[k]].items() if v]
        if ps:
            m = cp()
            p = rng.choice(ps)
            c = rng.choice(m[h[k]][p])
            m[h[k]][p].insert(rng.randrange(len(m[h[k]][p]) + 1), c)
            out.append(('dup_child', m))
            # ... and appended at the end of the list (the mutant of c10_mutants_rejected), at another level
            k = rng.randrange(0, n - 1)
            ps = [p for p, v in data[h[k]].items() if v]
            if ps:
                m = cp()
                p = rng.choice(ps)
                m[h[k]][p].append(rng.choice(m[h[k]][p]))
                out.append(('dup_child_appended', m))
        # an internal node without children (top level: needs no parent)
        m = cp()
        m[h[0]][rng.choice(EXTRA_NAMES)] = []
        out.append(('childless_top_node', m))
    # shared row
    leaf = data[h[-1]]
    rows = [(l, r) for l, v in leaf.items() for r in v]
    if rows:
        l, r = rng.choice(rows)
        if len(leaf) >= 2:
            m = cp()
            q = rng.choice([q for q in leaf if q != l])
            m[h[-1]][q].append(r)
            out.append(('shared_row', m))
        m = cp()
        m[h[-1]][l].append(r)
        out.append(('shared_row_same_leaf', m))
    # empty level
    if n == 1 and len(leaf) == 1:
        m = cp()
        m[h[0]] = {}
        out.append(('empty_only_level', m))
    if not rows:
        m = cp()
        new_name = 'new_leaf_level'
        m['hierarchy'] = h + [new_name]
        m[new_name] = {}
        out.append(('empty_new_leaf_level', m))
    return out


# fixed witnesses: those of finding F3 (refused since the repair) and of the two gaps that are left
# (accepted; they go through every operation)
FIXED_WITNESSES = [
    ('dup_child', {'hierarchy': ['A', 'B'], 'A': {'a': ['x', 'x', 'y']}, 'B': {'x': [], 'y': []}}),
    ('dup_child', {'hierarchy': ['A', 'B'], 'A': {'a': ['x', 'x']}, 'B': {'x': [3]}}),
    ('dup_child', {'hierarchy': ['A', 'B', 'C'], 'A': {'a': ['x', 'y', 'x']}, 'B': {'x': ['l1', 'l2'], 'y': ['l3']},
                   'C': {'l1': [0], 'l2': [1], 'l3': [2]}}),
    ('dup_child', {'hierarchy': ['A', 'B'], 'A': {'a': ['x', 'x', 'y']}, 'B': {'x': [0], 'y': [1]}}),
    ('dup_child', {'hierarchy': ['A', 'B', 'C'], 'A': {'a': ['x'], 'b': ['y', 'z', 'z']}, 'B': {'x': ['l1'], 'y': ['l2'], 'z': ['l3']},
                   'C': {'l1': [], 'l2': [], 'l3': []}}),
    ('childless_internal', {'hierarchy': ['A', 'B'], 'A': {'a': ['x'], 'b': []}, 'B': {'x': [0]}}),
    ('childless_internal', {'hierarchy': ['A', 'B', 'C'], 'A': {'a': ['x', 'y']}, 'B': {'x': ['l'], 'y': []}, 'C': {'l': [0]}}),
    ('empty_level', {'hierarchy': ['A', 'B'], 'A': {}, 'B': {}}),
    ('empty_level', {'hierarchy': ['A', 'B'], 'A': {'a': []}, 'B': {}}),
    ('empty_level', {'hierarchy': ['A'], 'A': {}}),
]

# malformations integers cannot express: expected verdicts of the validator (True = accepted)
def typed_mutants(data):
    h = data['hierarchy']
    out = []
    m = copy.deepcopy(data); m.pop('hierarchy'); out.append(('no_hierarchy_key', m, False))
    m = copy.deepcopy(data); m['extra_key'] = {}; out.append(('extra_key', m, False))
    for k in ('metadata', 'name_mapper', 'hierarchy_mapper'):
        m = copy.deepcopy(data); m[k] = {'x': 1}; out.append((f'allowed_key_{k}', m, True))
    m = copy.deepcopy(data); m.pop(h[0]); out.append(('missing_level', m, False))
    m = copy.deepcopy(data)
    k0 = next(iter(m[h[-1]]))
    m[h[-1]] = {(7 if k == k0 else k): v for k, v in m[h[-1]].items()}
    out.append(('non_str_node', m, False))
    return out


def malformed_stream(ctx, batch, data, rng, origin):
    for cls, m in mutants(data, rng):
        rk = Ranker(m, extra=EXTRA_NAMES)
        tt, err = construct(m)
        acc = tt is not None
        ctx.dist('mutant_verdict', f'{cls}:{"accepted" if acc else "rejected"}')
        ctx.count(('mutant', cls, json.dumps(m, sort_keys=True)), nontrivial=True)
        desc = {'tree': m, 'origin': f'{origin}/mutant:{cls}', 'mutant_class': cls}
        if cls in REJECTED and acc:
            ctx.disagreements_checked += 1
            ctx.violation(f'a malformed tree ({cls}) is accepted by the validator',
                          dict(desc, **{'class': accepts_class(cls)}))
        if acc:
            check_tree(ctx, batch, m, desc['origin'], rng, full=False)
        else:
            batch.add(1001, enc_tree(m, rk), [0, 0], 'validate', desc)


# ------------------------------------------------------------------ get_taxonomy_tree / from_h5ad
def label_table(ctx, rng, data):
    """per-cell label columns: from a valid tree (every row of every leaf, shuffled), possibly
    with one label edited (which usually gives some label two parents), or fully random."""
    h = data['hierarchy'] if data is not None else None
    mode = rng.choice(['tree', 'tree', 'tree_edit', 'random']) if data is not None else 'random'
    if mode != 'random':
        from cell_type_mapper.taxonomy.taxonomy_tree import TaxonomyTree
        tt = quiet(TaxonomyTree, data)
        cells = []
        for l in tt.all_leaves:
            par = tt.parents(h[-1], l)
            path = [par[lv] for lv in h[:-1]] + [l]
            for _ in range(rng.randrange(0, 3)):
                cells.append(list(path))
        rng.shuffle(cells)
        if mode == 'tree_edit' and cells:
            i = rng.randrange(len(cells))
            k = rng.randrange(len(h))
            cells[i][k] = rng.choice([c[k] for c in cells])
        return list(h), cells, mode
    d = rng.randrange(1, 5)
    hier = rng.sample(LEVEL_NAMES, d)
    width = [rng.randrange(1, 4) for _ in range(d)]
    ints = rng.random() < 0.3
    cells = []
    for _ in range(rng.randrange(0, 9)):
        if ints:
            cells.append([rng.randrange(8, 8 + width[k]) for k in range(d)])      # '8','9','10': str order != int order
        else:
            cells.append([f'{"pqrs"[k]}{rng.randrange(width[k])}' for k in range(d)])
    return hier, cells, 'random_int' if ints else 'random'


def spec_labels(hier, cells, tree):
    """expected result straight from the label table (tree = the returned dict or None)"""
    s = [[str(x) for x in c] for c in cells]
    two = False
    for k in range(1, len(hier)):
        par = {}
        for c in s:
            if par.setdefault(c[k], c[k - 1]) != c[k - 1]:
                two = True
    if tree is None:
        return [] if two else [('labels', 'label table that is a tree was rejected')]
    if two:
        return [('labels', 'a label with two parents was accepted')]
    bad = []
    for k, lv in enumerate(hier):
        seen = list(dict.fromkeys(c[k] for c in s))
        if list(tree[lv].keys()) != seen:
            bad.append(('labels', f'nodes at {lv} are not the labels present (in order of appearance)'))
            continue
        for x in seen:
            if k == len(hier) - 1:
                want = [i for i, c in enumerate(s) if c[k] == x]
                if list(tree[lv][x]) != want:
                    bad.append(('labels', f'rows of {x} are not the cells labelled {x}'))
            else:
                want = {c[k + 1] for c in s if c[k] == x}
                if set(tree[lv][x]) != want or len(list(tree[lv][x])) != len(want):
                    bad.append(('labels', f'children of {x} are not the label combinations present'))
    return bad


def sort_children(r):
    """canonical form of a model tree result whose child lists stand for sets"""
    if r[0] != 0:
        return r
    t = r[1]
    return [0, [[[x, sorted(ch)] for x, ch in lv] if i < len(t) - 1 else lv for i, lv in enumerate(t)]]


def label_case(ctx, batch, rng, data, with_h5ad, idx):
    from cell_type_mapper.taxonomy.utils import get_taxonomy_tree
    from cell_type_mapper.taxonomy.taxonomy_tree import TaxonomyTree
    hier, cells, mode = label_table(ctx, rng, data)
    label_check(ctx, batch, rng, hier, cells, mode, with_h5ad, idx)


def label_check(ctx, batch, rng, hier, cells, mode, with_h5ad, idx):
    from cell_type_mapper.taxonomy.utils import get_taxonomy_tree
    from cell_type_mapper.taxonomy.taxonomy_tree import TaxonomyTree
    records = [dict(zip(hier, c), decoy='zzz') for c in cells]
    names = sorted({str(x) for c in cells for x in c})
    rank = {s: i for i, s in enumerate(names)}
    desc = {'origin': f'labels:{mode}', 'hierarchy': hier, 'cells': cells, 'mode': mode}
    try:
        tree = quiet(get_taxonomy_tree, obs_records=copy.deepcopy(records), column_hierarchy=list(hier))
    except RuntimeError:
        tree = None
    ctx.dist('label_tables', f'{mode}:{"tree" if tree is not None else "rejected"}')
    ctx.count(('labels', json.dumps([hier, cells])), nontrivial=len(hier) > 1 and len(cells) > 1)

    class R:
        def __getitem__(self, s):
            return rank[s]
    if tree is None:
        obs = [1, 4]
    else:
        obs = [0, enc_tree(tree, R())]
    x = [len(hier), [[rank[str(v)] for v in c] for c in cells]]
    # the model lists children in order of first appearance; python sets have no order: compare sorted
    batch.add(1008, x, obs, 'get_taxonomy_tree', desc, canon=sort_children)
    bad = spec_labels(hier, cells, tree)
    if with_h5ad and cells:
        import anndata
        import pandas as pd
        p = ctx.scratch / f'labels_{idx}.h5ad'
        obs_df = pd.DataFrame({hier[k]: [c[k] for c in cells] for k in range(len(hier))} | {'decoy': ['q'] * len(cells)},
                              index=[f'cell_{i}' for i in range(len(cells))])
        quiet(anndata.AnnData(X=np.zeros((len(cells), 2), dtype=np.float32), obs=obs_df).write_h5ad, p)
        try:
            t2 = quiet(TaxonomyTree.from_h5ad, p, list(hier))
        except RuntimeError:
            t2 = None
        p.unlink()
        ctx.dist('label_tables', 'through_h5ad')
        if (t2 is None) != (tree is None):
            bad.append(('labels', 'from_h5ad and get_taxonomy_tree disagree on acceptance'))
        elif t2 is not None:
            d2 = {k: v for k, v in t2._data.items() if k != 'metadata'}
            if enc_tree(d2, R()) != enc_tree(tree, R()) or d2['hierarchy'] != hier:
                bad.append(('labels', 'from_h5ad and get_taxonomy_tree give different trees'))
            bad += spec_strict(t2) + spec_inverse(t2) + spec_partition(t2)
            for p_ in t2.all_parents:
                bad += spec_pairs(t2, p_, t2.leaves_to_compare(p_))
            # the serialised form (children become sorted lists) goes through every operation
            if idx % 3 == 0:
                check_tree(ctx, batch, json.loads(t2.to_str()), f'labels:{mode}/json', rng, full=False)
    if bad:
        ctx.disagreements_checked += 1
        ctx.violation(f'get_taxonomy_tree: {bad[0][1]}', dict(desc, **{'class': 'C10-labels', 'details': [b for _, b in bad[:5]]}))


# ------------------------------------------------------------------ driver
# ------------------------------------------------------------------ repeated level names (finding F29)
F29 = 'F29-validator-accepts-repeated-level-name'


def _partition(rng, items, owners, allow_empty=True):
    """every item to exactly one owner -> {owner: [items]}"""
    out = {o: [] for o in owners}
    for it in items:
        out[rng.choice(owners)].append(it)
    return out


def repeated_level_dicts(rng, n):
    """taxonomy dicts whose 'hierarchy' repeats a level NAME and which pass every check validate_taxonomy_tree makes
    (one dict per name: the repeated level's dict is used at both positions)."""
    out = [('aba-fixed', {'hierarchy': ['a', 'b', 'a'], 'a': {'x': ['p'], 'y': ['q']}, 'b': {'p': ['x'], 'q': ['y']}}),
           ('aba-fixed2', {'hierarchy': ['a', 'b', 'a'], 'a': {'x': ['p', 'q'], 'y': ['r']},
                           'b': {'p': ['x'], 'q': ['y'], 'r': []}}),
           ('aa-fixed', {'hierarchy': ['a', 'a'], 'a': {'x': ['x'], 'y': ['y']}})]
    for i in range(n):
        kind = rng.choice(['aba', 'aa', 'abcb'])
        xs = [f'x{j}' for j in range(rng.randrange(1, 5))]
        ps = [f'p{j}' for j in range(rng.randrange(1, 6))]
        if kind == 'aba':
            d = {'hierarchy': ['a', 'b', 'a'], 'a': _partition(rng, ps, xs), 'b': _partition(rng, xs, ps)}
        elif kind == 'aa':
            img = list(xs)
            rng.shuffle(img)
            d = {'hierarchy': ['a', 'a'], 'a': {x: [y] for x, y in zip(xs, img)}}
        else:
            cs = [f'c{j}' for j in range(rng.randrange(1, 6))]
            d = {'hierarchy': ['a', 'b', 'c', 'b'], 'a': _partition(rng, ps, xs), 'b': _partition(rng, cs, ps),
                 'c': _partition(rng, ps, cs)}
        out.append((f'{kind}-{i}', d))
    return out


def repeated_level_stream(ctx, rng):
    """The precondition `NoDup hierarchy` is NOT enforced by the real validator.  Here the excluded inputs are generated
    and the property's clauses (strict tree / parent-child inverse / leaf partition) evaluated on the real object; an
    accepted dict on which a clause fails or a query raises is finding F29 (known); the model is not consulted (its
    positional levels cannot express these dicts)."""
    for origin, d in repeated_level_dicts(rng, ctx.n(30, 400)):
        tt, err = construct(d)
        ctx.count(('repeated-level', json.dumps(d, sort_keys=True)), nontrivial=True)
        if tt is None:
            ctx.dist('repeated_level_name', 'rejected by the validator')
            continue
        bad = []
        for name, f in (('strict', spec_strict), ('inverse', spec_inverse), ('partition', spec_partition)):
            try:
                bad += quiet(f, tt)
            except Exception as e:      # noqa
                bad.append((name, f'evaluating the clause raised {exc_name(e)}: {str(e)[:80]}'))
        for name, f in (('flatten', lambda: tt.flatten()), ('to_str/from_str', lambda: type(tt).from_str(tt.to_str()))):
            try:
                quiet(f)
            except Exception as e:      # noqa
                bad.append((name, f'{name} raised {exc_name(e)}: {str(e)[:80]}'))
        ctx.dist('repeated_level_name', 'ACCEPTED, clauses fail (F29)' if bad else 'accepted, no clause fails')
        if bad:
            ctx.disagreements_checked += 1
            ctx.violation(f'a taxonomy whose hierarchy repeats a level name ({d["hierarchy"]}) is accepted and is no tree: '
                          f'{bad[0][1]}',
                          {'class': F29, 'tree': d, 'origin': f'repeated-level:{origin}',
                           'failed_clauses': sorted({c for c, _ in bad}), 'details': [x for _, x in bad[:6]]})


def exc_name(e):
    return type(e).__name__


def nontrivial(data):
    h = data['hierarchy']
    return len(h) >= 2 and any(len(v) >= 2 for lv in h[:-1] for v in data[lv].values())


def run(ctx):
    rng = ctx.rng
    ctx.rule = ('every ordered tree shape with <=4 levels and <=%d leaves (all branchings, single-child chains, '
                'single-node levels), each in canonical form and in %d shuffled variants (names permuted, dict '
                'insertion and child-list orders shuffled, 0-2 rows per leaf, no rows at all); %d random trees with '
                '<=6 levels and <=40 leaves; one-edit mutants of each; per tree a caller-edits-its-dict history '
                '(TaxonomyTree(d), then 1-3 in-place edits of d into other valid taxonomies - move a node, rename a node, '
                'delete / add a leaf, add a row, rename a level - and after each edit all queries of the first tree again); '
                'label tables. non-trivial = a valid tree with '
                '>=2 levels and a node with >=2 children (distinct by content), a mutant, or a label table with >=2 '
                'levels and >=2 cells') % (ctx.n(5, 6), ctx.n(1, 2), ctx.n(150, 5000))
    ctx.assumptions += [
        'PRECONDITION NoDup hierarchy: level names are pairwise distinct and none is "hierarchy"/"metadata"/"name_mapper"/'
        '"hierarchy_mapper" (the model identifies a level with its position, the real class with its name).  The real '
        'validate_taxonomy_tree does not enforce it: dicts with a repeated level name are generated in a separate stream '
        '(repeated_level_stream), never handed to the model, and the property clauses are evaluated on the real object: '
        'accepted-and-broken = known finding F29',
        'node names are str (non-str names, missing/extra keys are checked against a fixed verdict table, not the model)',
        'an empty hierarchy list raises IndexError in the implementation; the model rejects it; not generated',
        'children of trees built by get_taxonomy_tree are python sets: compared as sets (sorted) with the model, '
        'which lists them in order of first appearance',
        'from_data_release / from_precomputed_stats / from_json_file constructors are not exercised (CSV/HDF5 glue)',
    ]
    batch = Batch(ctx)
    n_var = ctx.n(1, 2)
    n_shapes = 0
    for si, shape in enumerate(shapes(4, ctx.n(5, 6))):
        n_shapes += 1
        for variant in range(0, n_var + 1):
            v = variant if variant == 0 else variant + (si % 5) * 1   # spreads the "no rows" variant
            data = build_tree(shape, rng, v)
            origin = f'shape:{shape}/variant:{v}'
            ctx.count(('tree', json.dumps(data, sort_keys=False)), nontrivial=nontrivial(data))
            ctx.dist('levels', len(data['hierarchy']))
            ctx.dist('leaves', len(data[data['hierarchy'][-1]]))
            if nontrivial(data) and variant:
                ctx.sample({'tree': data}, limit=3)
            tt = check_tree(ctx, batch, data, origin, rng)
            if tt is None:
                ctx.violation('a generated valid tree was rejected', {'class': 'C10-valid-rejected', 'tree': data})
                continue
            if variant == 0 or ctx.tier != 'quick' or si % 3 == 0:
                malformed_stream(ctx, batch, data, rng, origin)
            alias_case(ctx, batch, data, origin, rng)
            if variant and (si % ctx.n(4, 2) == 0):
                label_case(ctx, batch, rng, data, with_h5ad=(si % ctx.n(24, 12) == 0), idx=si)
    ctx.extra['shapes_enumerated'] = n_shapes
    ctx.exhaustive = True
    batch.flush()
    # fixed witnesses (F3: refused; the two remaining gaps: accepted) and the typed verdict table
    for cls, m in FIXED_WITNESSES:
        tt, _ = construct(m)
        ctx.dist('mutant_verdict', f'fixed_{cls}:{"accepted" if tt is not None else "rejected"}')
        ctx.count(('fixed', json.dumps(m)), nontrivial=True)
        if cls in REJECTED and tt is not None:
            ctx.disagreements_checked += 1
            ctx.violation(f'a malformed tree ({cls}) is accepted by the validator',
                          {'class': accepts_class(cls), 'tree': m, 'origin': f'fixed:{cls}', 'mutant_class': cls})
        check_tree(ctx, batch, m, f'fixed:{cls}', rng, full=False)
    base = build_tree((2, [(2, 1)]), rng, 0)
    for cls, m, want in typed_mutants(base):
        tt, _ = construct(m)
        ctx.dist('typed_verdict', f'{cls}:{"accepted" if tt is not None else "rejected"}')
        ctx.count(('typed', cls), nontrivial=False)
        if (tt is not None) != want:
            ctx.violation(f'validator verdict on {cls} is {"accept" if tt is not None else "reject"}',
                          {'class': f'C10-typed-{cls}', 'tree': {str(k): v for k, v in m.items()}})
    # random larger trees
    for i in range(ctx.n(150, 5000)):
        data = build_tree(random_shape(rng), rng, 1 + i % 5)
        origin = f'random:{i}'
        ctx.count(('tree', json.dumps(data)), nontrivial=nontrivial(data))
        ctx.dist('levels', len(data['hierarchy']))
        ctx.dist('leaves', 'random:%d-%d' % (10 * (len(data[data['hierarchy'][-1]]) // 10),
                                              10 * (len(data[data['hierarchy'][-1]]) // 10) + 9))
        tt = check_tree(ctx, batch, data, origin, rng, full=(i % 4 == 0))
        if tt is None:
            ctx.violation('a generated valid tree was rejected', {'class': 'C10-valid-rejected', 'tree': data})
            continue
        if i % 3 == 0:
            malformed_stream(ctx, batch, data, rng, origin)
        alias_case(ctx, batch, data, origin, rng)
        if i % 5 == 0:
            label_case(ctx, batch, rng, data, with_h5ad=(i % ctx.n(50, 25) == 0), idx=100000 + i)
    for i in range(ctx.n(200, 4000)):
        label_case(ctx, batch, rng, None, with_h5ad=(i % ctx.n(20, 10) == 0), idx=200000 + i)
    batch.flush()
    reread_part(ctx)
    repeated_level_stream(ctx, rng)


def replay(ctx, rec):
    """re-run one recorded tree / label table through implementation, model and predicate"""
    print(json.dumps({k: rec[k] for k in rec if k in ('property', 'what', 'class', 'origin', 'failed_clauses', 'details')},
                     indent=1))
    batch = Batch(ctx, verbose=True)
    if 'tree' in rec:
        print('tree:', json.dumps(rec['tree']))
        tt = check_tree(ctx, batch, rec['tree'], rec.get('origin', 'replay'), ctx.rng, full=True)
        print('implementation:', 'accepted' if tt is not None else 'rejected')
    elif 'cells' in rec:
        print('label table: hierarchy', rec['hierarchy'], 'cells', rec['cells'])
        label_check(ctx, batch, ctx.rng, rec['hierarchy'], rec['cells'], rec.get('mode', 'replay'), True, 0)
    batch.flush()
    for what, p, no_input in ctx.violations:
        print('PREDICATE/CORRESPONDENCE FAILURE:', what)
    for k, v in ctx.known_hits.items():
        print(f'matches known finding {k} ({v} time(s))')
    import shutil
    shutil.rmtree(ctx.scratch, ignore_errors=True)
    return 1 if ctx.violations else 0
