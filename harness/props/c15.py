"""C15 — JSON, CSV and HDF5 outputs tell the same story and round-trip.

Tie (i): generated result blobs through the REAL blob_to_csv / blob_to_hdf5 /
hdf5_to_blob (and re_order_blob), compared with Model/Output.v and with the
property's own statement.  Tie (ii): to_str(drop_cells=True) -> from_str on
generated taxonomies.  Tie (iii): the three files of real run_mapping runs.
"""
import copy
import csv
import io
import json
import re
import warnings
from decimal import Decimal
from fractions import Fraction

import numpy as np

from harness.core import exc_class
from harness.props import c15_csvtext

FIELDS = ['bootstrapping_probability', 'avg_correlation', 'aggregate_probability', 'directly_assigned']
RUN_KINDS = ['runner_up_assignment', 'runner_up_correlation', 'runner_up_probability']
ERR = {'IndexError': 3, 'KeyError': 2, 'TypeError': 4}

LEVEL_LABELS = ['CCN_CLAS', 'CCN_SUBC', 'CCN_SUPT', 'CCN_CLUS', 'class', 'subclass', 'supertype', 'cluster',
                'CCN_CLAS2', 'CCN_SUBC2', 'division', 'neighborhood', 'group', 'family', 'kind',
                'class_label', 'subclass_label', 'cluster_alias', 'type_name', 'assignment_group',
                'lvl,1', 'le"vel', 'level two', 'Lévél', 'L#4']
F12 = 'F12-csv-level-name-contains-label-name-alias-assignment'
F31 = 'F31-csv-two-levels-with-one-readable-name-lose-a-level'
READABLE = ['class', 'subclass', 'supertype', 'cluster', 'Class Name', 'sub,class', 'the "cluster"', 'neighborhood',
            'cluster_label', 'alias_of_type', 'R5', 'R6']
NAME_CHARS = ['a', 'b', 'c', 'X', 'Y', '1', '2', '_', '-', ' ', ',', '"', "'", '\n', ';', '#', 'é', '/', '.', '\t']


# ------------------------------------------------------------------ encoding helpers
class Names:
    """One injective renaming string -> integer for a whole case."""

    def __init__(self):
        self.d = {}

    def __call__(self, s):
        if s not in self.d:
            self.d[s] = len(self.d) + 1
        return self.d[s]

    def get(self, s):
        return self.d.get(s, -1)


def rat(x):
    n, d = float(x).as_integer_ratio()
    return [n, d]


def fhex(x):
    return float(x).hex()


def gen_name(rng, used, plain=False):
    for _ in range(200):
        n = rng.randrange(1, 7)
        if plain or rng.random() < 0.45:
            s = ''.join(rng.choice('abcdXY012_') for _ in range(n))
        else:
            s = ''.join(rng.choice(NAME_CHARS) for _ in range(n))
        if s and s not in used and s.strip() != '' :
            used.add(s)
            return s
    k = len(used)
    used.add(f'n{k}')
    return f'n{k}'


def gen_float(rng, kind):
    r = rng.random()
    if kind == 'prob':
        if r < 0.15:
            return 1.0
        if r < 0.25:
            return rng.randrange(0, 33) / 32.0          # exact ties of the 4-decimal rounding
        it = rng.choice([1, 10, 100, 37])
        return rng.randrange(0, it + 1) / it
    if r < 0.1:
        return rng.choice([0.0, -0.0, 1.0, -1.0, -1e-7, 1e-5, 0.99995, 0.00005, 0.03125, 0.09375, 0.15625])
    if r < 0.2:
        return rng.randrange(-32, 33) / 32.0
    return rng.uniform(-1.0, 1.0)


def gen_tree(rng, names_used=None):
    """A valid taxonomy dict (leaf lists empty), plus optional mappers."""
    depth = rng.choice([1, 1, 2, 2, 2, 3, 3, 4, 5])
    hierarchy = rng.sample(LEVEL_LABELS, depth)
    data = {'hierarchy': list(hierarchy)}
    prev = None
    per_level = []
    # a quarter of the trees label their nodes with a per-level counter ('1', '2', ...): the same label string then
    # names different nodes on every level (allowed: labels are unique per level only)
    counters = rng.random() < 0.25
    for li, level in enumerate(hierarchy):
        used = set()
        n_nodes = rng.randrange(1, 5) if li == 0 else rng.randrange(len(per_level[-1]), len(per_level[-1]) + 4)
        if counters:
            nodes = [str(k + 1) for k in range(n_nodes)]
            rng.shuffle(nodes)
        else:
            nodes = [gen_name(rng, used) for _ in range(n_nodes)]
        per_level.append(nodes)
    for li, level in enumerate(hierarchy):
        nodes = per_level[li]
        if li + 1 < depth:
            kids = list(per_level[li + 1])
            rng.shuffle(kids)
            # every parent gets at least one child
            assign = {n: [] for n in nodes}
            order = list(nodes)
            rng.shuffle(order)
            for k, child in enumerate(kids):
                p = order[k] if k < len(order) else rng.choice(nodes)
                assign[p].append(child)
            data[level] = {n: assign[n] for n in nodes}
        else:
            data[level] = {n: [] for n in nodes}
    if rng.random() < 0.6:
        nm = {}
        for level in hierarchy:
            if rng.random() < 0.75:
                nm[level] = {}
                used = set()
                for n in data[level]:
                    if rng.random() < 0.8:
                        e = {}
                        if rng.random() < 0.85:
                            e['name'] = gen_name(rng, used)
                        if rng.random() < 0.7:
                            e['alias'] = gen_name(rng, used, plain=rng.random() < 0.5)
                        nm[level][n] = e
        data['name_mapper'] = nm
    if rng.random() < 0.55:
        hm = {}
        pool = [r for r in READABLE if r not in hierarchy]
        rng.shuffle(pool)
        for level in hierarchy:
            if rng.random() < 0.8 and pool:
                hm[level] = pool.pop()
        data['hierarchy_mapper'] = hm
    if rng.random() < 0.3:
        data['metadata'] = {'factory': 'generated', 'params': {'k': [1, 2, 3]}}
    return data


def gen_level_entry(rng, data, level, direct, w, single_iter, mal=None):
    nodes = list(data[level].keys())
    e = {'assignment': rng.choice(nodes),
         'bootstrapping_probability': 1.0 if single_iter else gen_float(rng, 'prob'),
         'avg_correlation': gen_float(rng, 'corr')}
    if direct:
        k = rng.randrange(0, min(w, max(len(nodes) - 1, 0)) + 1) if w else 0
        if rng.random() < 0.25:
            k = 0
        if mal == 'too_many':
            k = w + rng.randrange(1, 3)
        ra = [rng.choice(nodes) for _ in range(k)]
        if mal == 'unknown_runner' and ra:
            ra[rng.randrange(len(ra))] = 'no such node'
        e['runner_up_assignment'] = ra
        e['runner_up_correlation'] = [gen_float(rng, 'corr') for _ in range(k)]
        e['runner_up_probability'] = [gen_float(rng, 'prob') for _ in range(k)]
        if mal == 'short_prob' and k:
            e['runner_up_probability'].pop()
    e['aggregate_probability'] = gen_float(rng, 'prob')
    e['directly_assigned'] = bool(direct)
    if mal == 'unknown_node':
        e['assignment'] = 'no such node'
    return e


def gen_case(rng, malformed):
    data = gen_tree(rng)
    hierarchy = data['hierarchy']
    depth = len(hierarchy)
    # the levels the (reduced) tree of the run kept: the leaf level always, the others at random
    mode = rng.choice(['all', 'all', 'flatten', 'drop'])
    if mode == 'all' or depth == 1:
        direct = [True] * depth
    elif mode == 'flatten':
        direct = [False] * (depth - 1) + [True]
    else:
        direct = [rng.random() < 0.6 for _ in range(depth - 1)] + [True]
    w = rng.choice([0, 0, 1, 2, 3, 5])
    single_iter = rng.random() < 0.25
    n_cells = rng.choice([0, 1, 1, 2, 3, 4, 6, 9]) if malformed else rng.choice([1, 1, 2, 3, 4, 6, 9])
    used = set()
    mal = None
    if malformed:
        mal = rng.choice(['nonuniform', 'nonuniform', 'too_many', 'unknown_node', 'unknown_runner', 'short_prob',
                          'keys_on_inferred', 'no_keys_on_direct', 'missing_level', 'empty', 'extra_level'])
    if mal == 'empty':
        n_cells = 0
    elif n_cells == 0:
        n_cells = 1
    results = []
    bad_cell = rng.randrange(n_cells) if n_cells else 0
    bad_level = rng.randrange(depth)
    for ic in range(n_cells):
        cell = {'cell_id': gen_name(rng, used)}
        for li, level in enumerate(hierarchy):
            d = direct[li]
            m = None
            if ic == bad_cell and li == bad_level:
                m = mal
            if mal == 'nonuniform' and ic == bad_cell and li == bad_level and n_cells > 1:
                d = not d
            entry = gen_level_entry(rng, data, level, d, w, single_iter,
                                    mal=m if m in ('too_many', 'unknown_node', 'unknown_runner', 'short_prob') else None)
            if m == 'keys_on_inferred' and not entry['directly_assigned']:
                entry['runner_up_assignment'] = [rng.choice(list(data[level]))] if w else []
                entry['runner_up_correlation'] = [0.25] if w else []
                entry['runner_up_probability'] = [0.5] if w else []
            if m == 'keys_on_inferred' and entry['directly_assigned']:
                # flag false but keys present
                entry['directly_assigned'] = False
            if m == 'no_keys_on_direct' and entry['directly_assigned']:
                for k in RUN_KINDS:
                    entry.pop(k)
            cell[level] = entry
        if mal == 'missing_level' and ic == bad_cell:
            for level in hierarchy[bad_level:]:
                cell.pop(level)
        if mal == 'extra_level' and ic == bad_cell:
            cell['not a level'] = copy.deepcopy(cell[hierarchy[0]])
        results.append(cell)
    case = {
        'tree': data, 'results': results, 'w': w, 'single_iter': single_iter,
        'meta_name': rng.choice([None, 'out.json', 'my result.json', 'res,1.json', 'a#b.json']),
        'flatten_cfg': rng.choice([None, True, False]),
        'malformed': mal, 'direct': direct,
        'extra_meta': {'marker_genes': {'None': ['g1', 'g2']}, 'log': ['line 1', 'line 2'],
                       'metadata': {'x': 1.5}} if rng.random() < 0.5 else {},
    }
    return case


# ------------------------------------------------------------------ case -> model input
def entry_runners(e):
    present = [k in e for k in RUN_KINDS]
    if not any(present):
        return None
    return [e.get('runner_up_assignment', []), e.get('runner_up_probability', []), e.get('runner_up_correlation', [])]


def representable(case):
    """The model's record has the three runner-up keys present or absent together and
    every level entry complete; everything the generator makes satisfies this."""
    for c in case['results']:
        for level in case['tree']['hierarchy']:
            if level in c:
                pres = [k in c[level] for k in RUN_KINDS]
                if any(pres) and not all(pres):
                    return False
    return True


def encode_blob(case, names):
    hierarchy = case['tree']['hierarchy']
    out = []
    for c in case['results']:
        levels = []
        for level in hierarchy:
            if level not in c:
                break          # trailing levels missing (the generator only drops a suffix)
            e = c[level]
            ru = entry_runners(e)
            levels.append([names(e['assignment']), rat(e['bootstrapping_probability']), rat(e['avg_correlation']),
                           rat(e['aggregate_probability']), bool(e['directly_assigned']),
                           [] if ru is None else [[[names(a) for a in ru[0]], [rat(p) for p in ru[1]],
                                                   [rat(x) for x in ru[2]]]]])
        out.append([names(c['cell_id']), levels])
    return out


def encode_naming(data, names):
    hm = data.get('hierarchy_mapper')
    nm = data.get('name_mapper')
    h = [] if hm is None else [[[names(k), names(v)] for k, v in hm.items()]]
    if nm is None:
        t = []
    else:
        t = [[[names(level), [[names(lab), [[names(e['name'])] if 'name' in e else [],
                                            [names(e['alias'])] if 'alias' in e else []]]
                              for lab, e in tbl.items()]]
              for level, tbl in nm.items()]]
    return [h, t]


def nodes_per_level(data, names):
    return [[names(n) for n in data[level].keys()] for level in data['hierarchy']]


# ------------------------------------------------------------------ running the real code
def run_real(case, scratch, idx):
    from cell_type_mapper.utils.output_utils import blob_to_csv, blob_to_hdf5, hdf5_to_blob
    from cell_type_mapper.taxonomy.taxonomy_tree import TaxonomyTree
    import h5py
    obs = {}
    data = case['tree']
    tree = TaxonomyTree(data=data)
    conf_key, conf_label = (('avg_correlation', 'correlation_coefficient') if case['single_iter']
                            else ('bootstrapping_probability', 'bootstrapping_probability'))
    csv_path = scratch / f'c{idx}.csv'
    h5_path = scratch / f'c{idx}.h5'
    meta = None if case['meta_name'] is None else str(scratch / 'some' / 'dir' / case['meta_name'])
    cfg = None if case['flatten_cfg'] is None else {'flatten': case['flatten_cfg']}
    try:
        with warnings.catch_warnings():
            warnings.simplefilter('ignore')
            blob_to_csv(results_blob=copy.deepcopy(case['results']), taxonomy_tree=tree, output_path=csv_path,
                        confidence_key=conf_key, confidence_label=conf_label, metadata_path=meta, config=cfg)
        obs['csv_text'] = open(csv_path, newline='').read()
    except Exception as e:
        obs['csv_err'] = exc_class(e)
        obs['csv_msg'] = str(e)[:200]
    blob = {'results': copy.deepcopy(case['results']), 'taxonomy_tree': copy.deepcopy(data),
            'config': {'type_assignment': {'n_runners_up': case['w']}}}
    blob.update(copy.deepcopy(case['extra_meta']))
    obs['blob'] = blob
    try:
        blob_to_hdf5(output_blob=copy.deepcopy(blob), dst_path=h5_path)
        obs['h5_written'] = True
        with h5py.File(h5_path, 'r') as f:
            raw = {k: f[k][()] for k in f.keys()}
        obs['raw'] = raw
        try:
            obs['back'] = hdf5_to_blob(h5_path)
        except Exception as e:
            obs['read_err'] = exc_class(e)
            obs['read_msg'] = str(e)[:200]
    except Exception as e:
        obs['h5_err'] = exc_class(e)
        obs['h5_msg'] = str(e)[:200]
    for p in (csv_path, h5_path):
        if p.exists():
            p.unlink()
    return obs


def encode_raw_h5(raw, data, names, w):
    """The datasets of the written file in the model's shape."""
    hierarchy = data['hierarchy']
    int_to_node = json.loads(raw['int_to_node'].decode('utf-8'))
    direct = [bool(b) for b in raw['directly_assigned']]
    ids = [names.get(c.decode('utf-8')) for c in raw['cell_id']]
    a = raw['assignment']
    rows = []
    has_r = 'runner_up_assignment' in raw
    for i in range(a.shape[0]):
        row = []
        for j in range(a.shape[1]):
            if has_r:
                ra = [int(v) for v in raw['runner_up_assignment'][i, j]]
                rp = [rat(v) for v in raw['runner_up_probability'][i, j]]
                rc = [rat(v) for v in raw['runner_up_correlation'][i, j]]
            else:
                ra, rp, rc = [], [], []
            row.append([int(a[i, j]), rat(raw['bootstrapping_probability'][i, j]),
                        rat(raw['aggregate_probability'][i, j]), rat(raw['average_correlation'][i, j]), ra, rp, rc])
        rows.append(row)
    width = raw['runner_up_assignment'].shape[-1] if has_r else 0
    return [direct, [[names.get(n) for n in int_to_node[level]] for level in hierarchy], ids, rows, width]


def encode_results(results, hierarchy, names):
    """Results as read back (or as generated) in the model's blob shape, exact."""
    out = []
    for c in results:
        levels = []
        for level in hierarchy:
            e = c[level]
            ru = entry_runners(e)
            levels.append([names.get(e['assignment']), rat(e['bootstrapping_probability']), rat(e['avg_correlation']),
                           rat(e['aggregate_probability']), bool(e['directly_assigned']),
                           [] if ru is None else [[[names.get(a) for a in ru[0]], [rat(p) for p in ru[1]],
                                                   [rat(x) for x in ru[2]]]]])
        out.append([names.get(c['cell_id']), levels])
    return out


def hexify(results, hierarchy):
    """Bit-exact, order-insensitive view of a result list (floats as hex strings)."""
    out = []
    for c in results:
        rec = {'cell_id': str(c['cell_id'])}
        for level in hierarchy:
            e = c[level]
            d = {}
            for k, v in e.items():
                if k in ('assignment',):
                    d[k] = str(v)
                elif k == 'directly_assigned':
                    d[k] = bool(v)
                elif k == 'runner_up_assignment':
                    d[k] = [str(x) for x in v]
                elif isinstance(v, list):
                    d[k] = [fhex(x) for x in v]
                else:
                    d[k] = fhex(v)
            rec[level] = d
        out.append(rec)
    return out


# ------------------------------------------------------------------ CSV parsing
NUM4 = re.compile(r'^-?\d+\.\d{4}$')


def split_comments(text):
    lines = []
    while text.startswith('#'):
        k = text.index('\n')
        lines.append(text[:k])
        text = text[k + 1:]
    return lines, text


def parse_comments(lines, names):
    import cell_type_mapper
    out = []
    problems = []
    for ln in lines:
        m = re.match(r'^# metadata = (.*)$', ln)
        if m:
            out.append([0, names.get(m.group(1))])
            continue
        m = re.match(r'^# taxonomy hierarchy = (.*)$', ln)
        if m:
            out.append([1, [names.get(x) for x in json.loads(m.group(1))]])
            continue
        m = re.match(r'^# readable taxonomy hierarchy = (.*)$', ln)
        if m:
            out.append([2, [names.get(x) for x in json.loads(m.group(1))]])
            continue
        m = re.match(r"^#( algorithm: '(\w+)';)? codebase: (\S+); version: (\S+)$", ln)
        if m:
            algo = {None: 0, 'correlation': 1, 'hierarchical': 2}.get(m.group(2), 9)
            out.append([3, algo])
            if m.group(3) != cell_type_mapper.__repository__ or m.group(4) != cell_type_mapper.__version__:
                problems.append(f'version line names {m.group(3)} {m.group(4)}')
            continue
        out.append([9, 0])
        problems.append(f'unrecognised comment line {ln!r}')
    return out, problems


def readable_levels(case):
    data = case['tree']
    hm = data.get('hierarchy_mapper') or {}
    return [hm.get(level, level) for level in data['hierarchy']]


def column_table(case, names):
    """header string -> structured column key of the model.  A key holds the (integer name of the) READABLE
    level name, as the real column name does: levels with one readable name share their keys."""
    data = case['tree']
    conf = 1 if case['single_iter'] else 0
    conf_label = 'correlation_coefficient' if case['single_iter'] else 'bootstrapping_probability'
    tbl = {'cell_id': [0]}
    n_keys = 1
    max_r = max([case['w'] + 3] + [len(c[l].get('runner_up_assignment', [])) for c in case['results']
                                   for l in data['hierarchy'] if l in c])
    readable = readable_levels(case)
    for rl in dict.fromkeys(readable):
        z = names.get(rl)
        ent = [(f'{rl}_label', [1, z]), (f'{rl}_name', [2, z]), (f'{rl}_alias', [3, z])]
        for f, fname in enumerate(FIELDS):
            ent.append((f'{rl}_{conf_label}' if f == conf else f'{rl}_{fname}', [4, z, f]))
        for k, kname in enumerate(RUN_KINDS):
            for i in range(max_r):
                ent.append((f'{rl}_{kname}_{i}', [5, z, k, i]))
        for st, key in ent:
            tbl[st] = key
            n_keys += 1
    ok = len(tbl) == n_keys
    sticky = [names.get(rl) for rl in dict.fromkeys(readable)
              if any(word in rl for word in ('name', 'label', 'alias', conf_label))]
    categ = [names.get(rl) for rl in dict.fromkeys(readable)
             if any(word in rl for word in ('name', 'label', 'alias', 'assignment'))]
    return tbl, readable, sticky, categ, ok


def parse_csv(text, case, names):
    lines, body = split_comments(text)
    comments, problems = parse_comments(lines, names)
    rows = list(csv.reader(io.StringIO(body, newline='')))
    tbl, readable, sticky, categ, _ = column_table(case, names)
    if rows == [[]] or not rows:
        return {'comments': comments, 'cols': [], 'rows': [[] for _ in rows[1:]], 'header': [],
                'raw_rows': [], 'problems': problems}
    header = rows[0]
    cols = [tbl.get(h, [9]) for h in header]
    out_rows = []
    for r in rows[1:]:
        cells = []
        for key, s in zip(cols, r):
            kind = key[0]
            if kind in (0, 1, 2, 3) or (kind == 5 and key[2] == 0):
                if s == '' and kind == 5:
                    cells.append([3])
                else:
                    cells.append([0, names.get(s)])
            elif kind == 4 and key[2] == 3:
                cells.append([2, s == 'True'] if s in ('True', 'False') else [3] if s == '' else [9])
            elif kind in (4, 5):
                if s == '':
                    cells.append([3])
                elif key[1] in categ:
                    # a categorical column: the repr of the double, i.e. its exact value
                    try:
                        cells.append([4, rat(float(s))])
                    except ValueError:
                        cells.append([9])
                elif NUM4.match(s):
                    cells.append([1, int(Decimal(s) * 10000)])
                else:
                    cells.append([9])
                    problems.append(f'number not printed with four decimals: {s!r}')
            else:
                cells.append([9])
        if len(r) != len(cols):
            problems.append('row length differs from the header')
        out_rows.append(cells)
    return {'comments': comments, 'cols': cols, 'rows': out_rows, 'header': header, 'raw_rows': rows[1:],
            'problems': problems}


def four_decimals(x):
    """x to four decimals, exactly (ties of the exact binary value to even), as units of 1e-4."""
    return round(Fraction(float(x)) * 10000)


def csv_property(case, parsed):
    """The property's own statement, evaluated on the parsed CSV of a well-formed case."""
    import cell_type_mapper
    data = case['tree']
    hierarchy = data['hierarchy']
    hm = data.get('hierarchy_mapper', {})
    nm = data.get('name_mapper')
    fails = []
    rows = parsed['raw_rows']
    header = parsed['header']
    rls = readable_levels(case)
    dup = len(set(rls)) != len(rls)        # two levels with one readable name: every row failure below is F31
    if len(rows) != len(case['results']):
        return [f'{len(rows)} rows for {len(case["results"])} records']
    if len(set(header)) != len(header):
        fails.append('duplicate column names')
    conf_key, conf_label = (('avg_correlation', 'correlation_coefficient') if case['single_iter']
                            else ('bootstrapping_probability', 'bootstrapping_probability'))

    def through(level, label, key):
        if nm is None or level not in nm or label not in nm[level] or key not in nm[level][label]:
            return label
        return nm[level][label][key]
    for i, (r, c) in enumerate(zip(rows, case['results'])):
        row = dict(zip(header, r))
        if row.get('cell_id') != c['cell_id']:
            fails.append(f'row {i}: cell_id {row.get("cell_id")!r} != {c["cell_id"]!r}')
        for li, level in enumerate(hierarchy):
            rl = hm.get(level, level)
            a = c[level]['assignment']
            if row.get(f'{rl}_label') != a:
                fails.append(f'row {i}: {rl}_label {row.get(rl + "_label")!r} != {a!r}')
            if row.get(f'{rl}_name') != through(level, a, 'name'):
                fails.append(f'row {i}: {rl}_name')
            if li == len(hierarchy) - 1 and row.get(f'{rl}_alias') != through(level, a, 'alias'):
                fails.append(f'row {i}: {rl}_alias')
            if li != len(hierarchy) - 1 and f'{rl}_alias' in row:
                fails.append(f'row {i}: alias column on a non-leaf level')
            s = row.get(f'{rl}_{conf_label}')
            if s is None or not NUM4.match(s) or int(Decimal(s) * 10000) != four_decimals(c[level][conf_key]):
                known = any(word in rl for word in ('name', 'label', 'alias', 'assignment'))
                fails.append(('F12 ' if known else '') + f'row {i}: {rl}_{conf_label} = {s!r} for {c[level][conf_key]!r}')
    if dup:
        fails = ['F31 ' + f for f in fails]
    # comment lines: JSON file, hierarchy, version
    lines, _ = split_comments(case['_csv_text'])
    if case['meta_name'] is not None and (not lines or lines[0] != f'# metadata = {case["meta_name"]}'):
        fails.append('first comment line does not name the JSON file')
    if not any(ln.startswith('# taxonomy hierarchy = ') and json.loads(ln.split(' = ', 1)[1]) == hierarchy
               for ln in lines):
        fails.append('no comment line with the hierarchy')
    if not any(cell_type_mapper.__version__ in ln and 'version' in ln for ln in lines):
        fails.append('no comment line with the version')
    return fails


def blob_numbers(case):
    for c in case['results']:
        for level in case['tree']['hierarchy']:
            if level in c:
                e = c[level]
                yield from [e['bootstrapping_probability'], e['avg_correlation'], e['aggregate_probability']]
                yield from e.get('runner_up_probability', [])
                yield from e.get('runner_up_correlation', [])


def csv_text_input(case, names, csv_args):
    """Model call 1555 (CsvText.blob_to_csv_text, the TEXT of the file): the strings behind the integer names, repr()
    of the numbers (used by the model only in the categorical columns of finding F12), repository and version, then
    the arguments of 1504.  Second result: the blob holds a -0.0 (no fraction carries its sign)."""
    import cell_type_mapper
    name_tbl = [[z, c15_csvtext.enc(st)] for st, z in names.d.items()]
    nums = {}
    for x in blob_numbers(case):
        nums[tuple(rat(x))] = repr(float(x))
    neg_zero = any(float(x) == 0.0 and bool(np.signbit(float(x))) for x in blob_numbers(case))
    # tag 1556 (audit 4, A4): as 1555 WITHOUT the (sticky, categ) lists - the model derives them from the strings by the
    # substring tests of blob_to_csv / blob_to_df (CsvText.sticky_of / categ_of); csv_args[5] is what the harness computes
    # for the structured model 1504
    return (1556, [name_tbl, [[list(k), c15_csvtext.enc(v)] for k, v in nums.items()],
                   [c15_csvtext.enc(cell_type_mapper.__repository__),
                    c15_csvtext.enc(cell_type_mapper.__version__)]] + csv_args[:5] + csv_args[6:]), neg_zero


def csv_model_args(case, names):
    """The arguments of model calls 1504 / 1555 for a case (registers every string of the case in names)."""
    data = case['tree']
    nodes_per_level(data, names)
    for level in data['hierarchy']:
        names(level)
    if case['meta_name'] is not None:
        names(case['meta_name'])
    naming = encode_naming(data, names)
    blob = encode_blob(case, names)
    tbl, readable, sticky, categ, tbl_ok = column_table(case, names)
    algo = {None: 0, True: 1, False: 2}[case['flatten_cfg']]
    return [naming, [names(l) for l in data['hierarchy']],
            [] if case['meta_name'] is None else [names(case['meta_name'])],
            algo, 1 if case['single_iter'] else 0, [sticky, categ], blob]


# ------------------------------------------------------------------ one batch of blob cases
def blob_cases(ctx):
    rng = ctx.rng
    n = ctx.n(400, 8000)
    scratch = ctx.scratch / 'blobs'
    scratch.mkdir()
    (scratch / 'some' / 'dir').mkdir(parents=True)
    cases, observed = [], []
    for i in range(n):
        case = gen_case(rng, malformed=(rng.random() < 0.2))
        assert representable(case)
        cases.append(case)
        observed.append(run_real(case, scratch, i))
    judge(ctx, cases, observed)


def judge(ctx, cases, observed, verbose=False, stream='blob'):
    model_in = []
    names_l = []
    for case in cases:
        names = Names()
        data = case['tree']
        npl = nodes_per_level(data, names)
        for level in data['hierarchy']:
            names(level)
        if case['meta_name'] is not None:
            names(case['meta_name'])
        naming = encode_naming(data, names)
        blob = encode_blob(case, names)
        tbl, readable, sticky, categ, tbl_ok = column_table(case, names)
        case['_tbl_ok'] = tbl_ok
        algo = {None: 0, True: 1, False: 2}[case['flatten_cfg']]
        model_in.append((1501, [npl, case['w'], blob]))
        model_in.append((1503, [npl, case['w'], blob]))
        csv_args = [naming, [names(l) for l in data['hierarchy']],
                    [] if case['meta_name'] is None else [names(case['meta_name'])],
                    algo, 1 if case['single_iter'] else 0, [sticky, categ], blob]
        model_in.append((1504, csv_args))
        txt_in, case['_neg_zero'] = csv_text_input(case, names, csv_args)
        model_in.append(txt_in)
        names_l.append(names)
    res = ctx.model(model_in)
    # second batch: the reader on the file the implementation wrote
    reader_in, reader_idx = [], []
    for k, (case, obs, names) in enumerate(zip(cases, observed, names_l)):
        if 'raw' in obs:
            reader_in.append((1502, encode_raw_h5(obs['raw'], case['tree'], names, case['w'])))
            reader_idx.append(k)
    rres = dict(zip(reader_idx, ctx.model(reader_in)))
    for k, (case, obs, names) in enumerate(zip(cases, observed, names_l)):
        m_h5, m_rt, m_csv, m_txt = res[4 * k], res[4 * k + 1], res[4 * k + 2], res[4 * k + 3]
        hierarchy = case['tree']['hierarchy']
        mal = case['malformed']
        corr, prop = [], []
        # ---- HDF5 writer
        if m_h5[0] == 1:
            if obs.get('h5_err') is None:
                corr.append(f'Output.blob_to_hdf5: model raises {m_h5[1]} but the implementation wrote a file')
            elif ERR.get(obs['h5_err']) != m_h5[1]:
                corr.append(f'Output.blob_to_hdf5: model error {m_h5[1]}, implementation {obs["h5_err"]}: {obs.get("h5_msg")}')
        elif m_h5[0] == 0:
            if 'raw' not in obs:
                (corr if mal else prop).append(
                    f'Output.blob_to_hdf5: implementation raised {obs.get("h5_err")}: {obs.get("h5_msg")}')
            else:
                enc = encode_raw_h5(obs['raw'], case['tree'], names, case['w'])
                if enc != m_h5[1]:
                    corr.append('Output.blob_to_hdf5: datasets differ from the model')
        else:
            corr.append('Output.blob_to_hdf5: model could not decode the case')
        # ---- reader on the real file, and round trip
        if 'raw' in obs:
            mr = rres[k]
            if mr[0] == 1:
                if 'read_err' not in obs or ERR.get(obs['read_err']) != mr[1]:
                    corr.append(f'Output.hdf5_to_blob: model error {mr[1]}, implementation {obs.get("read_err")}')
            elif 'back' not in obs:
                (corr if mal else prop).append(
                    f'Output.hdf5_to_blob: implementation raised {obs.get("read_err")}: {obs.get("read_msg")}')
            else:
                got = encode_results(obs['back']['results'], hierarchy, names)
                if got != mr[1]:
                    corr.append('Output.hdf5_to_blob: blob read back differs from the model')
                if m_rt[0] == 0 and m_rt[1][1][0] == 0 and got != m_rt[1][1][1]:
                    corr.append('Output.hdf5_to_blob: round trip differs from the model round trip')
        blob_ok = m_rt[0] == 0 and bool(m_rt[1][0])
        if not mal and not blob_ok:
            corr.append('Output.blob_ok: a well-formed generated blob does not meet the theorem hypotheses')
        if blob_ok:
            # the property statement: the round trip reproduces everything, bit for bit
            if 'back' not in obs:
                prop.append('hdf5 round trip failed: ' + str(obs.get('h5_msg') or obs.get('read_msg')))
            else:
                back = obs['back']
                if hexify(back['results'], hierarchy) != hexify(case['results'], hierarchy):
                    prop.append('hdf5 round trip does not reproduce the results')
                if not mal:
                    if back['results'] != obs['blob']['results']:
                        prop.append('hdf5 round trip: results compare unequal')
                    rest_a = {kk: vv for kk, vv in back.items() if kk != 'results'}
                    rest_b = {kk: vv for kk, vv in obs['blob'].items() if kk != 'results'}
                    if rest_a != rest_b:
                        prop.append('hdf5 round trip does not reproduce the metadata (config, tree, log, markers)')
            if not (m_rt[1][1][0] == 0 and m_rt[1][1][1] == model_in[4 * k][1][2]):
                corr.append('Output.run_roundtrip: the model round trip is not the identity although blob_ok holds')
        # ---- CSV
        parsed = None
        if m_csv[0] == 1:
            if obs.get('csv_err') is None or ERR.get(obs['csv_err']) != m_csv[1]:
                corr.append(f'Output.blob_to_csv: model error {m_csv[1]}, implementation {obs.get("csv_err")}')
        elif m_csv[0] == 0:
            if 'csv_text' not in obs:
                (corr if mal else prop).append(
                    f'Output.blob_to_csv: implementation raised {obs.get("csv_err")}: {obs.get("csv_msg")}')
            else:
                parsed = parse_csv(obs['csv_text'], case, names)
                if parsed['problems']:
                    prop.append('csv: ' + '; '.join(parsed['problems'][:3]))
                known = []
                csv_matches = [parsed['comments'], parsed['cols'], parsed['rows']] == m_csv[1]
                if csv_matches:
                    # the file, byte for byte, against CsvText.blob_to_csv_text
                    if case['_neg_zero']:
                        ctx.dist('csv file text tie', 'skipped: a -0.0 in the blob (a fraction has no negative zero)')
                    elif m_txt[0] != 0:
                        corr.append(f'CsvText.blob_to_csv_text: model {m_txt} although Output.blob_to_csv succeeds')
                    elif c15_csvtext.dec(m_txt[1][0]) != obs['csv_text']:
                        corr.append('CsvText.blob_to_csv_text: the file differs from the model text: real '
                                    f'{obs["csv_text"]!r} model {c15_csvtext.dec(m_txt[1][0])!r}')
                    else:
                        ctx.dist('csv file text tie', 'byte for byte equal'
                                 + (', table well_shaped for the comment reader' if m_txt[1][2] and m_txt[1][1] else ''))
                        # the hypotheses of c15_csv_text_of_blob_roundtrip (audit 4, A4) evaluated by the model on this real case
                        ctx.dist('csv file text tie', 'hypotheses on the strings: names_defined '
                                 f'{bool(m_txt[1][3])}, readable level strings distinct {bool(m_txt[1][4])}')
                if [parsed['comments'], parsed['cols'], parsed['rows']] != m_csv[1]:
                    hm_ = case['tree'].get('hierarchy_mapper', {})
                    f15_names = any(word in hm_.get(level, level) for level in hierarchy
                                    for word in ('name', 'label', 'alias', 'assignment'))
                    if mal and f15_names:
                        # a MALFORMED blob (runner-up keys on inferred levels, ...) whose level names also trigger
                        # finding F15 (columns chosen by substring of the level name): the extra columns of the
                        # malformation are caught by the substring rule in ways the model of the well-formed
                        # writer does not follow; the disagreement belongs to F15, not to a new defect
                        ctx.violation('blob_to_csv on a malformed blob whose level names contain label/name/alias/assignment',
                                      {'kind': 'blob', 'class': F12, 'problems': ['csv differs from the model (malformed blob x F15 level names)'],
                                       'case': {kk: vv for kk, vv in case.items() if not kk.startswith('_')}})
                    else:
                        corr.append('Output.blob_to_csv: parsed CSV differs from the model')
                complete = all(level in c for c in case['results'] for level in hierarchy)
                if complete and case['results']:
                    case['_csv_text'] = obs['csv_text']
                    fails = csv_property(case, parsed)
                    known = [f for f in fails if f.startswith('F12 ')]
                    known31 = [f for f in fails if f.startswith('F31 ')]
                    prop += ['csv: ' + f for f in fails if not f.startswith(('F12 ', 'F31 '))][:4]
                    case.pop('_csv_text')
                    if known31:
                        ctx.disagreements_checked += 1
                        ctx.dist('duplicate readable level', 'a level is lost (F31)')
                        ctx.violation('two levels with one readable name: the CSV loses the earlier level: '
                                      + '; '.join(known31[:2]),
                                      {'kind': 'blob', 'class': F31, 'problems': known31[:6],
                                       'case': {kk: vv for kk, vv in case.items() if not kk.startswith('_')}})
                    elif len(set(readable_levels(case))) != len(hierarchy):
                        ctx.dist('duplicate readable level', 'same assignments on the merged levels: nothing visible')
                if known:
                    ctx.disagreements_checked += 1
                    ctx.violation('CSV confidence column not printed to four decimals: ' + '; '.join(known[:2]),
                                  {'kind': 'blob', 'class': F12, 'problems': known[:6],
                                   'case': {kk: vv for kk, vv in case.items() if not kk.startswith('_')}})
        else:
            corr.append('Output.blob_to_csv: model could not decode the case')
        if not case['_tbl_ok']:
            corr.append('harness: column names of this case collide')
        # ---- book-keeping
        depth = len(hierarchy)
        n_run = sorted({len(c[l].get('runner_up_assignment', [])) for c in case['results'] for l in hierarchy if l in c})
        quoting = any(ch in s for c in case['results'] for l in hierarchy if l in c
                      for s in [c[l]['assignment'], c['cell_id']] for ch in ',"\n')
        nontriv = (not mal) and depth >= 2 and len(case['results']) >= 2
        ctx.count((stream, k, depth, len(case['results']), case['w'], tuple(case['direct']), tuple(n_run)),
                  nontrivial=nontriv)
        ctx.dist('depth', depth)
        ctx.dist('n_runners_up', case['w'])
        ctx.dist('malformed', mal)
        ctx.dist('levels', 'all-direct' if all(case['direct']) else 'some-inferred')
        ctx.dist('name_tables', ('name_mapper' in case['tree'], 'hierarchy_mapper' in case['tree']))
        ctx.dist('needs_quoting', quoting)
        ctx.dist('single_iteration', case['single_iter'])
        if nontriv and not all(case['direct']) and case['w'] > 0:
            ctx.sample({'hierarchy': hierarchy, 'direct': case['direct'], 'n_runners_up': case['w'],
                        'first_record': case['results'][0]}, limit=2)
        if verbose:
            print(json.dumps({'model_hdf5': m_h5, 'model_roundtrip': m_rt, 'model_csv': m_csv,
                              'model_reader_on_real_file': rres.get(k),
                              'observed': {kk: (vv if kk in ('csv_text', 'h5_err', 'h5_msg', 'csv_err', 'read_err')
                                                else '...') for kk, vv in obs.items()},
                              'correspondence_problems': corr, 'property_failures': prop}, indent=1, default=str)[:6000])
        if corr or prop:
            ctx.disagreements_checked += 1
            rec = {'kind': 'blob', 'case': {kk: vv for kk, vv in case.items() if not kk.startswith('_')},
                   'problems': corr + prop}
            if prop:
                rec['class'] = 'c15:' + prop[0].split(':')[0][:40]
                ctx.violation('C15 fails on a generated blob: ' + '; '.join(prop[:3]), rec)
            else:
                rec['class'] = 'corr:' + corr[0].split(':')[0]
                ctx.violation('model and implementation disagree: ' + '; '.join(corr[:3]), rec, no_input=True)


# ------------------------------------------------------------------ two levels, one readable name (F31)
def gen_dup_case(rng):
    """A well-formed case of depth >= 2 whose hierarchy_mapper sends two (or more) levels to ONE readable name:
    TaxonomyTree accepts it; blob_to_df builds the column names from the readable name."""
    for _ in range(100):
        case = gen_case(rng, malformed=False)
        if len(case['tree']['hierarchy']) >= 2:
            break
    else:
        raise RuntimeError('no case of depth >= 2')
    data = case['tree']
    hierarchy = data['hierarchy']
    hm = dict(data.get('hierarchy_mapper') or {})
    k = rng.choice([2, 2, 2, 3]) if len(hierarchy) >= 3 else 2
    merged = sorted(rng.sample(range(len(hierarchy)), k))
    kind = rng.choice(['pool', 'pool', 'other-level-label'])
    if kind == 'pool':
        target = rng.choice([r for r in READABLE if r not in hierarchy and r not in hm.values()] or ['merged'])
        for i in merged:
            hm[hierarchy[i]] = target
    else:
        # the others are sent to the (unmapped) label of one of the merged levels
        keep = rng.choice(merged)
        hm.pop(hierarchy[keep], None)
        for i in merged:
            if i != keep:
                hm[hierarchy[i]] = hierarchy[keep]
    data['hierarchy_mapper'] = hm
    case['dup_levels'] = merged
    return case


def dup_cases(ctx):
    rng = ctx.rng
    n = ctx.n(60, 1200)
    scratch = ctx.scratch / 'dupblobs'
    scratch.mkdir()
    (scratch / 'some' / 'dir').mkdir(parents=True)
    cases, observed = [], []
    for i in range(n):
        case = gen_dup_case(rng)
        rls = readable_levels(case)
        assert len(set(rls)) < len(rls)
        ctx.dist('duplicate readable level: merged levels', (len(case['tree']['hierarchy']), tuple(case['dup_levels'])))
        try:
            obs_ = run_real(case, scratch, i)
        except RuntimeError as e:
            if 'the same name' in str(e):
                # since /repo 9eca1ef (F31) the validator refuses a hierarchy_mapper that gives two levels one name
                ctx.dist('duplicate readable level: outcome', 'refused by validate_taxonomy_tree')
                ctx.count(('dup-refused', i), nontrivial=True)
                continue
            raise
        ctx.dist('duplicate readable level: outcome', 'ACCEPTED')
        cases.append(case)
        observed.append(obs_)
    if cases:
        judge(ctx, cases, observed, stream='dup')


# ------------------------------------------------------------------ a NaN confidence
def nan_cases(ctx):
    """Outside the model (its numbers are exact fractions) and outside the property (a probability is never NaN;
    avg_correlation only if the data hold a NaN): observed -- the real writer prints an EMPTY confidence field and
    leaves the rest of the row alone."""
    rng = ctx.rng
    scratch = ctx.scratch / 'nanblobs'
    scratch.mkdir()
    (scratch / 'some' / 'dir').mkdir(parents=True)
    for i in range(ctx.n(6, 60)):
        for _ in range(100):
            case = gen_case(rng, malformed=False)
            if not any(w in rl for rl in readable_levels(case) for w in ('name', 'label', 'alias', 'assignment')):
                break
        case['single_iter'] = True
        ic = rng.randrange(len(case['results']))
        level = rng.choice(case['tree']['hierarchy'])
        clean = run_real(case, scratch, 2 * i)
        case['results'][ic][level]['avg_correlation'] = float('nan')
        obs = run_real(case, scratch, 2 * i + 1)
        rec = {'kind': 'nan', 'class': 'corr:nan-confidence-field', 'case': {k: v for k, v in case.items() if k != 'results'}}
        ctx.count(('nan', i), nontrivial=False)
        if 'csv_text' not in obs or 'csv_text' not in clean:
            ctx.violation(f'blob_to_csv raised on a NaN confidence: {obs.get("csv_msg")}', rec, no_input=True)
            continue
        a = list(csv.reader(io.StringIO(split_comments(clean['csv_text'])[1], newline='')))
        b = list(csv.reader(io.StringIO(split_comments(obs['csv_text'])[1], newline='')))
        rl = readable_levels(case)[case['tree']['hierarchy'].index(level)]
        col = a[0].index(f'{rl}_correlation_coefficient')
        want = [list(r) for r in a]
        want[ic + 1][col] = ''
        ctx.dist('NaN confidence', 'written as an empty field' if b == want else 'other')
        if b != want:
            ctx.violation(f'NaN avg_correlation: row {b[ic + 1]!r}, expected {want[ic + 1]!r}', rec, no_input=True)


# ------------------------------------------------------------------ re_order_blob
def reorder_cases(ctx):
    import anndata
    import pandas as pd
    from cell_type_mapper.utils.output_utils import re_order_blob
    rng = ctx.rng
    n = ctx.n(40, 400)
    d = ctx.scratch / 'reorder'
    d.mkdir()
    recs = []
    for i in range(n):
        used = set()
        n_cells = rng.randrange(1, 8)
        ids = [gen_name(rng, used) for _ in range(n_cells)]
        order = list(ids)
        rng.shuffle(order)
        kind = rng.choice(['perm', 'perm', 'perm', 'dup_in_blob', 'missing', 'subset'])
        blob_ids = list(ids)
        if kind == 'dup_in_blob':
            blob_ids.append(rng.choice(ids))
        elif kind == 'missing' and n_cells > 1:
            blob_ids.remove(rng.choice(ids))
        elif kind == 'subset' and n_cells > 1:
            order = order[:-1]
        blob = [{'cell_id': c, 'tag': j} for j, c in enumerate(blob_ids)]
        p = d / f'q{i}.h5ad'
        with warnings.catch_warnings():
            warnings.simplefilter('ignore')
            a = anndata.AnnData(X=np.zeros((len(order), 2), dtype=np.float32),
                                obs=pd.DataFrame(index=pd.Index(order)),
                                var=pd.DataFrame(index=pd.Index(['g0', 'g1'])))
            a.write_h5ad(p)
        try:
            out = re_order_blob(results_blob=copy.deepcopy(blob), query_path=p)
            o = [0, [[c['cell_id'], c['tag']] for c in out]]
        except Exception as e:
            o = [1, ERR.get(exc_class(e), 99)]
        p.unlink()
        recs.append((kind, blob, order, o))
    cases = []
    nl = []
    for kind, blob, order, o in recs:
        names = Names()
        # the record's payload is carried as its (single) level's assignment
        mb = [[names(c['cell_id']), [[c['tag'], [0, 1], [0, 1], [0, 1], True, []]]] for c in blob]
        cases.append((1505, [mb, [names(c) for c in order]]))
        nl.append(names)
    res = ctx.model(cases)
    for k, ((kind, blob, order, o), r, names) in enumerate(zip(recs, res, nl)):
        ctx.count(('reorder', k, kind, len(order)), nontrivial=(kind == 'perm' and len(order) >= 3))
        ctx.dist('re_order_blob', kind)
        if o[0] == 0:
            got = [0, [[names.get(c), [[t, [0, 1], [0, 1], [0, 1], 1, []]]] for c, t in o[1]]]
        else:
            got = o
        rec = {'kind': 'reorder', 'blob': blob, 'order': order, 'observed': o, 'model': r}
        if got != r:
            ctx.disagreements_checked += 1
            rec['class'] = 'corr:Output.re_order_blob'
            ctx.violation('re_order_blob and its model disagree', rec, no_input=True)
        if kind == 'perm':
            # property: one record per cell, in query order
            if o[0] != 0 or [c for c, _ in o[1]] != order:
                rec['class'] = 'c15:rows-not-in-query-order'
                ctx.violation('re_order_blob does not return the records in query order', rec)


# ------------------------------------------------------------------ the embedded taxonomy
def tree_cases(ctx):
    from cell_type_mapper.taxonomy.taxonomy_tree import TaxonomyTree
    rng = ctx.rng
    n = ctx.n(150, 3000)
    recs = []
    for i in range(n):
        data = gen_tree(rng)
        leaf = data['hierarchy'][-1]
        row = 0
        for nme in data[leaf]:
            k = rng.randrange(0, 4)
            data[leaf][nme] = list(range(row, row + k))
            row += k
        t = TaxonomyTree(data=copy.deepcopy(data))
        s = t.to_str(drop_cells=True)
        t2 = TaxonomyTree.from_str(s)
        embedded = json.loads(TaxonomyTree(data=json.loads(s)).to_str())     # what run_mapping stores
        recs.append((data, t, t2, embedded))
    cases, nl = [], []
    for data, t, t2, embedded in recs:
        names = Names()
        enc = [[[names(nd), [names(c) if li + 1 < len(data['hierarchy']) else c for c in ch]]
                for nd, ch in data[level].items()] for li, level in enumerate(data['hierarchy'])]
        cases.append((1506, enc))
        nl.append((names, enc))
    res = ctx.model(cases)
    eq_cases = []
    for (data, t, t2, embedded), r, (names, enc) in zip(recs, res, nl):
        eq_cases.append((1507, [r[1], enc]))
    eres = ctx.model(eq_cases)
    for k, ((data, t, t2, embedded), r, e, (names, enc)) in enumerate(zip(recs, res, eres, nl)):
        hierarchy = data['hierarchy']
        ctx.count(('tree', k, len(hierarchy)), nontrivial=len(hierarchy) >= 2)
        ctx.dist('tree_depth', len(hierarchy))
        got = [[[names.get(nd), [names.get(c) for c in ch]] for nd, ch in embedded[level].items()]
               for level in hierarchy]
        rec = {'kind': 'tree', 'tree': data, 'embedded': embedded, 'model': r}
        prop = []
        expect = copy.deepcopy(data)
        for nme in expect[hierarchy[-1]]:
            expect[hierarchy[-1]][nme] = []
        if embedded != expect:
            prop.append('embedded taxonomy differs from the input taxonomy without its cell lists')
        if not t2.is_equal_to(t) or t2.hierarchy != t.hierarchy:
            prop.append('from_str(to_str(drop_cells=True)) is not equal to the input tree')
        if any(len(v) for v in embedded[hierarchy[-1]].values()):
            prop.append('cell lists survive drop_cells')
        if prop:
            rec['class'] = 'c15:tree-not-reconstructed'
            ctx.violation('; '.join(prop), rec)
        elif r != [0, got] or e != [0, 1]:
            ctx.disagreements_checked += 1
            rec['class'] = 'corr:Tree.drop_cells'
            ctx.violation('to_str(drop_cells=True) and Tree.drop_cells disagree', rec, no_input=True)


def run(ctx):
    ctx.rule = ('generated result blobs: depth 1-5, 1-9 cells, name/alias/hierarchy tables present or absent, node / '
                'cell / level names with commas, quotes, newlines, tabs, #, non-ASCII; n_runners_up in {0,1,2,3,5} '
                'with 0..k runners-up per cell and level (more requested than present included); all levels direct, '
                'flattened (only the leaf direct) or some levels inferred; 25% single-iteration runs; floats include '
                'exact ties of the 4-decimal rounding, +-0.0, tiny negatives; a separate stream of taxonomies whose '
                'hierarchy_mapper gives 2-3 levels one readable name; 20% malformed blobs (non-uniform flags, '
                'too many runners-up, unknown nodes, runner-up keys on inferred levels / absent on direct ones, '
                'missing / extra levels, empty result list) compared with the model only. '
                '(ii) the JSON / CSV / HDF5 files and the embedded taxonomy of real run_mapping runs (incl. flatten and drop_level). '
                'non-trivial = well-formed blob with >= 2 levels and >= 2 cells / permutation of >= 3 ids / tree '
                'with >= 2 levels')
    ctx.assumptions += [
        'floats are finite (no NaN / inf: NaN != NaN makes "reproduces" meaningless)',
        'node, level and cell names are non-empty strings without NUL and are not all-whitespace; cell ids do not end '
        'in NUL (numpy S-dtype strips trailing NULs)',
        'the per-level dicts carry their keys in the order the mapper creates them (assignment, '
        'bootstrapping_probability, avg_correlation, runner_up_*, aggregate_probability, directly_assigned); only the '
        'order of the extra columns of a level whose readable name contains name/label/alias depends on it',
        'readable level names are pairwise distinct (hypothesis of c15_csv_rows) in the main stream; a separate '
        'stream gives two or three levels ONE readable name (hierarchy_mapper, accepted by TaxonomyTree): model and '
        'code are compared as everywhere, the loss of the earlier level is finding F31; no column name of one '
        'readable level equals one of another (checked per case)',
        'the blob holds no NaN (the model\'s numbers are exact fractions): a probability is a ratio of vote counts; '
        'avg_correlation is NaN only if the expression data hold a NaN (constant rows give 0 by the convention of '
        'distance_utils); a NaN confidence is written as an EMPTY field (observed in a small stream, not judged)',
        'the byte-for-byte tie of the file text (tag 1556: sticky / categorical levels derived by the model from the strings) leaves out blobs holding a -0.0 (printed -0.0000 by the '
        'real code; the model\'s fraction 0/1 has no sign: covered on doubles by tag 1552, fmt4_text true 0 0)',
        'pandas CSV quoting and %.4f, gzip, h5py and json float printing are trusted (modelled as identity / exact '
        'round-half-even of the binary value)',
        'the embedded marker table (C08 reported_equals_used) is not part of this check',
    ]
    blob_cases(ctx)
    reorder_cases(ctx)
    tree_cases(ctx)
    c15_csvtext.run_part(ctx)
    dup_cases(ctx)
    nan_cases(ctx)
    # (ii) the three files of real mapping runs (hierarchical, flattened, with a dropped level): the HDF5 output read
    # back and the CSV tell the JSON's story, the embedded taxonomy is the stored taxonomy without its cells
    from harness import mapcheck
    mapcheck.run_batch(ctx, ctx.n(14, 150), ('c15-',), 'files', max_levels=4)


def replay(ctx, rec):
    import pathlib
    if rec.get('kind') != 'blob':
        print(json.dumps(rec, indent=1, default=str)[:6000])
        return 0
    case = rec['case']
    scratch = ctx.scratch / 'blobs'
    scratch.mkdir()
    (scratch / 'some' / 'dir').mkdir(parents=True)
    obs = run_real(case, scratch, 0)
    judge(ctx, [case], [obs], verbose=True)
    return ctx.finish()
