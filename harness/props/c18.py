"""C18 — the stages compose: cluster centroids map back to themselves."""
import contextlib
import io
import json
import math
import shutil

import h5py
import numpy as np

from harness import gen, trees, pipeline, mapcheck
from harness.props import c18_refside


# The reference cells are float32 and the stored centroid (sum / n) carries single-precision rounding: it equals the
# true mean profile only to ~ 2^-24 relative (measured ~1e-6 absolute, see the 1e-4 test below).  On a drawn subset
# whose centroid values all lie within 1e5 * 2^-24 (relative) of each other, that noise moves the correlation of the
# query with its OWN stored centroid away from 1 by more than the 1e-9 tested here ((noise/spread)^2): such a subset
# is a near-tie in the sense of DESIGN section 3 - counted and skipped, like the exactly flat one (F6).
NEAR_FLAT = 1.0e5 * 2.0 ** -24


STYLES = ['padded', 'cl-unpadded', 'bare-unpadded', 'case', 'spaces']


def _numbers(rng, n):
    """n distinct unpadded positive numbers; for n >= 2 one of them is a single digit >= 2 and one has two digits, so
    that the string order of the names ('cl10' < 'cl2') differs from their numeric order."""
    if n < 2:
        return [rng.randrange(1, 13)]
    hi, lo = rng.randrange(10, 13), rng.randrange(2, 10)
    rest = [x for x in range(1, max(15, n + 3)) if x not in (hi, lo)]
    out = [hi, lo] + rng.sample(rest, n - 2)
    rng.shuffle(out)
    return out


def name_table(rng, gt, style):
    """The names under which the nodes of the generated tree are written: {(level index, node int): name} and the
    level names.  trees.GenTree knows only the zero-padded 'nNNN' names; every other style is a consistent renaming,
    and the check compares assignments BY NAME through this table."""
    L = len(gt.levels)
    nm = {}
    if style == 'padded':
        lv = list(gt.levels)
    elif style == 'spaces':
        lv = [f'tax level {i}' for i in range(L)]
    elif style == 'case':
        lv = ['Class', 'class', 'CLASS', 'cLass'][:L]
    else:
        lv = [['class', 'subclass', 'supertype', 'cluster'][4 - L + i] for i in range(L)]
    one_prefix = rng.random() < 0.5
    word = rng.choice(['pvalb', 'astro', 'micro'])
    for li, level in enumerate(gt.model):
        ids = [x for x, _ in level]
        n = len(ids)
        if style == 'padded':
            names = [gt.name(x) for x in ids]
        elif style == 'cl-unpadded':
            pre = 'cl' if one_prefix else ['cl', 'sub', 'st', 'grp'][(L - 1 - li) % 4]
            names = [f'{pre}{m}' for m in _numbers(rng, n)]
        elif style == 'bare-unpadded':
            names = [f'{m}' for m in _numbers(rng, n)]
        elif style == 'case':
            w = word if one_prefix else rng.choice(['pvalb', 'astro', 'micro'])
            names = [''.join(c.upper() if (bits >> j) & 1 else c for j, c in enumerate(w))
                     for bits in rng.sample(range(2 ** len(w)), n)]
        else:
            stems = ['L2 3 IT', 'Sst Chodl', 'Astro  TE', 'my cluster', 'a b']
            names = [f'{rng.choice(stems)} {m}' for m in _numbers(rng, n)]
        assert len(set(names)) == n
        for x, name in zip(ids, names):
            nm[(li, x)] = name
    return nm, lv


def leaves_below(gt, li, node):
    cur = [node]
    for lj in range(li, len(gt.levels) - 1):
        kids = dict((x, c) for x, c in gt.model[lj])
        cur = [c for x in cur for c in kids[x]]
    return cur


def branches(gt):
    """the internal nodes (level index, node) below which all leaves can be emptied while two leaves keep their cells"""
    return [(li, x) for li in range(len(gt.levels) - 1) for x, _ in gt.model[li]
            if gt.n_leaves() - len(leaves_below(gt, li, x)) >= 2]


def build_reference(ctx, rng, d, k, info):
    """Generated separable reference -> statistics -> reference markers -> query markers,
    all through the pipeline's own stage functions.  `info` receives the description of the case as it is built, so
    that a stage failure can be reported with its input."""
    from cell_type_mapper.diff_exp.precompute_from_anndata import (
        precompute_summary_stats_from_h5ad, precompute_summary_stats_from_h5ad_list_and_tree)
    from cell_type_mapper.diff_exp.markers import find_markers_for_all_taxonomy_pairs
    from cell_type_mapper.type_assignment.marker_cache_v2 import create_marker_gene_lookup_from_ref_list
    from cell_type_mapper.taxonomy.taxonomy_tree import TaxonomyTree
    big = rng.random() < 0.15
    gt = trees.random_tree(rng, max_levels=rng.choice([1, 2, 3, 4]), max_leaves=11 if big else 6, p_single=0.25)
    mode = ['none', 'leaf', 'any'][k % 3]
    if mode == 'any':
        mode = rng.choice(['none', 'leaf', 'branch', 'branch'])
    for _ in range(8):
        # a case that is to have an empty leaf needs three leaves (two keep their cells), an empty branch a node whose
        # removal leaves two
        if mode == 'none' or (mode == 'leaf' and gt.n_leaves() >= 3) or (mode == 'branch' and branches(gt)):
            break
        gt = trees.random_tree(rng, max_levels=rng.choice([2, 3, 4]), max_leaves=8, p_single=0.25)
    info['n_leaves'] = gt.n_leaves()
    style = STYLES[k % len(STYLES)]
    nm, lv = name_table(rng, gt, style)
    inv = {(li, name): x for (li, x), name in nm.items()}
    leaves = [n for n, _ in gt.model[-1]]
    L = len(gt.levels)
    # leaves (or a whole branch) without any cell in the reference; at least two leaves keep their cells (with a single
    # non-empty leaf there is nothing to separate: no marker exists anywhere and mapping refuses the lookup)
    empty = []
    if mode == 'branch':
        cand = branches(gt)
        if cand:
            empty = leaves_below(gt, *rng.choice(cand))
        else:
            mode = 'leaf'
    if mode == 'leaf' and len(leaves) >= 3:
        empty = rng.sample(leaves, min(len(leaves) - 2, rng.choice([1, 1, 2])))
    if not empty:
        mode = 'none'
    entry = rng.choice(['tree-rows', 'tree-names']) if empty else rng.choice(['columns', 'columns', 'columns', 'tree-rows', 'tree-names'])
    # how a leaf comes to be empty: no cell listed; cells listed that are not in the file; cells of the file that the
    # cell_set restriction of the statistics stage leaves out
    how = {lf: (rng.choice(['no-cells', 'absent-cells', 'cell-set']) if entry == 'tree-names' else 'no-cells') for lf in empty}
    info.update({'names': style, 'levels': lv, 'empty_mode': mode, 'entry': entry,
                 'empty_leaves': {nm[(L - 1, lf)]: how[lf] for lf in empty}})
    ng = rng.randrange(16, 30)
    prof = {lf: [rng.choice([0, 0, 0, 20, 50, 200]) for _ in range(ng)] for lf in leaves}
    rows, labels, owner, used = [], [], [], []
    for lf in leaves:
        if lf in how and how[lf] != 'cell-set':
            continue
        for _ in range(rng.randrange(4, 8)):
            rows.append([max(0, p + rng.randrange(-2, 3)) if p > 0 else rng.choice([0, 0, 0, 1]) for p in prof[lf]])
            lab = [None] * L
            lab[L - 1] = nm[(L - 1, lf)]
            cur = lf
            for li in range(L - 1, 0, -1):
                cur = mapcheck.parent_of(gt.model, li, cur)
                lab[li - 1] = nm[(li - 1, cur)]
            labels.append(lab)
            owner.append(lf)
            used.append(lf not in how)
    if entry != 'columns':
        for _ in range(rng.choice([0, 0, 1, 3])):      # cells of the file that belong to no cluster of the taxonomy
            rows.append([rng.choice([0, 0, 5, 90]) for _ in range(ng)])
            labels.append(None)
            owner.append(None)
            used.append(False)
    order = list(range(len(rows)))
    rng.shuffle(order)
    M = np.array([rows[i] for i in order], dtype=np.float32)
    owner = [owner[i] for i in order]
    used = [used[i] for i in order]
    cells = [f'r{i}' for i in range(len(rows))]
    obs = {lv[i]: [labels[j][i] for j in order] for i in range(L)} if entry == 'columns' else None
    genes = [pipeline.gname(g) for g in range(ng)]
    gen.write_h5ad(d / 'ref.h5ad', M, cells, genes, encoding=rng.choice(['csr', 'csc', 'dense']), obs_cols=obs)
    # the taxonomy under its written names
    data = {'hierarchy': list(lv)}
    for li in range(L):
        this = {}
        for key, val in gt.data[gt.levels[li]].items():
            x = trees.GenTree.num(key)
            if li < L - 1:
                this[nm[(li, x)]] = [nm[(li + 1, trees.GenTree.num(c))] for c in val]
            elif entry == 'tree-rows':
                this[nm[(li, x)]] = [i for i, o in enumerate(owner) if o == x]
            elif how.get(x) == 'absent-cells':
                this[nm[(li, x)]] = [f'absent{x}_{j}' for j in range(rng.randrange(1, 4))]
            else:
                this[nm[(li, x)]] = [cells[i] for i, o in enumerate(owner) if o == x]
        data[lv[li]] = this
    info['tree'] = data
    cell_set = None
    if any(h == 'cell-set' for h in how.values()):
        cell_set = set(c for c, u in zip(cells, used) if u) | {'r_not_in_any_file'}
    buf = io.StringIO()
    with contextlib.redirect_stdout(buf), contextlib.redirect_stderr(buf):
        info['stage'] = 'statistics'
        kw = dict(rows_at_a_time=rng.randrange(3, 12), normalization='raw', tmp_dir=str(d), n_processors=rng.randrange(1, 4))
        if entry == 'columns':
            precompute_summary_stats_from_h5ad(d / 'ref.h5ad', list(lv), None, d / 'stats.h5', **kw)
        elif entry == 'tree-rows':
            precompute_summary_stats_from_h5ad(d / 'ref.h5ad', None, TaxonomyTree(data=data), d / 'stats.h5', **kw)
        else:
            precompute_summary_stats_from_h5ad_list_and_tree([d / 'ref.h5ad'], TaxonomyTree(data=data), d / 'stats.h5',
                                                             cell_set=cell_set, **kw)
        info['stage'] = 'reference markers'
        tree = TaxonomyTree.from_precomputed_stats(d / 'stats.h5')
        find_markers_for_all_taxonomy_pairs(d / 'stats.h5', tree, d / 'refm.h5', n_processors=rng.randrange(1, 4),
                                            tmp_dir=str(d), max_gb=1)
        # what cli/reference_markers.py adds to the file it writes
        with h5py.File(d / 'refm.h5', 'a') as f:
            f.create_dataset('metadata', data=json.dumps({'precomputed_path': str(d / 'stats.h5')}).encode('utf-8'))
        qgenes = list(genes)
        rng.shuffle(qgenes)
        info['stage'] = 'query markers'
        lookup = create_marker_gene_lookup_from_ref_list([str(d / 'refm.h5')], qgenes, n_per_utility=rng.randrange(2, 6),
                                                         n_per_utility_override=None, n_processors=rng.randrange(1, 4),
                                                         behemoth_cutoff=rng.choice([0, 1000]), tmp_dir=str(d))
    lookup = {k: v for k, v in lookup.items() if k not in ('metadata', 'log')}
    with open(d / 'markers.json', 'w') as f:
        json.dump(lookup, f)
    # the TRUE centroids of the non-empty leaves, computed here directly from the reference cells (not read back from
    # the statistics file, which is one of the products under test); an empty leaf has no centroid
    tot = M.astype(np.float64).sum(axis=1, keepdims=True)
    logcpm = np.log2(1.0 + M.astype(np.float64) * 1.0e6 / np.where(tot > 0, tot, 1.0))
    truth, ncell = {}, {}
    for lf in leaves:
        sel = [i for i, o in enumerate(owner) if o == lf and used[i]]
        ncell[nm[(L - 1, lf)]] = len(sel)
        if sel:
            truth[nm[(L - 1, lf)]] = logcpm[sel].mean(axis=0)
    return gt, nm, lv, inv, genes, qgenes, lookup, truth, ncell


def run(ctx):
    rng = ctx.rng
    ctx.rule = ('the four real stages chained on generated separable references (statistics from raw counts, reference '
                'markers, query marker selection, mapping); the query holds, per NON-empty leaf, the mean log2(CPM+1) profile '
                'computed from the reference cells, written in shuffled gene order and declared log2CPM; factors '
                '{0.25,0.5,0.9,1}; node / level names in five styles (zero-padded, unpadded numbered with a two-digit number '
                '"cl2"/"cl10", bare numbers "2"/"10", names differing only in case, names with spaces), assignments compared BY '
                'NAME through the name table; taxonomies with leaves or a whole branch without any cell in the reference (no '
                'cell listed / listed cells absent from the file / cells left out by cell_set), given to the statistics stage '
                'through its TaxonomyTree entry points (row indices or cell names) besides the obs-column entry point; the '
                'proviso of the property is evaluated from the recorded subsets; non-trivial = a centroid cell at a node '
                'with >= 2 children')
    ctx.assumptions += ['the reference-marker file gets the metadata dataset {precomputed_path} that cli/reference_markers.py '
                        'writes (the argschema CLI itself cannot be constructed in this environment)',
                        'separable clusters: a generated reference for which the marker stages find no gene at all for a node '
                        'with >= 2 children is outside the quantifier; mapping must then refuse the lookup with "has no valid '
                        'markers" (validate_marker_lookup; "no valid marker genes could be found at any level" when the whole table '
                        'is empty) - counted in the distribution, not compared',
                        'a drawn subset on which the centroid values lie within 1e5 * 2^-24 (relative) of each other is a '
                        'near-tie: the single-precision rounding of the stored centroid then moves the correlation with the '
                        'own centroid by more than the 1e-9 tested; counted and skipped (the exactly flat subset is finding F6)',
                        'an empty leaf (no cell in the reference) has no centroid: the statement is evaluated for the centroids of '
                        'the non-empty leaves, which must be recovered with the empty leaves present in the taxonomy (an empty '
                        'leaf has the all-zero profile, flat on every subset, so it never falls under "perfectly correlated"); '
                        'every taxonomy keeps at least two non-empty leaves (with one, no marker exists anywhere)',
                        'node names do not contain "/" (the marker table addresses parents as "level/node")']
    n = ctx.n(15, 120)
    slot = 0
    # name style, empty-leaf mode and factor rotate with `slot`; a taxonomy with fewer than two leaves (finding F12:
    # the marker stage raises) is generated and run as before but does not use up a slot
    for k in range(2 * n):
        if slot >= n:
            break
        d = ctx.scratch / f's{k}'
        d.mkdir()
        info = {}
        this_slot = slot
        try:
            try:
                gt, nm, lv, inv, genes, qgenes, lookup, truth, ncell = build_reference(ctx, rng, d, this_slot, info)
            finally:
                if info.get('n_leaves', 2) >= 2:
                    slot += 1
        except Exception as e:
            ctx.count(('c18', k, 'stage-failure'), nontrivial=False)
            import traceback
            tb = traceback.format_exc()
            cls = 'c18-stage-chain'
            if isinstance(e, UnboundLocalError) and 'this_cluster_stats' in str(e):
                cls = 'F12-no-leaf-pair-reference-markers'
            elif isinstance(e, ValueError) and 'chunk dimensions must be positive' in str(e) and \
                    ('_merge_sparse_by_pair_files' in tb or 'add_sparse_by_gene_markers_to_file' in tb):
                # regression of the REPAIRED finding F17 (kind "fixed": suppresses nothing): a reference without any
                # up- (or down-) regulated marker must give a marker file with an empty direction
                cls = 'F17-no-marker-in-one-direction-raises'
            ctx.dist('names', info.get('names'))
            ctx.violation(f'stage "{info.get("stage")}" rejected its input / the output of the previous stage: '
                          f'{type(e).__name__}: {" ".join(str(e).split())}'[:600],
                          dict(info, **{'class': cls, 'error': f'{type(e).__name__}: {e}', 'traceback': tb[-1500:]}))
            shutil.rmtree(d, ignore_errors=True)
            continue
        ctx.dist('names', info['names'])
        ctx.dist('empty', 'none' if not info['empty_leaves'] else
                 f"{info['empty_mode']}: " + ','.join(sorted(set(info['empty_leaves'].values()))))
        ctx.dist('statistics entry point', info['entry'])
        with h5py.File(d / 'stats.h5', 'r') as f:
            rowof = json.loads(f['cluster_to_row'][()].decode())
            cols = json.loads(f['col_names'][()].decode())
            stored_n = f['n_cells'][()]
            means = f['sum'][()] / np.maximum(1, stored_n)[:, None]
        L = len(gt.levels)
        all_leaves = [nm[(L - 1, n)] for n, _ in gt.model[-1]]
        # the statement concerns the centroids of the NON-empty leaves (an empty leaf has no centroid)
        leaves = [lf for lf in all_leaves if lf in truth]
        # every leaf of the taxonomy has its row, by name, with the number of its cells (0 for an empty leaf)
        bad_n = {lf: (int(stored_n[rowof[lf]]) if lf in rowof else None, ncell[lf]) for lf in all_leaves
                 if lf not in rowof or int(stored_n[rowof[lf]]) != ncell[lf]}
        if bad_n or sorted(rowof) != sorted(all_leaves):
            ctx.violation(f'the statistics file does not hold the cell counts of the leaves by name: (stored, true) = {bad_n}, '
                          f'rows {sorted(rowof)}', dict(info, **{'class': 'c18-stored-centroid-wrong', 'n_cells': bad_n}))
        pos = [cols.index(g) for g in qgenes]
        gpos = [genes.index(g) for g in qgenes]
        Q = np.array([truth[lf][gpos] for lf in leaves])
        # the statistics file must hold these centroids (C09); a difference beyond float noise is reported here too,
        # because the property is about the TRUE mean profile
        worst = max(float(np.max(np.abs(means[rowof[lf]][pos] - truth[lf][gpos]))) for lf in leaves)
        if worst > 1e-4:      # the reference is float32: the stored means carry single-precision rounding (~1e-6)
            ctx.violation(f'the statistics file does not hold the cluster centroids: max |stored mean - true mean| = {worst}',
                          dict(info, **{'class': 'c18-stored-centroid-wrong', 'max_abs_difference': worst,
                                        'leaves': leaves}))
        cell_ids = [f'centroid_{lf}' for lf in leaves]
        gen.write_h5ad(d / 'query.h5ad', Q, cell_ids, qgenes, encoding=rng.choice(['dense', 'csr']))
        factor = [1.0, 0.5, 0.9, 0.25][this_slot % 4]          # every factor in every tier
        rng.random()
        cfg = pipeline.config_for(d, d / 'query.h5ad', d / 'stats.h5', d / 'markers.json',
                                  bootstrap_factor=factor, bootstrap_iteration=rng.choice([3, 10]),
                                  rng_seed=rng.randrange(10 ** 6), n_processors=rng.randrange(1, 4),
                                  chunk_size=rng.randrange(1, 6), n_runners_up=2, min_markers=rng.choice([1, 3]))
        res = pipeline.run_mapping(cfg, trace_dir=d / 'trace')
        desc = dict(info, **{'kind': 'centroid-run', 'lookup': lookup, 'factor': factor,
                             'config': {kk: cfg['type_assignment'][kk] for kk in cfg['type_assignment']}})
        if not res['ok'] and ('has no valid markers' in str(res['error']) or
                              ('no valid marker genes could be found at any level' in str(res['error'])
                               and not any(lookup.values()))):
            # not separable: the marker stages found NO gene for a node that has a choice (e.g. two clusters whose
            # differing genes all fail the criteria), and mapping refuses such a lookup by design
            # (validate_marker_lookup; when the marker table is empty altogether - the root has a single child and no
            # node below it got a gene - create_marker_cache_from_specified_markers refuses it first with "no valid
            # marker genes could be found at any level").  Outside the quantifier ("separable clusters"); counted, not
            # compared.
            choice = ['None' if len(gt.model[0]) >= 2 else None]
            for li in range(len(gt.levels) - 1):
                choice += [f'{lv[li]}/{nm[(li, n)]}' for n, ch in gt.model[li] if len(ch) >= 2]
            if any(c is not None and not lookup.get(c) for c in choice):
                ctx.count(('c18', k, 'not-separable'), nontrivial=False)
                ctx.dist('reference', 'not-separable (no marker at a node with a choice): mapping refuses, skipped')
                shutil.rmtree(d, ignore_errors=True)
                continue
        if not res['ok']:
            ctx.count(('c18', k, 'run-failure'), nontrivial=False)
            desc['class'] = 'c18-stage-chain'
            desc['error'] = res['error']
            ctx.violation(f'mapping rejected the products of the earlier stages: {res["error"]}', desc)
            shutil.rmtree(d, ignore_errors=True)
            continue
        # recorded subsets per (chunk, parent)
        trace = res['trace']
        chunk_of, nodes_ev, subs_ev = {}, {}, {}
        for ev in trace:
            if ev['ev'] == 'chunk':
                for cname in ev['names']:
                    chunk_of[cname] = tuple(ev['chunk'])
            else:
                key = (tuple(ev['chunk']), None if ev.get('parent') is None else tuple(ev['parent']))
                (nodes_ev if ev['ev'] == 'node' else subs_ev)[key] = ev
        by = {r['cell_id']: r for r in res['output']['results']}
        qpos = {g: j for j, g in enumerate(qgenes)}
        for lf, cid in zip(leaves, cell_ids):
            r = by[cid]
            # expected path
            path = [inv[(L - 1, lf)]]
            for li in range(len(gt.levels) - 1, 0, -1):
                path.insert(0, mapcheck.parent_of(gt.model, li, path[0]))
            parent = None
            for li, lvn in enumerate(lv):
                kids = [x for x, _ in gt.model[0]] if parent is None else dict((x, c) for x, c in gt.model[li - 1])[parent[1]]
                a = r[lvn]
                if len(kids) >= 2:
                    key = (chunk_of[cid], None if parent is None else (lv[parent[0]], nm[parent]))
                    nev, sev = nodes_ev[key], subs_ev[key]
                    gcols = [qpos[g] for g in nev['genes']]
                    qv = Q[cell_ids.index(cid)][gcols]
                    refv = np.array([means[rowof[x]][[cols.index(g) for g in nev['genes']]] for x in nev['leaves']])
                    me = nev['leaves'].index(lf)
                    # proviso: on every drawn subset the centroid is not flat and no other leaf correlates perfectly
                    proviso, flat, near_flat = True, False, False
                    for S in sev['subsets']:
                        qs = qv[S]
                        if np.ptp(qs) == 0:
                            flat = True
                            continue
                        if np.ptp(qs) < NEAR_FLAT * max(1.0, float(np.max(np.abs(qs)))):
                            near_flat = True        # the spread is within the rounding noise of the stored centroid
                        for j in range(len(nev['leaves'])):
                            if j == me:
                                continue
                            rs = refv[j][S]
                            if np.ptp(rs) == 0:
                                continue
                            c = np.corrcoef(qs, rs)[0, 1]
                            if c > 1 - 1e-9:
                                proviso = False
                    ctx.count(('c18', k, cid, lvn), nontrivial=True)
                    ctx.dist('factor', factor)
                    ctx.dist('proviso', 'near-flat-subset (skipped)' if near_flat and not flat else
                             ('holds' if proviso and not flat else ('flat-subset' if flat else 'other-leaf-perfect')))
                    if near_flat and not flat:
                        pass                    # near-tie: counted in the distribution above, not compared
                    elif proviso:
                        ok = (inv.get((li, a['assignment'])) == path[li] and abs(a['bootstrapping_probability'] - 1) < 1e-12
                              and abs(a['avg_correlation'] - 1) < 1e-9)
                        if not ok:
                            ctx.disagreements_checked += 1
                            dd = dict(desc)
                            dd.update({'cell': cid, 'level': lvn, 'record': a, 'subsets': sev['subsets'], 'genes': nev['genes'],
                                       'centroid_on_genes': qv.tolist()})
                            dd['class'] = 'F6-centroid-flat-on-a-drawn-subset' if flat else 'c18-centroid-not-recovered'
                            ctx.violation(f'centroid {cid} level {lvn}: got {a["assignment"]!r} p={a["bootstrapping_probability"]} '
                                          f'corr={a["avg_correlation"]}, expected {nm[(li, path[li])]!r} with p=1, corr=1', dd)
                        else:
                            ctx.traces_validated += 1
                # follow the EXPECTED path only while the implementation agrees
                if inv.get((li, a['assignment'])) != path[li]:
                    break
                parent = (li, path[li])
        if k < 2:
            ctx.sample(dict(info, n_genes=len(genes), lookup=lookup, factor=factor))
        shutil.rmtree(d, ignore_errors=True)
    c18_refside.run(ctx)      # reference side of get_leaf_means / assemble_query_data vs Model/RefSide.v


def replay(ctx, rec):
    print(json.dumps(rec, indent=1)[:6000])
    return 0
