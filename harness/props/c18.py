"""C18 — the stages compose: cluster centroids map back to themselves."""
import contextlib
import io
import json
import math
import shutil

import h5py
import numpy as np

from harness import gen, trees, pipeline, mapcheck


# The reference cells are float32 and the stored centroid (sum / n) carries single-precision rounding: it equals the
# true mean profile only to ~ 2^-24 relative (measured ~1e-6 absolute, see the 1e-4 test below).  On a drawn subset
# whose centroid values all lie within 1e5 * 2^-24 (relative) of each other, that noise moves the correlation of the
# query with its OWN stored centroid away from 1 by more than the 1e-9 tested here ((noise/spread)^2): such a subset
# is a near-tie in the sense of DESIGN section 3 - counted and skipped, like the exactly flat one (F6).
NEAR_FLAT = 1.0e5 * 2.0 ** -24


def build_reference(ctx, rng, d):
    """Generated separable reference -> statistics -> reference markers -> query markers,
    all through the pipeline's own stage functions."""
    from cell_type_mapper.diff_exp.precompute_from_anndata import precompute_summary_stats_from_h5ad
    from cell_type_mapper.diff_exp.markers import find_markers_for_all_taxonomy_pairs
    from cell_type_mapper.type_assignment.marker_cache_v2 import create_marker_gene_lookup_from_ref_list
    from cell_type_mapper.taxonomy.taxonomy_tree import TaxonomyTree
    gt = trees.random_tree(rng, max_levels=rng.choice([1, 2, 3, 4]), max_leaves=6, p_single=0.25)
    leaves = [n for n, _ in gt.model[-1]]
    ng = rng.randrange(16, 30)
    prof = {lf: [rng.choice([0, 0, 0, 20, 50, 200]) for _ in range(ng)] for lf in leaves}
    rows, labels = [], []
    L = len(gt.levels)
    for lf in leaves:
        for _ in range(rng.randrange(4, 8)):
            rows.append([max(0, p + rng.randrange(-2, 3)) if p > 0 else rng.choice([0, 0, 0, 1]) for p in prof[lf]])
            lab = [None] * L
            lab[L - 1] = gt.name(lf)
            cur = lf
            for li in range(L - 1, 0, -1):
                cur = mapcheck.parent_of(gt.model, li, cur)
                lab[li - 1] = gt.name(cur)
            labels.append(lab)
    order = list(range(len(rows)))
    rng.shuffle(order)
    M = np.array([rows[i] for i in order], dtype=np.float32)
    obs = {gt.levels[i]: [labels[j][i] for j in order] for i in range(L)}
    genes = [pipeline.gname(g) for g in range(ng)]
    gen.write_h5ad(d / 'ref.h5ad', M, [f'r{i}' for i in range(len(rows))], genes,
                   encoding=rng.choice(['csr', 'csc', 'dense']), obs_cols=obs)
    buf = io.StringIO()
    with contextlib.redirect_stdout(buf), contextlib.redirect_stderr(buf):
        precompute_summary_stats_from_h5ad(d / 'ref.h5ad', gt.levels, None, d / 'stats.h5',
                                           rows_at_a_time=rng.randrange(3, 12), normalization='raw',
                                           tmp_dir=str(d), n_processors=rng.randrange(1, 4))
        tree = TaxonomyTree.from_precomputed_stats(d / 'stats.h5')
        find_markers_for_all_taxonomy_pairs(d / 'stats.h5', tree, d / 'refm.h5', n_processors=rng.randrange(1, 4),
                                            tmp_dir=str(d), max_gb=1)
        # what cli/reference_markers.py adds to the file it writes
        with h5py.File(d / 'refm.h5', 'a') as f:
            f.create_dataset('metadata', data=json.dumps({'precomputed_path': str(d / 'stats.h5')}).encode('utf-8'))
        qgenes = list(genes)
        rng.shuffle(qgenes)
        lookup = create_marker_gene_lookup_from_ref_list([str(d / 'refm.h5')], qgenes, n_per_utility=rng.randrange(2, 6),
                                                         n_per_utility_override=None, n_processors=rng.randrange(1, 4),
                                                         behemoth_cutoff=rng.choice([0, 1000]), tmp_dir=str(d))
    lookup = {k: v for k, v in lookup.items() if k not in ('metadata', 'log')}
    with open(d / 'markers.json', 'w') as f:
        json.dump(lookup, f)
    # the TRUE centroids, computed here directly from the reference cells (not read back from the
    # statistics file, which is one of the products under test)
    tot = M.astype(np.float64).sum(axis=1, keepdims=True)
    logcpm = np.log2(1.0 + M.astype(np.float64) * 1.0e6 / np.where(tot > 0, tot, 1.0))
    leaf_of = obs[gt.levels[-1]]
    truth = {}
    for lf in leaves:
        sel = [i for i, x in enumerate(leaf_of) if x == gt.name(lf)]
        truth[gt.name(lf)] = logcpm[sel].mean(axis=0)
    return gt, genes, qgenes, lookup, truth


def run(ctx):
    rng = ctx.rng
    ctx.rule = ('the four real stages chained on generated separable references (statistics from raw counts, reference '
                'markers, query marker selection, mapping); the query holds, per leaf, the mean log2(CPM+1) profile read '
                'from the statistics file, written in shuffled gene order and declared log2CPM; factors {0.25,0.5,0.9,1}; '
                'the proviso of the property is evaluated from the recorded subsets; non-trivial = a centroid cell at a node '
                'with >= 2 children')
    ctx.assumptions += ['the reference-marker file gets the metadata dataset {precomputed_path} that cli/reference_markers.py '
                        'writes (the argschema CLI itself cannot be constructed in this environment)',
                        'separable clusters: a generated reference for which the marker stages find no gene at all for a node '
                        'with >= 2 children is outside the quantifier; mapping must then refuse the lookup with "has no valid '
                        'markers" (validate_marker_lookup) - counted in the distribution, not compared',
                        'a drawn subset on which the centroid values lie within 1e5 * 2^-24 (relative) of each other is a '
                        'near-tie: the single-precision rounding of the stored centroid then moves the correlation with the '
                        'own centroid by more than the 1e-9 tested; counted and skipped (the exactly flat subset is finding F6)']
    n = ctx.n(8, 120)
    for k in range(n):
        d = ctx.scratch / f's{k}'
        d.mkdir()
        try:
            gt, genes, qgenes, lookup, truth = build_reference(ctx, rng, d)
        except Exception as e:
            ctx.count(('c18', k, 'stage-failure'), nontrivial=False)
            import traceback
            tb = traceback.format_exc()
            cls = 'c18-stage-chain'
            if isinstance(e, UnboundLocalError) and 'this_cluster_stats' in str(e):
                cls = 'F12-no-leaf-pair-reference-markers'
            elif isinstance(e, ValueError) and 'chunk dimensions must be positive' in str(e) and \
                    ('_merge_sparse_by_pair_files' in tb or 'add_sparse_by_gene_markers_to_file' in tb):
                # regression of the REPAIRED finding F17 (kind "fixed": suppresses nothing): a reference without any
                # up- (or down-) regulated marker must give a marker file with an empty direction
                cls = 'F17-no-marker-in-one-direction-raises'
            ctx.violation(f'a stage rejected the output of the previous stage: {type(e).__name__}: {e}',
                          {'class': cls, 'error': f'{type(e).__name__}: {e}', 'traceback': tb[-1500:]})
            shutil.rmtree(d, ignore_errors=True)
            continue
        with h5py.File(d / 'stats.h5', 'r') as f:
            rowof = json.loads(f['cluster_to_row'][()].decode())
            cols = json.loads(f['col_names'][()].decode())
            means = f['sum'][()] / np.maximum(1, f['n_cells'][()])[:, None]
        leaves = [gt.name(n) for n, _ in gt.model[-1]]
        pos = [cols.index(g) for g in qgenes]
        gpos = [genes.index(g) for g in qgenes]
        Q = np.array([truth[lf][gpos] for lf in leaves])
        # the statistics file must hold these centroids (C09); a difference beyond float noise is reported here too,
        # because the property is about the TRUE mean profile
        worst = max(float(np.max(np.abs(means[rowof[lf]][pos] - truth[lf][gpos]))) for lf in leaves)
        if worst > 1e-4:      # the reference is float32: the stored means carry single-precision rounding (~1e-6)
            ctx.violation(f'the statistics file does not hold the cluster centroids: max |stored mean - true mean| = {worst}',
                          {'class': 'c18-stored-centroid-wrong', 'tree': gt.data, 'max_abs_difference': worst,
                           'leaves': leaves})
        cell_ids = [f'centroid_{lf}' for lf in leaves]
        gen.write_h5ad(d / 'query.h5ad', Q, cell_ids, qgenes, encoding=rng.choice(['dense', 'csr']))
        factor = [1.0, 0.5, 0.9, 0.25][k % 4]          # every factor in every tier
        rng.random()
        cfg = pipeline.config_for(d, d / 'query.h5ad', d / 'stats.h5', d / 'markers.json',
                                  bootstrap_factor=factor, bootstrap_iteration=rng.choice([3, 10]),
                                  rng_seed=rng.randrange(10 ** 6), n_processors=rng.randrange(1, 4),
                                  chunk_size=rng.randrange(1, 6), n_runners_up=2, min_markers=rng.choice([1, 3]))
        res = pipeline.run_mapping(cfg, trace_dir=d / 'trace')
        desc = {'kind': 'centroid-run', 'tree': gt.data, 'lookup': lookup, 'factor': factor,
                'config': {kk: cfg['type_assignment'][kk] for kk in cfg['type_assignment']}}
        if not res['ok'] and 'has no valid markers' in str(res['error']):
            # not separable: the marker stages found NO gene for a node that has a choice (e.g. two clusters whose
            # differing genes all fail the criteria), and mapping refuses such a lookup by design
            # (validate_marker_lookup).  Outside the quantifier ("separable clusters"); counted, not compared.
            choice = ['None' if len(gt.model[0]) >= 2 else None]
            for li in range(len(gt.levels) - 1):
                choice += [f'{gt.levels[li]}/{gt.name(n)}' for n, ch in gt.model[li] if len(ch) >= 2]
            if any(c is not None and not lookup.get(c) for c in choice):
                ctx.count(('c18', k, 'not-separable'), nontrivial=False)
                ctx.dist('reference', 'not-separable (no marker at a node with a choice): mapping refuses, skipped')
                shutil.rmtree(d, ignore_errors=True)
                continue
        if not res['ok']:
            ctx.count(('c18', k, 'run-failure'), nontrivial=False)
            desc['class'] = 'c18-stage-chain'
            desc['error'] = res['error']
            ctx.violation(f'mapping rejected the products of the earlier stages: {res["error"]}', desc)
            shutil.rmtree(d, ignore_errors=True)
            continue
        # recorded subsets per (chunk, parent)
        trace = res['trace']
        chunk_of, nodes_ev, subs_ev = {}, {}, {}
        for ev in trace:
            if ev['ev'] == 'chunk':
                for nm in ev['names']:
                    chunk_of[nm] = tuple(ev['chunk'])
            else:
                key = (tuple(ev['chunk']), None if ev.get('parent') is None else tuple(ev['parent']))
                (nodes_ev if ev['ev'] == 'node' else subs_ev)[key] = ev
        by = {r['cell_id']: r for r in res['output']['results']}
        qpos = {g: j for j, g in enumerate(qgenes)}
        for lf, cid in zip(leaves, cell_ids):
            r = by[cid]
            # expected path
            path = [trees.GenTree.num(lf)]
            for li in range(len(gt.levels) - 1, 0, -1):
                path.insert(0, mapcheck.parent_of(gt.model, li, path[0]))
            parent = None
            for li, lv in enumerate(gt.levels):
                kids = [x for x, _ in gt.model[0]] if parent is None else dict((x, c) for x, c in gt.model[li - 1])[parent[1]]
                a = r[lv]
                if len(kids) >= 2:
                    key = (chunk_of[cid], None if parent is None else (gt.levels[parent[0]], gt.name(parent[1])))
                    nev, sev = nodes_ev[key], subs_ev[key]
                    gcols = [qpos[g] for g in nev['genes']]
                    qv = Q[cell_ids.index(cid)][gcols]
                    refv = np.array([means[rowof[x]][[cols.index(g) for g in nev['genes']]] for x in nev['leaves']])
                    me = nev['leaves'].index(lf)
                    # proviso: on every drawn subset the centroid is not flat and no other leaf correlates perfectly
                    proviso, flat, near_flat = True, False, False
                    for S in sev['subsets']:
                        qs = qv[S]
                        if np.ptp(qs) == 0:
                            flat = True
                            continue
                        if np.ptp(qs) < NEAR_FLAT * max(1.0, float(np.max(np.abs(qs)))):
                            near_flat = True        # the spread is within the rounding noise of the stored centroid
                        for j in range(len(nev['leaves'])):
                            if j == me:
                                continue
                            rs = refv[j][S]
                            if np.ptp(rs) == 0:
                                continue
                            c = np.corrcoef(qs, rs)[0, 1]
                            if c > 1 - 1e-9:
                                proviso = False
                    ctx.count(('c18', k, cid, lv), nontrivial=True)
                    ctx.dist('factor', factor)
                    ctx.dist('proviso', 'near-flat-subset (skipped)' if near_flat and not flat else
                             ('holds' if proviso and not flat else ('flat-subset' if flat else 'other-leaf-perfect')))
                    if near_flat and not flat:
                        pass                    # near-tie: counted in the distribution above, not compared
                    elif proviso:
                        ok = (trees.GenTree.num(a['assignment']) == path[li] and abs(a['bootstrapping_probability'] - 1) < 1e-12
                              and abs(a['avg_correlation'] - 1) < 1e-9)
                        if not ok:
                            ctx.disagreements_checked += 1
                            dd = dict(desc)
                            dd.update({'cell': cid, 'level': lv, 'record': a, 'subsets': sev['subsets'], 'genes': nev['genes'],
                                       'centroid_on_genes': qv.tolist()})
                            dd['class'] = 'F6-centroid-flat-on-a-drawn-subset' if flat else 'c18-centroid-not-recovered'
                            ctx.violation(f'centroid {cid} level {lv}: got {a["assignment"]} p={a["bootstrapping_probability"]} '
                                          f'corr={a["avg_correlation"]}, expected {gt.name(path[li])} with p=1, corr=1', dd)
                        else:
                            ctx.traces_validated += 1
                # follow the EXPECTED path only while the implementation agrees
                if trees.GenTree.num(a['assignment']) != path[li]:
                    break
                parent = (li, path[li])
        if k < 2:
            ctx.sample({'tree': gt.data, 'n_genes': len(genes), 'lookup': lookup, 'factor': factor})
        shutil.rmtree(d, ignore_errors=True)


def replay(ctx, rec):
    print(json.dumps(rec, indent=1)[:6000])
    return 0
