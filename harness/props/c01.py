"""C01 — every query cell gets one complete, ordered, tree-consistent assignment."""
import json

from harness import trees, routing, mapcheck


def routing_part(ctx):
    rng = ctx.rng
    shapes = list(trees.enumerate_shapes(4, ctx.n(4, 6)))
    cases = []
    for sh in shapes:
        gt = trees.one_level(sh[1], rng) if sh and sh[0] == 'flat' else trees.build(sh, rng)
        cases.append(gt)
    for _ in range(ctx.n(60, 1500)):
        cases.append(trees.random_tree(rng, max_levels=rng.choice([3, 4, 5, 6]), max_leaves=rng.choice([8, 20, 40])))
    recs = []
    for gt in cases:
        n_cells = rng.randrange(1, 7)
        cell_ids = rng.sample(range(100), n_cells)
        table = routing.gen_choices(rng, gt, cell_ids)
        try:
            res, ncalls = routing.run_impl(gt, cell_ids, table)
            obs = ('ok', routing.canon_impl(gt, res), ncalls)
        except Exception as e:
            obs = ('err', f'{type(e).__name__}: {e}'[:300], None)
        recs.append((gt, cell_ids, table, obs))
    mres = ctx.model([routing.model_case(gt, cell_ids, table) for gt, cell_ids, table, _ in recs])
    spec_cases, spec_idx = [], []
    for k, ((gt, cell_ids, table, obs), m) in enumerate(zip(recs, mres)):
        if obs[0] == 'ok':
            spec_cases.append((102, [gt.model, len(cell_ids), obs[1]]))
            spec_idx.append(k)
    sres = dict(zip(spec_idx, ctx.model(spec_cases)))
    for k, ((gt, cell_ids, table, obs), m) in enumerate(zip(recs, mres)):
        single_top = len(gt.model[0]) == 1
        has_chain = any(len(c) == 1 for lv in gt.model[:-1] for _, c in lv)
        nontrivial = len(gt.model) >= 2 and any(len(c) >= 2 for lv in gt.model[:-1] for _, c in lv)
        ctx.count(('rta', gt.shape_key(), tuple(cell_ids)), nontrivial=nontrivial)
        ctx.dist('rta_levels', len(gt.model))
        ctx.dist('rta_single_top_node', single_top)
        ctx.dist('rta_single_child_chain', has_chain)
        desc = {'kind': 'run_type_assignment+oracle', 'tree': gt.data, 'cell_ids': cell_ids,
                'choices': [[str(kk), [v[0], str(v[1]), str(v[2]), [[o, bool(f), str(a), str(b)] for o, f, a, b in v[3]]]]
                            for kk, v in table.items()],
                'model': m if len(json.dumps(m)) < 3000 else 'omitted', 'impl': obs[1] if obs[0] == 'err' else 'ok'}
        if nontrivial:
            ctx.sample({'tree': gt.data, 'cell_ids': cell_ids, 'n_model_rows': len(m[1][0]) if m[0] == 0 else None}, limit=3)
        if obs[0] == 'err':
            ctx.disagreements_checked += 1
            # the validator accepted this tree, so C01 demands a mapping without error
            desc['class'] = 'rta-raises:' + ('single-top-node' if single_top else 'other')
            ctx.violation(f'run_type_assignment raised {obs[1]} on a taxonomy the validator accepts', desc)
            continue
        if sres[k] != [0, 1]:
            ctx.disagreements_checked += 1
            desc['class'] = 'rta-spec-routing'
            ctx.violation('run_type_assignment output is not one tree-consistent record per cell', desc)
            continue
        if m[0] != 0 or routing.canon_model(m[1][0]) != obs[1] or m[1][1] != obs[2]:
            ctx.disagreements_checked += 1
            desc['class'] = 'corr:Election.run_type_assignment'
            desc['impl_rows'] = obs[1]
            ctx.violation('run_type_assignment and its model disagree', desc, no_input=True)


def _records_problem(sc_levels, cell_ids, results):
    """one record per query cell, in order, every level present"""
    if results is None:
        return 'no results'
    ids = [r.get('cell_id') for r in results]
    if ids != list(cell_ids):
        return f'cell ids / order {ids[:6]}... ({len(ids)}) differ from the query file {list(cell_ids)[:6]}... ({len(cell_ids)})'
    for r in results:
        for lv in sc_levels:
            if lv not in r or 'assignment' not in r[lv]:
                return f'cell {r.get("cell_id")} lacks level {lv}'
    return None


def sequences_and_direct_calls(ctx):
    """(iii) the assignment stage called directly, with the in-memory hand-back and with the result buffer, for 1..3
    workers; (iv) two queries mapped one after the other in this process from the SAME path (the file replaced in
    between: other cells, another number of cells, another order): the second result must be the second file's."""
    from harness import paired, pipeline
    import numpy as np
    rng = ctx.rng
    for k in range(ctx.n(3, 30)):
        sc = pipeline.gen_scenario(rng, max_levels=3, max_leaves=6, n_cells=rng.randrange(7, 16))
        n = len(sc.cell_ids)
        desc = {'kind': 'direct-assignment', 'tree': sc.tree.data, 'markers': sc.markers, 'cell_ids': sc.cell_ids,
                'query': np.asarray(sc.query).tolist(), 'ref_genes': sc.ref_genes, 'query_genes': sc.query_genes,
                'means': {str(a): b for a, b in sc.means.items()}}
        for npr in (1, 2, 3):
            for on_disk in (False, True):
                cs = rng.randrange(1, n + 2)
                r = paired.assign_direct(ctx, sc, f'dir{k}_{npr}_{int(on_disk)}', n_processors=npr, chunk_size=cs, on_disk=on_disk,
                                         seed=rng.randrange(1, 10 ** 6))
                ctx.count(('direct', k, npr, on_disk), nontrivial=True)
                ctx.dist('direct_assignment', f'workers={npr} {"buffer" if on_disk else "in-memory"}')
                bad = None
                if not r['ok']:
                    bad = f'raised {r["error"]}'
                else:
                    bad = _records_problem(sc.tree.levels, sc.cell_ids, r['results'])
                if bad:
                    ctx.disagreements_checked += 1
                    dd = dict(desc, n_processors=npr, chunk_size=cs, results_output_path=bool(on_disk))
                    dd['class'] = 'c01-direct-assignment'
                    ctx.violation(f'run_type_assignment_on_h5ad called directly ({npr} worker(s), chunk size {cs}, '
                                  f'{"result buffer" if on_disk else "in-memory hand-back"}): {bad}', dd)
        # (iv) same path, same process, file replaced
        m2 = rng.choice([n, n, rng.randrange(3, 22)])          # same number of cells, or another
        q2 = np.asarray(sc.query)[[rng.randrange(n) for _ in range(m2)], :]
        ids2 = rng.sample(list(sc.cell_ids), n) if (m2 == n and rng.random() < 0.5) else \
            [f'z{i:03d}' for i in rng.sample(range(500), m2)]
        var = paired.base_var(rng, sc, factor=0.5)
        var['min_markers'] = 1
        steps = [dict(query=np.asarray(sc.query), cell_ids=list(sc.cell_ids), encoding=rng.choice(['dense', 'csr', 'csc'])),
                 dict(query=q2, cell_ids=ids2, encoding=rng.choice(['dense', 'csr', 'csc']))]
        res = paired.run_history_same_path(ctx, sc, f'hist{k}', steps, **var)
        fresh = paired.run_once(ctx, sc, f'hist{k}_fresh', query=q2, cell_ids=ids2, encoding=steps[1]['encoding'], tmp_dir=None, **var)
        ctx.count(('history', k), nontrivial=True)
        ctx.dist('history_same_path', f'{len(sc.cell_ids)}->{len(ids2)} cells')
        dd = dict(desc, kind='history-same-path', second_cell_ids=ids2, second_query=q2.tolist(), config=var)
        if not (res[0]['ok'] and res[1]['ok'] and fresh['ok']):
            ctx.disagreements_checked += 1
            dd['class'] = 'c01-run-raises'
            ctx.violation(f'a run of the sequence raised: {res[0]["error"] or res[1]["error"] or fresh["error"]}', dd)
            continue
        bad = _records_problem(sc.tree.levels, ids2, res[1]['output']['results'])
        if bad is None:
            a, b = paired.by_cell(res[1]), paired.by_cell(fresh)
            for cid in ids2:
                diff = paired.compare_records(a[cid], b[cid], sc.tree.levels, bitwise=True)
                if diff:
                    bad = f'cell {cid} differs from the run in a fresh process state: {diff}'
                    break
        if bad:
            ctx.disagreements_checked += 1
            dd['class'] = 'c01-second-run-on-replaced-file'
            ctx.violation(f'the same path mapped twice in one process, the file replaced in between: second result: {bad}', dd)


def run(ctx):
    ctx.rule = ('(i) run_type_assignment with _run_type_assignment replaced by a table-driven oracle on every tree shape '
                'with <=4 levels and <=4 (quick) / <=6 (thorough) leaves plus random larger trees, random cell sets and '
                'choices; non-trivial = >=2 levels and some parent with >=2 children, distinct by (shape, cell ids)')
    routing_part(ctx)
    mapcheck.run_batch(ctx, ctx.n(25, 400), ('c01-', 'corr:Chunk'), 'map', raise_is_violation=True)
    sequences_and_direct_calls(ctx)


def replay(ctx, rec):
    print(json.dumps(rec, indent=1)[:6000])
    return 0
