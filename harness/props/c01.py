"""C01 — every query cell gets one complete, ordered, tree-consistent assignment."""
import json

from harness import trees, routing, mapcheck


def routing_part(ctx):
    rng = ctx.rng
    shapes = list(trees.enumerate_shapes(4, ctx.n(4, 6)))
    cases = []
    for sh in shapes:
        gt = trees.one_level(sh[1], rng) if sh and sh[0] == 'flat' else trees.build(sh, rng)
        cases.append(gt)
    for _ in range(ctx.n(60, 1500)):
        cases.append(trees.random_tree(rng, max_levels=rng.choice([3, 4, 5, 6]), max_leaves=rng.choice([8, 20, 40])))
    recs = []
    for gt in cases:
        n_cells = rng.randrange(1, 7)
        cell_ids = rng.sample(range(100), n_cells)
        table = routing.gen_choices(rng, gt, cell_ids)
        try:
            res, ncalls = routing.run_impl(gt, cell_ids, table)
            obs = ('ok', routing.canon_impl(gt, res), ncalls)
        except Exception as e:
            obs = ('err', f'{type(e).__name__}: {e}'[:300], None)
        recs.append((gt, cell_ids, table, obs))
    mres = ctx.model([routing.model_case(gt, cell_ids, table) for gt, cell_ids, table, _ in recs])
    spec_cases, spec_idx = [], []
    for k, ((gt, cell_ids, table, obs), m) in enumerate(zip(recs, mres)):
        if obs[0] == 'ok':
            spec_cases.append((102, [gt.model, len(cell_ids), obs[1]]))
            spec_idx.append(k)
    sres = dict(zip(spec_idx, ctx.model(spec_cases)))
    for k, ((gt, cell_ids, table, obs), m) in enumerate(zip(recs, mres)):
        single_top = len(gt.model[0]) == 1
        has_chain = any(len(c) == 1 for lv in gt.model[:-1] for _, c in lv)
        nontrivial = len(gt.model) >= 2 and any(len(c) >= 2 for lv in gt.model[:-1] for _, c in lv)
        ctx.count(('rta', gt.shape_key(), tuple(cell_ids)), nontrivial=nontrivial)
        ctx.dist('rta_levels', len(gt.model))
        ctx.dist('rta_single_top_node', single_top)
        ctx.dist('rta_single_child_chain', has_chain)
        desc = {'kind': 'run_type_assignment+oracle', 'tree': gt.data, 'cell_ids': cell_ids,
                'choices': [[str(kk), [v[0], str(v[1]), str(v[2]), [[o, bool(f), str(a), str(b)] for o, f, a, b in v[3]]]]
                            for kk, v in table.items()],
                'model': m if len(json.dumps(m)) < 3000 else 'omitted', 'impl': obs[1] if obs[0] == 'err' else 'ok'}
        if nontrivial:
            ctx.sample({'tree': gt.data, 'cell_ids': cell_ids, 'n_model_rows': len(m[1][0]) if m[0] == 0 else None}, limit=3)
        if obs[0] == 'err':
            ctx.disagreements_checked += 1
            # the validator accepted this tree, so C01 demands a mapping without error
            desc['class'] = 'rta-raises:' + ('single-top-node' if single_top else 'other')
            ctx.violation(f'run_type_assignment raised {obs[1]} on a taxonomy the validator accepts', desc)
            continue
        if sres[k] != [0, 1]:
            ctx.disagreements_checked += 1
            desc['class'] = 'rta-spec-routing'
            ctx.violation('run_type_assignment output is not one tree-consistent record per cell', desc)
            continue
        if m[0] != 0 or routing.canon_model(m[1][0]) != obs[1] or m[1][1] != obs[2]:
            ctx.disagreements_checked += 1
            desc['class'] = 'corr:Election.run_type_assignment'
            desc['impl_rows'] = obs[1]
            ctx.violation('run_type_assignment and its model disagree', desc, no_input=True)


def run(ctx):
    ctx.rule = ('(i) run_type_assignment with _run_type_assignment replaced by a table-driven oracle on every tree shape '
                'with <=4 levels and <=4 (quick) / <=6 (thorough) leaves plus random larger trees, random cell sets and '
                'choices; non-trivial = >=2 levels and some parent with >=2 children, distinct by (shape, cell ids)')
    routing_part(ctx)
    mapcheck.run_batch(ctx, ctx.n(25, 400), ('c01-', 'corr:Chunk'), 'map', raise_is_violation=True)


def replay(ctx, rec):
    print(json.dumps(rec, indent=1)[:6000])
    return 0
