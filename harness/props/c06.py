"""C06 — a cell's mapping depends only on its own expression vector (bootstrap factor 1)."""
import json

import numpy as np

from harness import pipeline, paired


def run(ctx):
    rng = ctx.rng
    ctx.rule = ('paired real run_mapping runs with bootstrap factor 1: a base query vs (a) a permutation of its cells, '
                '(b) a subset, (c) a superset with added cells, (d) duplicated rows under new ids, (e) other chunk size / '
                'worker count, (f) raw counts instead of dyadic log2CPM values; joined on cell id; assignments, '
                'probabilities and runner-up lists equal, correlations within 1e-9; non-trivial = a compared cell in a '
                'tree with >= 2 levels or >= 3 leaves')
    ctx.assumptions += ['correlations are compared within 1e-9: BLAS may sum in a different order when the company of a '
                        'cell changes']
    n = ctx.n(20, 300)
    for k in range(n):
        sc = pipeline.gen_scenario(rng, max_levels=4, max_leaves=8, n_cells=rng.randrange(3, 9))
        var = paired.base_var(rng, sc, factor=1.0)
        raw = rng.random() < 0.4
        if raw:
            sc.query = np.array([[float(rng.randrange(0, 50)) for _ in sc.query_genes] for _ in sc.cell_ids])
        norm = 'raw' if raw else 'log2CPM'
        base = paired.run_once(ctx, sc, f'b{k}', normalization=norm, **var)
        desc = {'kind': 'paired-run', 'tree': sc.tree.data, 'markers': sc.markers, 'cell_ids': sc.cell_ids,
                'query': sc.query.tolist(), 'query_genes': sc.query_genes, 'ref_genes': sc.ref_genes,
                'means': {str(a): b for a, b in sc.means.items()}, 'config': var, 'normalization': norm}
        if not base['ok']:
            desc['class'] = 'c06-base-run-raises'
            desc['error'] = base['error']
            ctx.violation(f'base run raised {base["error"]}', desc, no_input=True)
            continue
        b = paired.by_cell(base)
        ncell = len(sc.cell_ids)
        variants = []
        perm = list(range(ncell))
        rng.shuffle(perm)
        variants.append(('permutation', [sc.cell_ids[i] for i in perm], sc.query[perm], dict(var)))
        keep = sorted(rng.sample(range(ncell), rng.randrange(1, ncell)))
        variants.append(('subset', [sc.cell_ids[i] for i in keep], sc.query[keep], dict(var)))
        extra = np.array([[float(rng.randrange(0, 50)) if raw else rng.randrange(0, 97) / 8.0 for _ in sc.query_genes]
                          for _ in range(rng.randrange(1, 4))])
        pos = rng.randrange(0, ncell + 1)
        ids2 = sc.cell_ids[:pos] + [f'x{j:03d}' for j in range(len(extra))] + sc.cell_ids[pos:]
        q2 = np.vstack([sc.query[:pos], extra, sc.query[pos:]])
        variants.append(('superset', ids2, q2, dict(var)))
        dup = rng.randrange(ncell)
        variants.append(('duplicate', sc.cell_ids + ['dup000', 'dup001'], np.vstack([sc.query, sc.query[dup], sc.query[dup]]), dict(var)))
        v2 = dict(var)
        v2['chunk_size'] = rng.randrange(1, ncell + 3)
        v2['n_processors'] = rng.randrange(1, 5)
        variants.append(('chunking', list(sc.cell_ids), sc.query, v2))
        for name, ids, q, vv in variants:
            r = paired.run_once(ctx, sc, f'v{k}_{name}', query=q, cell_ids=ids, normalization=norm,
                                encoding=rng.choice(['dense', 'csr', 'csc']), **vv)
            nontrivial = len(sc.tree.levels) >= 2 or sc.tree.n_leaves() >= 3
            ctx.count(('c06', k, name), nontrivial=nontrivial)
            ctx.dist('variant', name)
            ctx.dist('normalization', norm)
            dd = dict(desc)
            dd.update({'variant': name, 'variant_cell_ids': ids, 'variant_query': np.asarray(q).tolist(), 'variant_config': vv})
            if not r['ok']:
                dd['class'] = 'c06-variant-run-raises'
                dd['error'] = r['error']
                ctx.violation(f'{name} run raised {r["error"]}', dd)
                continue
            v = paired.by_cell(r)
            for cid in ids:
                src = cid
                if cid.startswith('dup'):
                    src = sc.cell_ids[dup]
                if src not in b:
                    continue
                diff = paired.compare_records(b[src], v[cid], sc.tree.levels)
                if diff:
                    ctx.disagreements_checked += 1
                    dd['class'] = f'c06-{name}'
                    ctx.violation(f'cell {cid}: result changed under {name}: {diff}', dd)
                    break
        if k < 2:
            ctx.sample({'tree': sc.tree.data, 'cell_ids': sc.cell_ids, 'config': var, 'normalization': norm})


def replay(ctx, rec):
    print(json.dumps(rec, indent=1)[:6000])
    return 0
