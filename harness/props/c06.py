"""C06 — a cell's mapping depends only on its own expression vector (bootstrap factor 1)."""
import json

import numpy as np

from harness import pipeline, paired, routing, trees


def percell_part(ctx):
    """Function-level tie of Model/PerCell.v: the real run_type_assignment (with the
    recorded-choice oracle, which is per-cell by construction) on a cell list and on
    permuted / thinned / duplicated versions of it, against map_one (tag 601) --
    the per-cell recursion the theorem c06_per_cell equates the routing with."""
    rng = ctx.rng
    shapes = list(trees.enumerate_shapes(4, ctx.n(4, 5)))
    cases = [trees.one_level(sh[1], rng) if sh and sh[0] == 'flat' else trees.build(sh, rng) for sh in shapes]
    for _ in range(ctx.n(30, 800)):
        cases.append(trees.random_tree(rng, max_levels=rng.choice([3, 4, 5, 6]), max_leaves=rng.choice([8, 20, 40])))
    recs = []
    for gt in cases:
        base = rng.sample(range(100), rng.randrange(1, 7))
        table = routing.gen_choices(rng, gt, base)
        kind = rng.choice(['base', 'permutation', 'subset', 'duplicates'])
        ids = list(base)
        if kind == 'permutation':
            rng.shuffle(ids)
        elif kind == 'subset':
            ids = [c for c in ids if rng.random() < 0.6] or ids[:1]
        elif kind == 'duplicates':
            ids = ids + [rng.choice(base) for _ in range(rng.randrange(1, 4))]
            rng.shuffle(ids)
        try:
            res, _ = routing.run_impl(gt, ids, table)
            obs = ('ok', routing.canon_impl(gt, res))
        except Exception as e:
            obs = ('err', f'{type(e).__name__}: {e}'[:300])
        recs.append((gt, ids, table, kind, obs))
    mres = ctx.model([(601, routing.model_case(gt, ids, table)[1]) for gt, ids, table, _, _ in recs])
    for (gt, ids, table, kind, obs), m in zip(recs, mres):
        nontrivial = len(gt.model) >= 2 and any(len(c) >= 2 for lv in gt.model[:-1] for _, c in lv)
        ctx.count(('percell', gt.shape_key(), tuple(ids)), nontrivial=nontrivial)
        ctx.dist('percell_variant', kind)
        desc = {'kind': 'run_type_assignment+oracle vs map_one', 'tree': gt.data, 'cell_ids': ids, 'variant': kind,
                'choices': [[str(kk), [v[0], str(v[1]), str(v[2]), [[o, bool(f), str(a), str(b)] for o, f, a, b in v[3]]]]
                            for kk, v in table.items()]}
        if obs[0] == 'err':
            ctx.disagreements_checked += 1
            desc['class'] = 'c06-rta-raises'
            desc['error'] = obs[1]
            ctx.violation(f'run_type_assignment raised {obs[1]}', desc, no_input=True)
            continue
        if m[0] != 0 or routing.canon_model(m[1]) != obs[1]:
            ctx.disagreements_checked += 1
            # which cell differs?  the same cell must get the row map_one gives it
            desc['class'] = 'corr:PerCell.map_one'
            desc['model'] = m if len(json.dumps(m)) < 3000 else 'omitted'
            rows_m = routing.canon_model(m[1]) if m[0] == 0 else None
            bad = [c for j, c in enumerate(ids) if rows_m is None or j >= len(obs[1]) or rows_m[j] != obs[1][j]]
            desc['cells_that_differ'] = bad
            # property statement on the implementation alone: equal cells, equal rows
            seen, broken = {}, None
            for j, c in enumerate(ids):
                if j < len(obs[1]):
                    if c in seen and seen[c] != obs[1][j]:
                        broken = c
                    seen.setdefault(c, obs[1][j])
            if broken is None:
                # search for a failing input: map each differing cell alone (same oracle) and compare
                # with the row it got in company -- the property's own statement on the implementation
                for c in bad[:4]:
                    try:
                        alone, _ = routing.run_impl(gt, [c], table)
                        row_alone = routing.canon_impl(gt, alone)[0]
                    except Exception:
                        continue
                    j = ids.index(c)
                    if j < len(obs[1]) and obs[1][j] != row_alone:
                        desc['class'] = 'c06-row-depends-on-company'
                        desc['cell'] = c
                        desc['row_alone'] = row_alone
                        desc['row_in_company'] = obs[1][j]
                        ctx.violation(f'cell {c} gets a different row when mapped alone than in the company {ids}', desc)
                        broken = 'reported'
                        break
            if broken == 'reported':
                pass
            elif broken is not None:
                desc['class'] = 'c06-same-cell-different-rows'
                ctx.violation(f'cell {broken} occurs twice in one query and got two different rows', desc)
            else:
                ctx.violation('run_type_assignment differs from the per-cell recursion map_one', desc, no_input=True)


def company_size_part(ctx):
    """(iii) the kernels behind a vote on MANY cells at once: correlation_nearest_neighbors / correlation_dot /
    tally_votes on queries of 255..257, 65535..65537 and ~70 000 cells (a chunk may hold any number of cells: chunk
    sizes above 65 536 are legal) vs the same cells handed over in blocks of a few thousand: per cell identical
    (small integers: every product and sum is exact, so 'up to rounding' means equal)."""
    import numpy as np
    from cell_type_mapper.utils.distance_utils import correlation_nearest_neighbors, correlation_dot
    rng = ctx.rng
    nprng = np.random.default_rng(rng.randrange(2 ** 32))
    sizes = [rng.choice([255, 256, 257]), rng.choice([65535, 65536, 65537]), rng.choice([70001, 131073, 98304 + rng.randrange(1, 999)])]
    if not ctx.quick():
        sizes += [65537, 131071, 131072, 200003]
    for n in sizes:
        ng = rng.randrange(3, 9)
        nb = rng.randrange(2, 7)
        base = nprng.integers(0, 12, size=(nb, ng)).astype(float)
        base[:, 0] += np.arange(nb)                      # no constant reference row
        query = nprng.integers(0, 12, size=(n, ng)).astype(float)
        query[:, -1] += (np.arange(n) % 3)                # hardly any constant query row
        ctx.count(('company-size', n, ng, nb), nontrivial=True)
        ctx.dist('company_size', '<=257' if n <= 257 else ('65535..65537' if n <= 65537 else '>65537'))
        try:
            idx, corr = correlation_nearest_neighbors(baseline_array=base, query_array=query, return_correlation=True)
            dot = correlation_dot(query, base) if n <= 70001 else None
        except Exception as e:      # noqa
            ctx.disagreements_checked += 1
            ctx.violation(f'correlation_nearest_neighbors raised on a query of {n} cells: {type(e).__name__}: {e}',
                          {'class': 'c06-company-size', 'n_cells': n, 'n_genes': ng, 'baseline': base.tolist(), 'seeded_by': 'VERIF_SEED'})
            continue
        bad = None
        step = 4096
        for a in range(0, n, step):
            i2, c2 = correlation_nearest_neighbors(baseline_array=base, query_array=query[a:a + step], return_correlation=True)
            if not np.array_equal(np.asarray(idx[a:a + step]), np.asarray(i2)) or \
                    not np.allclose(np.asarray(corr[a:a + step]), np.asarray(c2), rtol=0, atol=1e-9):
                w = int(np.nonzero((np.asarray(idx[a:a + step]) != np.asarray(i2)) |
                                   (np.abs(np.asarray(corr[a:a + step]) - np.asarray(c2)) > 1e-9))[0][0]) + a
                bad = (f'cell {w} of {n}: nearest reference {int(idx[w])} (correlation {float(corr[w])}) in the full query, '
                       f'{int(i2[w - a])} ({float(c2[w - a])}) in a block of {min(step, n - a)} cells')
                break
            if dot is not None:
                d2 = correlation_dot(query[a:a + step], base)
                if not np.allclose(dot[a:a + step], d2, rtol=0, atol=1e-9):
                    bad = f'correlation_dot differs for a cell in rows {a}..{a + step} of {n}'
                    break
        if bad:
            ctx.disagreements_checked += 1
            w = int(bad.split()[1]) if bad.startswith('cell') else 0
            ctx.violation('the nearest reference of a cell depends on how many cells are mapped with it: ' + bad,
                          {'class': 'c06-row-depends-on-company', 'kind': 'company-size', 'n_cells': n, 'n_genes': ng,
                           'baseline': base.tolist(), 'cell': query[w].tolist(), 'cell_index': w,
                           'query_rule': 'integers(0,12) from numpy default_rng seeded from the check PRNG; last column + (row % 3)'})


def run(ctx):
    rng = ctx.rng
    percell_part(ctx)
    company_size_part(ctx)
    ctx.rule = ('(i) real run_type_assignment with the recorded-choice oracle on cell lists and their permuted / thinned / '
                'duplicated versions vs the per-cell recursion map_one of the model (tag 601); (ii) paired real run_mapping runs with bootstrap factor 1: a base query vs (a) a permutation of its cells, '
                '(b) a subset, (c) a superset with added cells, (d) duplicated rows under new ids, (e) other chunk size / '
                'worker count, (f) raw counts instead of dyadic log2CPM values; joined on cell id; assignments, '
                'probabilities and runner-up lists equal, correlations within 1e-9; non-trivial = a compared cell in a '
                'tree with >= 2 levels or >= 3 leaves')
    ctx.assumptions += ['a cell whose vote at some node is a near tie (best correlation matched within 1e-9 by a leaf of another child: '
                        'two-marker nodes, identical reference profiles) is excused and counted (near_ties_excused): the last bit of a BLAS '
                        'product may depend on the shape of the matrix the cell is mapped in',
                        'correlations are compared within 1e-9: BLAS may sum in a different order when the company of a '
                        'cell changes']
    n = ctx.n(20, 300)
    for k in range(n):
        # every fifth scenario has 23-40 cells: with chunks of 3, 7 or 9 rows the chunk boundaries (0, 9, 18, 27 ...)
        # do not sort numerically as strings, and there are more chunks than workers
        many = (k % 5 == 4)
        sc = pipeline.gen_scenario(rng, max_levels=4, max_leaves=8, n_cells=rng.randrange(23, 41) if many else rng.randrange(3, 9))
        var = paired.base_var(rng, sc, factor=1.0)
        # a third of the scenarios map with a level dropped or flattened: the inferred (back-filled) levels of a cell
        # must not depend on its company either
        r_cfg = rng.random()
        if r_cfg < 0.17:
            var['flatten'] = True
        elif r_cfg < 0.34 and len(sc.tree.levels) > 1:
            var['drop_level'] = rng.choice(sc.tree.levels[:-1])
        ctx.dist('reduction', 'flatten' if var['flatten'] else ('drop' if var['drop_level'] else 'none'))
        raw = rng.random() < 0.4
        if raw:
            sc.query = np.array([[float(rng.randrange(0, 50)) for _ in sc.query_genes] for _ in sc.cell_ids])
        norm = 'raw' if raw else 'log2CPM'
        flat_cell = None
        if not raw and rng.random() < 0.5:
            # a cell whose profile varies ~1e-9 times less than its neighbours' (exact dyadic values, so the
            # correlation arithmetic is as stable as for any other cell)
            flat_cell = rng.randrange(len(sc.cell_ids))
            sc.query[flat_cell] = np.array([4.0 + rng.randrange(0, 97) * 2.0 ** -33 for _ in sc.query_genes])
        ctx.dist('near_flat_cell', flat_cell is not None)
        base = paired.run_once(ctx, sc, f'b{k}', normalization=norm, **var)
        desc = {'kind': 'paired-run', 'tree': sc.tree.data, 'markers': sc.markers, 'cell_ids': sc.cell_ids,
                'query': sc.query.tolist(), 'query_genes': sc.query_genes, 'ref_genes': sc.ref_genes,
                'means': {str(a): b for a, b in sc.means.items()}, 'config': var, 'normalization': norm}
        if not base['ok']:
            desc['class'] = 'c06-base-run-raises'
            desc['error'] = base['error']
            ctx.violation(f'base run raised {base["error"]}', desc, no_input=True)
            continue
        b = paired.by_cell(base)
        ncell = len(sc.cell_ids)
        # c06_factor_one_unanimous on the implementation: at factor 1 every iteration draws all markers, so every
        # vote is unanimous -- probability 1 and no runner-up at every level where a vote was held
        for cid, rec in b.items():
            for lv in sc.tree.levels:
                a = rec.get(lv)
                if a is None or not a.get('directly_assigned'):
                    continue
                if a['bootstrapping_probability'] != 1.0 or a.get('runner_up_assignment'):
                    ctx.disagreements_checked += 1
                    d2 = dict(desc)
                    d2['class'] = 'c06-factor-one-vote-not-unanimous'
                    d2['record'] = a
                    ctx.violation(f'cell {cid} level {lv}: at bootstrap factor 1 the vote must be unanimous, got probability '
                                  f'{a["bootstrapping_probability"]} and runners-up {a.get("runner_up_assignment")}', d2)
                    break
        variants = []
        perm = list(range(ncell))
        rng.shuffle(perm)
        variants.append(('permutation', [sc.cell_ids[i] for i in perm], sc.query[perm], dict(var)))
        keep = sorted(rng.sample(range(ncell), rng.randrange(1, ncell)))
        variants.append(('subset', [sc.cell_ids[i] for i in keep], sc.query[keep], dict(var)))
        extra = np.array([[float(rng.randrange(0, 50)) if raw else rng.randrange(0, 97) / 8.0 for _ in sc.query_genes]
                          for _ in range(rng.randrange(1, 4))])
        pos = rng.randrange(0, ncell + 1)
        ids2 = sc.cell_ids[:pos] + [f'x{j:03d}' for j in range(len(extra))] + sc.cell_ids[pos:]
        q2 = np.vstack([sc.query[:pos], extra, sc.query[pos:]])
        variants.append(('superset', ids2, q2, dict(var)))
        dup = rng.randrange(ncell)
        variants.append(('duplicate', sc.cell_ids + ['dup000', 'dup001'], np.vstack([sc.query, sc.query[dup], sc.query[dup]]), dict(var)))
        one = flat_cell if flat_cell is not None else rng.randrange(ncell)
        variants.append(('single-cell', [sc.cell_ids[one]], sc.query[[one]], dict(var)))
        v2 = dict(var)
        v2['chunk_size'] = rng.choice([3, 7, 9]) if many else rng.randrange(1, ncell + 3)
        v2['n_processors'] = rng.choice([1, 4, 8]) if many else rng.randrange(1, 5)
        ctx.dist('chunking_variant', f"{ncell} cells in chunks of {v2['chunk_size']}" if many else 'few cells')
        variants.append(('chunking', list(sc.cell_ids), sc.query, v2))
        for name, ids, q, vv in variants:
            r = paired.run_once(ctx, sc, f'v{k}_{name}', query=q, cell_ids=ids, normalization=norm,
                                encoding=rng.choice(['dense', 'csr', 'csc']), **vv)
            nontrivial = len(sc.tree.levels) >= 2 or sc.tree.n_leaves() >= 3
            ctx.count(('c06', k, name), nontrivial=nontrivial)
            ctx.dist('variant', name)
            ctx.dist('normalization', norm)
            dd = dict(desc)
            dd.update({'variant': name, 'variant_cell_ids': ids, 'variant_query': np.asarray(q).tolist(), 'variant_config': vv})
            if not r['ok']:
                dd['class'] = 'c06-variant-run-raises'
                dd['error'] = r['error']
                ctx.violation(f'{name} run raised {r["error"]}', dd)
                continue
            v = paired.by_cell(r)
            for cid in ids:
                src = cid
                if cid.startswith('dup'):
                    src = sc.cell_ids[dup]
                if src not in b:
                    continue
                diff = paired.compare_records(b[src], v[cid], sc.tree.levels)
                if diff:
                    j = ids.index(cid)
                    if paired.near_tie_cell(sc, r['output'], np.asarray(q)[j], sc.query_genes, norm, flatten=vv['flatten'], drop_level=vv['drop_level']):
                        ctx.extra['near_ties_excused'] = ctx.extra.get('near_ties_excused', 0) + 1
                        continue
                    ctx.disagreements_checked += 1
                    dd['class'] = f'c06-{name}'
                    ctx.violation(f'cell {cid}: result changed under {name}: {diff}', dd)
                    break
        if k < 2:
            ctx.sample({'tree': sc.tree.data, 'cell_ids': sc.cell_ids, 'config': var, 'normalization': norm})


def replay(ctx, rec):
    print(json.dumps(rec, indent=1)[:6000])
    return 0
