"""C06 — a cell's mapping depends only on its own expression vector (bootstrap factor 1)."""
import json

import numpy as np

from harness import pipeline, paired, routing, trees


def percell_part(ctx):
    """Function-level tie of Model/PerCell.v: the real run_type_assignment (with the
    recorded-choice oracle, which is per-cell by construction) on a cell list and on
    permuted / thinned / duplicated versions of it, against map_one (tag 601) --
    the per-cell recursion the theorem c06_per_cell equates the routing with."""
    rng = ctx.rng
    shapes = list(trees.enumerate_shapes(4, ctx.n(4, 5)))
    cases = [trees.one_level(sh[1], rng) if sh and sh[0] == 'flat' else trees.build(sh, rng) for sh in shapes]
    for _ in range(ctx.n(30, 800)):
        cases.append(trees.random_tree(rng, max_levels=rng.choice([3, 4, 5, 6]), max_leaves=rng.choice([8, 20, 40])))
    recs = []
    for gt in cases:
        base = rng.sample(range(100), rng.randrange(1, 7))
        table = routing.gen_choices(rng, gt, base)
        kind = rng.choice(['base', 'permutation', 'subset', 'duplicates'])
        ids = list(base)
        if kind == 'permutation':
            rng.shuffle(ids)
        elif kind == 'subset':
            ids = [c for c in ids if rng.random() < 0.6] or ids[:1]
        elif kind == 'duplicates':
            ids = ids + [rng.choice(base) for _ in range(rng.randrange(1, 4))]
            rng.shuffle(ids)
        try:
            res, _ = routing.run_impl(gt, ids, table)
            obs = ('ok', routing.canon_impl(gt, res))
        except Exception as e:
            obs = ('err', f'{type(e).__name__}: {e}'[:300])
        recs.append((gt, ids, table, kind, obs))
    mres = ctx.model([(601, routing.model_case(gt, ids, table)[1]) for gt, ids, table, _, _ in recs])
    for (gt, ids, table, kind, obs), m in zip(recs, mres):
        nontrivial = len(gt.model) >= 2 and any(len(c) >= 2 for lv in gt.model[:-1] for _, c in lv)
        ctx.count(('percell', gt.shape_key(), tuple(ids)), nontrivial=nontrivial)
        ctx.dist('percell_variant', kind)
        desc = {'kind': 'run_type_assignment+oracle vs map_one', 'tree': gt.data, 'cell_ids': ids, 'variant': kind,
                'choices': [[str(kk), [v[0], str(v[1]), str(v[2]), [[o, bool(f), str(a), str(b)] for o, f, a, b in v[3]]]]
                            for kk, v in table.items()]}
        if obs[0] == 'err':
            ctx.disagreements_checked += 1
            desc['class'] = 'c06-rta-raises'
            desc['error'] = obs[1]
            ctx.violation(f'run_type_assignment raised {obs[1]}', desc, no_input=True)
            continue
        if m[0] != 0 or routing.canon_model(m[1]) != obs[1]:
            ctx.disagreements_checked += 1
            # which cell differs?  the same cell must get the row map_one gives it
            desc['class'] = 'corr:PerCell.map_one'
            desc['model'] = m if len(json.dumps(m)) < 3000 else 'omitted'
            rows_m = routing.canon_model(m[1]) if m[0] == 0 else None
            bad = [c for j, c in enumerate(ids) if rows_m is None or j >= len(obs[1]) or rows_m[j] != obs[1][j]]
            desc['cells_that_differ'] = bad
            # property statement on the implementation alone: equal cells, equal rows
            seen, broken = {}, None
            for j, c in enumerate(ids):
                if j < len(obs[1]):
                    if c in seen and seen[c] != obs[1][j]:
                        broken = c
                    seen.setdefault(c, obs[1][j])
            if broken is None:
                # search for a failing input: map each differing cell alone (same oracle) and compare
                # with the row it got in company -- the property's own statement on the implementation
                for c in bad[:4]:
                    try:
                        alone, _ = routing.run_impl(gt, [c], table)
                        row_alone = routing.canon_impl(gt, alone)[0]
                    except Exception:
                        continue
                    j = ids.index(c)
                    if j < len(obs[1]) and obs[1][j] != row_alone:
                        desc['class'] = 'c06-row-depends-on-company'
                        desc['cell'] = c
                        desc['row_alone'] = row_alone
                        desc['row_in_company'] = obs[1][j]
                        ctx.violation(f'cell {c} gets a different row when mapped alone than in the company {ids}', desc)
                        broken = 'reported'
                        break
            if broken == 'reported':
                pass
            elif broken is not None:
                desc['class'] = 'c06-same-cell-different-rows'
                ctx.violation(f'cell {broken} occurs twice in one query and got two different rows', desc)
            else:
                ctx.violation('run_type_assignment differs from the per-cell recursion map_one', desc, no_input=True)


def run(ctx):
    rng = ctx.rng
    percell_part(ctx)
    ctx.rule = ('(i) real run_type_assignment with the recorded-choice oracle on cell lists and their permuted / thinned / '
                'duplicated versions vs the per-cell recursion map_one of the model (tag 601); (ii) paired real run_mapping runs with bootstrap factor 1: a base query vs (a) a permutation of its cells, '
                '(b) a subset, (c) a superset with added cells, (d) duplicated rows under new ids, (e) other chunk size / '
                'worker count, (f) raw counts instead of dyadic log2CPM values; joined on cell id; assignments, '
                'probabilities and runner-up lists equal, correlations within 1e-9; non-trivial = a compared cell in a '
                'tree with >= 2 levels or >= 3 leaves')
    ctx.assumptions += ['a cell whose vote at some node is a near tie (best correlation matched within 1e-9 by a leaf of another child: '
                        'two-marker nodes, identical reference profiles) is excused and counted (near_ties_excused): the last bit of a BLAS '
                        'product may depend on the shape of the matrix the cell is mapped in',
                        'correlations are compared within 1e-9: BLAS may sum in a different order when the company of a '
                        'cell changes']
    n = ctx.n(20, 300)
    for k in range(n):
        sc = pipeline.gen_scenario(rng, max_levels=4, max_leaves=8, n_cells=rng.randrange(3, 9))
        var = paired.base_var(rng, sc, factor=1.0)
        # a third of the scenarios map with a level dropped or flattened: the inferred (back-filled) levels of a cell
        # must not depend on its company either
        r_cfg = rng.random()
        if r_cfg < 0.17:
            var['flatten'] = True
        elif r_cfg < 0.34 and len(sc.tree.levels) > 1:
            var['drop_level'] = rng.choice(sc.tree.levels[:-1])
        ctx.dist('reduction', 'flatten' if var['flatten'] else ('drop' if var['drop_level'] else 'none'))
        raw = rng.random() < 0.4
        if raw:
            sc.query = np.array([[float(rng.randrange(0, 50)) for _ in sc.query_genes] for _ in sc.cell_ids])
        norm = 'raw' if raw else 'log2CPM'
        flat_cell = None
        if not raw and rng.random() < 0.5:
            # a cell whose profile varies ~1e-9 times less than its neighbours' (exact dyadic values, so the
            # correlation arithmetic is as stable as for any other cell)
            flat_cell = rng.randrange(len(sc.cell_ids))
            sc.query[flat_cell] = np.array([4.0 + rng.randrange(0, 97) * 2.0 ** -33 for _ in sc.query_genes])
        ctx.dist('near_flat_cell', flat_cell is not None)
        base = paired.run_once(ctx, sc, f'b{k}', normalization=norm, **var)
        desc = {'kind': 'paired-run', 'tree': sc.tree.data, 'markers': sc.markers, 'cell_ids': sc.cell_ids,
                'query': sc.query.tolist(), 'query_genes': sc.query_genes, 'ref_genes': sc.ref_genes,
                'means': {str(a): b for a, b in sc.means.items()}, 'config': var, 'normalization': norm}
        if not base['ok']:
            desc['class'] = 'c06-base-run-raises'
            desc['error'] = base['error']
            ctx.violation(f'base run raised {base["error"]}', desc, no_input=True)
            continue
        b = paired.by_cell(base)
        ncell = len(sc.cell_ids)
        # c06_factor_one_unanimous on the implementation: at factor 1 every iteration draws all markers, so every
        # vote is unanimous -- probability 1 and no runner-up at every level where a vote was held
        for cid, rec in b.items():
            for lv in sc.tree.levels:
                a = rec.get(lv)
                if a is None or not a.get('directly_assigned'):
                    continue
                if a['bootstrapping_probability'] != 1.0 or a.get('runner_up_assignment'):
                    ctx.disagreements_checked += 1
                    d2 = dict(desc)
                    d2['class'] = 'c06-factor-one-vote-not-unanimous'
                    d2['record'] = a
                    ctx.violation(f'cell {cid} level {lv}: at bootstrap factor 1 the vote must be unanimous, got probability '
                                  f'{a["bootstrapping_probability"]} and runners-up {a.get("runner_up_assignment")}', d2)
                    break
        variants = []
        perm = list(range(ncell))
        rng.shuffle(perm)
        variants.append(('permutation', [sc.cell_ids[i] for i in perm], sc.query[perm], dict(var)))
        keep = sorted(rng.sample(range(ncell), rng.randrange(1, ncell)))
        variants.append(('subset', [sc.cell_ids[i] for i in keep], sc.query[keep], dict(var)))
        extra = np.array([[float(rng.randrange(0, 50)) if raw else rng.randrange(0, 97) / 8.0 for _ in sc.query_genes]
                          for _ in range(rng.randrange(1, 4))])
        pos = rng.randrange(0, ncell + 1)
        ids2 = sc.cell_ids[:pos] + [f'x{j:03d}' for j in range(len(extra))] + sc.cell_ids[pos:]
        q2 = np.vstack([sc.query[:pos], extra, sc.query[pos:]])
        variants.append(('superset', ids2, q2, dict(var)))
        dup = rng.randrange(ncell)
        variants.append(('duplicate', sc.cell_ids + ['dup000', 'dup001'], np.vstack([sc.query, sc.query[dup], sc.query[dup]]), dict(var)))
        one = flat_cell if flat_cell is not None else rng.randrange(ncell)
        variants.append(('single-cell', [sc.cell_ids[one]], sc.query[[one]], dict(var)))
        v2 = dict(var)
        v2['chunk_size'] = rng.randrange(1, ncell + 3)
        v2['n_processors'] = rng.randrange(1, 5)
        variants.append(('chunking', list(sc.cell_ids), sc.query, v2))
        for name, ids, q, vv in variants:
            r = paired.run_once(ctx, sc, f'v{k}_{name}', query=q, cell_ids=ids, normalization=norm,
                                encoding=rng.choice(['dense', 'csr', 'csc']), **vv)
            nontrivial = len(sc.tree.levels) >= 2 or sc.tree.n_leaves() >= 3
            ctx.count(('c06', k, name), nontrivial=nontrivial)
            ctx.dist('variant', name)
            ctx.dist('normalization', norm)
            dd = dict(desc)
            dd.update({'variant': name, 'variant_cell_ids': ids, 'variant_query': np.asarray(q).tolist(), 'variant_config': vv})
            if not r['ok']:
                dd['class'] = 'c06-variant-run-raises'
                dd['error'] = r['error']
                ctx.violation(f'{name} run raised {r["error"]}', dd)
                continue
            v = paired.by_cell(r)
            for cid in ids:
                src = cid
                if cid.startswith('dup'):
                    src = sc.cell_ids[dup]
                if src not in b:
                    continue
                diff = paired.compare_records(b[src], v[cid], sc.tree.levels)
                if diff:
                    j = ids.index(cid)
                    if paired.near_tie_cell(sc, r['output'], np.asarray(q)[j], sc.query_genes, norm, flatten=vv['flatten'], drop_level=vv['drop_level']):
                        ctx.extra['near_ties_excused'] = ctx.extra.get('near_ties_excused', 0) + 1
                        continue
                    ctx.disagreements_checked += 1
                    dd['class'] = f'c06-{name}'
                    ctx.violation(f'cell {cid}: result changed under {name}: {diff}', dd)
                    break
        if k < 2:
            ctx.sample({'tree': sc.tree.data, 'cell_ids': sc.cell_ids, 'config': var, 'normalization': norm})


def replay(ctx, rec):
    print(json.dumps(rec, indent=1)[:6000])
    return 0
