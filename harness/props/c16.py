"""C16 — validation rewrites identifiers and integers without altering the data.

Parts: choose_int_dtype on type boundaries (1601/1605); is_ensembl (1603); validate_h5ad on small generated
files (1604 + 1602); validate_h5ad and get_minmax_x_from_h5ad on block-layout files: matrices of several
HDF5 chunks / doubled blocks in both directions with non-square chunk shapes, the entries that decide the
integer type (and the only non-integer entry) placed on the edges of chunks, blocks and the matrix."""
import json
import re
import warnings
from fractions import Fraction

import numpy as np

from harness import gen
from harness.core import exc_class

CANDS = [np.uint8, np.int8, np.uint16, np.int16, np.uint32, np.int32, np.uint64, np.int64]
RANGES = [(int(np.iinfo(c).min), int(np.iinfo(c).max)) for c in CANDS]


def rhe(x):
    """round half even of an exact Fraction."""
    return round(Fraction(x))


def exact(x):
    if isinstance(x, (int, np.integer)):
        return Fraction(int(x))
    return Fraction(float(x))


def dtype_index(dt):
    for i, c in enumerate(CANDS):
        if dt is c:
            return i
    return 8


def spec_dtype(lo, hi, idx):
    """The property's own statement on the implementation's answer."""
    rl, rh = rhe(exact(lo)), rhe(exact(hi))
    first = next((i for i, (a, b) in enumerate(RANGES) if a <= rl and rh <= b), 8)
    return idx == first, first


def is_f5(lo, hi, idx):
    """numpy float bound equal to what float(iinfo.max) rounds up to."""
    if idx >= 8:
        return False
    for v in (hi,):
        if isinstance(v, (float, np.floating)):
            ft = type(v) if isinstance(v, np.floating) else np.float64
            mx = RANGES[idx][1]
            if float(ft(mx)) == float(v) and int(exact(v)) > mx:
                return True
    return False


def dtype_cases(ctx):
    from cell_type_mapper.utils.utils import choose_int_dtype
    rng = ctx.rng
    vals = []
    for k in (7, 8, 15, 16, 31, 32, 63, 64):
        for d in (0, 0.5, -0.5, 1, -1, 1.5, -1.5, 2, -2):
            for sign in (1, -1):
                base = sign * (2 ** k)
                vals.append(base + int(d) if float(d).is_integer() else None)
                for ft in (np.float32, np.float64, float):
                    vals.append(ft(base + d))
    vals = [v for v in vals if v is not None]
    vals += [0, 1, -1, 0.5, -0.5, 1.5, 2.5, -2.5, np.float32(0.49999997), 254.5, 255.5, 65534.5, 65535.5]
    pairs = []
    for v in vals:
        pairs.append((0, v) if exact(v) >= 0 else (v, 0))
        pairs.append((-1, v) if exact(v) >= 0 else (v, 1))
    n_rand = ctx.n(600, 20000)
    for _ in range(n_rand):
        a = rng.choice(vals) if rng.random() < 0.5 else rng.choice([np.float32, np.float64, int])(
            rng.choice([-1, 1]) * rng.randrange(0, 2 ** rng.randrange(1, 66)) )
        b = rng.choice(vals) if rng.random() < 0.5 else rng.choice([np.float32, np.float64, int])(
            rng.choice([-1, 1]) * rng.randrange(0, 2 ** rng.randrange(1, 66)))
        if rng.random() < 0.3:
            a = type(a)(a) + rng.choice([0.5, 0.25, 0.75]) if not isinstance(a, int) else a
        if exact(a) > exact(b):
            a, b = b, a
        pairs.append((a, b))
    cases, obs, kept = [], [], []
    for lo, hi in pairs:
        with warnings.catch_warnings():
            warnings.simplefilter('ignore')
            try:
                idx = dtype_index(choose_int_dtype((lo, hi)))
            except TypeError:
                # python ints beyond 64 bits are not numpy scalars: outside the domain
                ctx.dist('dtype_chosen', 'python-int-too-big-for-numpy')
                continue
        kept.append((lo, hi))
        obs.append(idx)
        cases.append((1601, [gen.rat(lo), gen.rat(hi)]))
    res = ctx.model(cases)
    # the float-faithful model (tag 1605): mantissa bits of the type of the UPPER bound
    def mant(v):
        if isinstance(v, np.float32):
            return 24
        if isinstance(v, (float, np.floating)):
            return 53
        return 0
    res_f = ctx.model([(1605, [mant(hi), gen.rat(lo), gen.rat(hi)]) for lo, hi in kept])
    for (lo, hi), idx, r, rf in zip(kept, obs, res, res_f):
        desc = {'kind': 'choose_int_dtype', 'lo': repr(lo), 'hi': repr(hi), 'lo_type': type(lo).__name__,
                'hi_type': type(hi).__name__, 'impl': idx, 'model': r}
        ctx.count(('dtype', repr(lo), repr(hi), type(lo).__name__, type(hi).__name__), nontrivial=True)
        ctx.dist('dtype_chosen', idx)
        ctx.sample(desc, limit=2)
        ok, first = spec_dtype(lo, hi, idx)
        desc['model_float_faithful'] = rf
        if rf != [0, idx]:
            # correspondence (a): the model of what numpy really compares must agree on EVERY input,
            # the float boundaries of finding F5 included
            ctx.disagreements_checked += 1
            d2 = dict(desc)
            d2['class'] = 'corr:IntDtype.choose_int_dtype_f'
            ctx.violation('float-faithful model and implementation of choose_int_dtype disagree', d2, no_input=ok)
        if r != [0, idx] or not ok:
            ctx.disagreements_checked += 1
            desc['spec_first_fit'] = first
            if not ok:
                desc['class'] = 'F5-float-bound-rounds-up-to-type-limit' if is_f5(lo, hi, idx) else 'dtype-too-narrow-or-not-first'
                ctx.violation(f'choose_int_dtype(({lo!r}, {hi!r})) chose candidate {idx}, '
                              f'first type holding the rounded range is {first}', desc)
            else:
                desc['class'] = 'corr:IntDtype.choose_int_dtype'
                ctx.violation('model and implementation of choose_int_dtype disagree', desc, no_input=True)


ALPH = 'ENSMUG01239.XaZ_-'


def ensembl_cases(ctx):
    from cell_type_mapper.gene_id.utils import is_ensembl
    rng = ctx.rng
    strs = ['ENSMUSG00000000001', 'ENSG00000123.4', 'ENSG1.', 'ENS1', 'ENSG', 'ENSG1.2.3', 'ensg1', 'ENSG1a',
            'XENSG1', 'ENSG12.', 'ENSGG0.0', '', 'E', 'ENSMUSG0001.12x', 'ENSG1 ', 'ENSG\n1']
    for _ in range(ctx.n(400, 8000)):
        if rng.random() < 0.5:
            s = 'ENS' + ''.join(rng.choice('GMUS') for _ in range(rng.randrange(0, 4)))
            s += ''.join(rng.choice('0123456789') for _ in range(rng.randrange(0, 5)))
            if rng.random() < 0.5:
                s += '.' + ''.join(rng.choice('0123456789') for _ in range(rng.randrange(0, 3)))
            if rng.random() < 0.2:
                s += rng.choice(ALPH)
        else:
            s = ''.join(rng.choice(ALPH) for _ in range(rng.randrange(0, 10)))
        strs.append(s)
    obs = [bool(is_ensembl(s)) for s in strs]
    res = ctx.model([(1603, [gen.str_codes(s) for s in strs])])[0]
    assert res[0] == 0
    for s, o, m in zip(strs, obs, res[1]):
        ctx.count(('ens', s), nontrivial=o)
        ctx.dist('is_ensembl', o)
        if bool(m) != o:
            ctx.disagreements_checked += 1
            ctx.violation(f'is_ensembl({s!r}) = {o} but the model says {bool(m)}',
                          {'class': 'corr:GeneId.is_ensembl', 'kind': 'is_ensembl', 'string': s}, no_input=True)


PLACE = re.compile(r'^unmapped_(\d+)_\d{4}-\d{2}-\d{2}-\d{2}-\d{2}-\d{2}$')


def canon_name(s):
    m = PLACE.match(s)
    if m:
        return [1, int(m.group(1))]
    return [0, gen.str_codes(s)]


ERR = [('Could not map any of your genes', 1), ('mapped to identical gene identifiers', 2),
       ('Cell IDs need to be unique', 3), ('gene names must be unique', 4), ("gene name '' is invalid", 5)]


def err_code(e):
    msg = str(e)
    # order of the model: cell dup, gene dup, empty gene, all unmapped, dup mapped
    for pat, code in sorted(ERR, key=lambda t: {3: 0, 4: 1, 5: 2, 1: 3, 2: 4}[t[1]]):
        if pat in msg:
            return code
    return 99


def gen_validate_case(rng, malformed):
    n_cells = rng.randrange(1, 6)
    n_genes = rng.randrange(1, 6)
    known = {'Xkr4': 'ENSMUSG00000051951', 'Rp1': 'ENSMUSG00000025900.7', 'Sox17': 'ENSMUSG00000025902',
             'Dup1': 'ENSMUSG00000000777', 'Dup2': 'ENSMUSG00000000777'}
    pool_ens = ['ENSMUSG00000000001', 'ENSMUSG00000000028.3', 'ENSG00000000003', 'ENSMUSG00000051951',
                'ENSG00000000005.12']
    pool_known = ['Xkr4', 'Rp1', 'Sox17']
    pool_unknown = ['foo', 'bar.1', 'gene_x', 'ENS12', 'unk']
    mode = rng.choice(['ens_plain', 'mixed', 'mixed', 'mixed', 'ens_versions', 'all_unknown'])
    pool = {'ens_plain': [p for p in pool_ens if '.' not in p], 'ens_versions': pool_ens,
            'all_unknown': pool_unknown}.get(mode, pool_ens + pool_known + pool_unknown)
    n_genes = min(n_genes, len(pool))
    genes = rng.sample(pool, n_genes)
    cells = [f'cell_{i}' for i in range(n_cells)]
    if malformed:
        edit = rng.choice(['dup_cell', 'dup_gene', 'empty_gene', 'dup_mapped', 'dup_mapped2'])
        if edit == 'dup_cell' and n_cells > 1:
            cells[-1] = cells[0]
        elif edit == 'dup_gene' and n_genes > 1:
            genes[-1] = genes[0]
        elif edit == 'empty_gene':
            genes[rng.randrange(n_genes)] = ''
        elif edit == 'dup_mapped':
            genes = (['Dup1', 'Dup2'] + genes)[:max(2, n_genes)]
        else:
            genes = (['Xkr4', 'ENSMUSG00000051951.2'] + [g for g in genes if g not in ('Xkr4', 'ENSMUSG00000051951')])[:max(2, n_genes)]
    n_genes = len(genes)
    vkind = rng.choice(['int', 'int_as_float', 'nonint', 'half', 'neg', 'boundary'])
    dtype = np.float32 if rng.random() < 0.5 else np.float64
    M = np.zeros((n_cells, n_genes), dtype=dtype)
    for i in range(n_cells):
        for j in range(n_genes):
            if rng.random() < 0.4:
                continue
            if vkind in ('int', 'int_as_float'):
                v = rng.randrange(0, 300)
            elif vkind == 'nonint':
                v = rng.randrange(0, 70000) + rng.choice([0.25, 0.75, 0.5, 0.0])
            elif vkind == 'half':
                v = rng.randrange(0, 10) + 0.5
            elif vkind == 'neg':
                v = rng.randrange(-200, 200) + rng.choice([0.25, 0.5, 0.0])
            else:
                v = rng.choice([254.5, 255.5, 255.25, 65535.5, 65534.5, 127.5, -128.5, 32767.5, 4294967295.5,
                                2147483647.5, 65536.0, 4294967296.0, 2147483648.0, 0.5, 1.5])
            M[i, j] = v
    enc = rng.choice(['dense', 'csr', 'csc'])
    if enc != 'dense' and not (M != 0).any():
        # a sparse matrix without any stored value is C05/C13 territory (finding F2); excluded here
        M[0, 0] = 3
    if vkind == 'int':
        M = M.astype(rng.choice([np.int32, np.int64, np.uint8 if M.max() < 256 else np.uint16]))
    return {
        'cells': cells, 'genes': genes, 'tbl': known, 'M': M, 'vkind': vkind,
        'encoding': enc,
        'layer': rng.choice([None, None, 'raw']),
        'round': rng.random() < 0.7,
        'chunks': rng.choice([None, 'contiguous', 1, 2, 3]),
        'malformed': malformed,
    }



# ------------------------------------------------------------------ block-layout cases
# The dense helpers of validation/utils.py walk a chunked matrix in blocks: _get_minmax_from_dense in
# blocks of (chunk rows * 2^k, chunk columns * 2^k), _is_dense_x_integers and _round_dense_x_to_integers
# chunk by chunk.  These cases aim at those loops: matrices of several blocks in both directions, chunk
# shapes with fewer rows than columns, more rows than columns and square, and the entries that decide the
# outcome (the extreme value that fixes the integer type; the only non-integer of the matrix) placed on
# the first / last row or column of a chunk, of a grown block, of the matrix, or anywhere.
DECIDERS = {
    'max8': [300.4, 256.0, 255.75, 1000.5, 257.25],
    'max16': [70000.3, 65536.0, 65535.75, 100000.5],
    'max32': [5.0e9, 4294968000.5],
    'neg8': [-3.6, -1.0, -0.75, -100.25, -128.0],
    'neg16': [-129.0, -200.5, -32768.0, -1000.25],
    'neg32': [-40000.25, -32769.0],
}


def _edges(n, steps):
    """first / last indices of the blocks of width s (s in steps) along an axis of length n"""
    out = {0, n - 1}
    for s in steps:
        if s <= 0:
            continue
        k = s
        while k < n:
            out.add(k - 1)
            out.add(k)
            k += s
    return sorted(out)


def _special_position(rng, shape, chunk):
    """(row, column) on a block boundary of either axis - measured with the row step AND the column
    step along both axes, for the raw chunk and every doubling of it - or anywhere"""
    steps = []
    for base in chunk:
        s = base
        while s < 2 * max(shape):
            steps.append(s)
            s *= 2
    pos = []
    for n in shape:
        pos.append(rng.choice(_edges(n, steps)) if rng.random() < 0.75 else rng.randrange(n))
    return tuple(pos)


def gen_block_case(rng, big):
    n_cells = rng.randrange(12, 90 if big else 60)
    n_genes = rng.randrange(12, 140 if big else 90)
    enc = rng.choice(['dense'] * 6 + ['csr', 'csc'])
    layout = rng.choice(['wide', 'wide', 'wide', 'tall', 'tall', 'square', 'contiguous', 'anndata'])
    chunk_shape, chunks = None, None
    if layout == 'wide':            # fewer rows than columns: the usual few-cells x many-genes chunk
        r = rng.randrange(1, min(n_cells, n_genes) // 2)
        chunk_shape = (r, rng.randrange(r + 1, n_genes + 1))
    elif layout == 'tall':
        c = rng.randrange(1, min(n_cells, n_genes) // 2)
        chunk_shape = (rng.randrange(c + 1, n_cells + 1), c)
    elif layout == 'square':
        r = rng.randrange(1, min(n_cells, n_genes))
        chunk_shape = (r, r)
    elif layout == 'contiguous':
        chunks = 'contiguous'
    if chunk_shape is not None:
        chunk_shape = (min(chunk_shape[0], n_cells), min(chunk_shape[1], n_genes))
        chunks = max(1, min(chunk_shape))          # what a sparse encoding uses (1-d chunks)
    dtype = np.float32 if rng.random() < 0.4 else np.float64
    fill = rng.choice(['ints', 'ints', 'quarter'])   # 'ints': whole numbers stored as floats
    M = np.zeros((n_cells, n_genes), dtype=dtype)
    for i in range(n_cells):
        for j in range(n_genes):
            if rng.random() < 0.5:
                M[i, j] = rng.randrange(1, 51) + (0.25 if fill == 'quarter' else 0.0)
    grid = chunk_shape or (max(1, n_cells // 3), max(1, n_genes // 4))
    kinds = rng.choice([['max8'], ['max16'], ['max32'], ['neg8'], ['neg16'], ['neg32'], ['neg8', 'max8'],
                        ['neg8', 'max16'], ['neg16', 'max16'], ['max8'], ['max16'], []])
    special = []
    taken = set()
    for kd in kinds:
        v = rng.choice(DECIDERS[kd])
        for _ in range(20):
            pos = _special_position(rng, M.shape, grid)
            if pos not in taken:
                break
        taken.add(pos)
        M[pos] = v
        special.append([kd, list(pos), float(M[pos])])
    if rng.random() < 0.6 or not special:
        # the only entry that may make the matrix non-integer (when fill == 'ints' and the deciders are whole)
        for _ in range(20):
            pos = _special_position(rng, M.shape, grid)
            if pos not in taken:
                break
        if pos not in taken:
            M[pos] = rng.choice([7.5, 0.5, 12.25, 3.75])
            special.append(['fraction', list(pos), float(M[pos])])
    known = {'Xkr4': 'ENSMUSG00000051951', 'Rp1': 'ENSMUSG00000025900.7'}
    genes = [f'ENSMUSG{j:011d}' for j in range(1000, 1000 + n_genes)]
    if rng.random() < 0.3:
        genes[rng.randrange(n_genes)] = 'Xkr4'
    if rng.random() < 0.2:
        genes[rng.randrange(n_genes)] = 'some_unknown_gene'
    return {
        'cells': [f'cell_{i}' for i in range(n_cells)], 'genes': genes, 'tbl': known, 'M': M,
        'vkind': 'block:' + '+'.join(kinds or ['none']), 'encoding': enc,
        'layer': rng.choice([None, None, None, 'raw']),
        'round': rng.random() < 0.9,
        'chunks': chunks, 'chunk_shape': chunk_shape if enc == 'dense' else None,
        'layout': layout if enc == 'dense' else 'sparse-1d-chunks' if isinstance(chunks, int) else f'sparse-{chunks}', 'special': special,
        'malformed': False, 'big': True,
    }


def stored_minmax(c):
    """exact (min, max) of the values the file stores (a sparse encoding stores no zeros)"""
    M = c['M']
    vals = M.reshape(-1) if c['encoding'] == 'dense' else M[M != 0]
    if vals.size == 0:
        return None
    return exact(vals.min()), exact(vals.max())


def validate_cases(ctx):
    rng = ctx.rng
    cases = [gen_validate_case(rng, malformed=(rng.random() < 0.25)) for _ in range(ctx.n(120, 3000))]
    run_validate(ctx, cases, 'validate')


def block_cases(ctx):
    rng = ctx.rng
    big = ctx.n(0, 1) == 1
    cases = [gen_block_case(rng, big) for _ in range(ctx.n(110, 1500))]
    run_validate(ctx, cases, 'blocks')


def run_validate(ctx, case_list, label):
    import anndata
    from cell_type_mapper.validation.validate_h5ad import validate_h5ad
    from cell_type_mapper.validation.utils import get_minmax_x_from_h5ad
    from cell_type_mapper.gene_id.gene_id_mapper import GeneIdMapper
    recs = []
    d = ctx.scratch / label
    d.mkdir()
    for i, c in enumerate(case_list):
        src = d / f'in_{i}.h5ad'
        out = d / f'out_{i}.h5ad'
        tmp = d / f'tmp_{i}'
        tmp.mkdir()
        M = c['M']
        obs_cols = {'anno': [f'a{k % 2}' for k in range(len(c['cells']))], 'num': list(range(len(c['cells'])))}
        with warnings.catch_warnings():
            warnings.simplefilter('ignore')
            gen.write_h5ad(src, M, c['cells'], c['genes'], encoding=c['encoding'], layer=c['layer'],
                           obs_cols=obs_cols, chunks=c['chunks'], chunk_shape=c.get('chunk_shape'),
                           x_other=np.full(M.shape, 7.25, dtype=np.float32) if c['layer'] else None)
        before = gen.digest(src)
        stored = M  # what is stored (for sparse: implicit zeros are not 'stored values')
        if c['encoding'] == 'dense':
            vals = M.reshape(-1)
        else:
            vals = M[M != 0]
        is_int_dtype = np.issubdtype(M.dtype, np.integer)
        x_is_int = bool(is_int_dtype or vals.size == 0 or np.all(vals == np.round(vals)))
        obs = {}
        # the inner function that feeds choose_int_dtype, on the file as it is laid out
        want = stored_minmax(c)
        if want is not None and not c['malformed']:
            try:
                with warnings.catch_warnings():
                    warnings.simplefilter('ignore')
                    lo_, hi_ = get_minmax_x_from_h5ad(src, layer=c['layer'] or 'X')
                obs['minmax'] = [repr(lo_), repr(hi_)]
                obs['minmax_ok'] = (exact(lo_), exact(hi_)) == want
            except Exception as e:
                obs['minmax'] = f'{exc_class(e)}: {e}'[:200]
                obs['minmax_ok'] = False
            obs['minmax_unchanged'] = gen.digest(src) == before
        try:
            with warnings.catch_warnings():
                warnings.simplefilter('ignore')
                res, _ = validate_h5ad(h5ad_path=src, gene_id_mapper=GeneIdMapper(data=c['tbl']),
                                       tmp_dir=str(tmp), layer=c['layer'] or 'X',
                                       round_to_int=c['round'], valid_h5ad_path=str(out), expected_max=None)
            obs['ok'] = True
            obs['path'] = None if res is None else str(res)
        except RuntimeError as e:
            obs['ok'] = False
            obs['err'] = err_code(e)
            obs['msg'] = str(e)[:200]
        except Exception as e:   # vacuous sparse arrays etc.
            obs['ok'] = False
            obs['err'] = 98
            obs['msg'] = f'{exc_class(e)}: {e}'[:300]
        after = gen.digest(src)
        obs['input_unchanged'] = before == after
        obs['tmp_left'] = sorted(p.name for p in tmp.iterdir())
        if obs.get('ok') and obs['path'] is not None:
            X, a = gen.read_x_dense(obs['path'])
            obs['X'] = X
            obs['X_dtype'] = str(X.dtype)
            obs['cells'] = list(a.obs.index.values)
            obs['anno'] = list(a.obs['anno'].values) if 'anno' in a.obs else None
            obs['num'] = [int(v) for v in a.obs['num'].values] if 'num' in a.obs else None
            obs['genes'] = list(a.var.index.values)
            uns = dict(a.uns)
            obs['n_mapped'] = int(uns['AIBS_CDM_n_mapped_genes']) if 'AIBS_CDM_n_mapped_genes' in uns else None
            gm = uns.get('AIBS_CDM_gene_mapping')
            obs['mapping'] = None if gm is None else {k: str(v) for k, v in dict(gm).items()}
        elif obs.get('ok'):
            obs['out_exists'] = out.exists()
        recs.append((c, x_is_int, obs))
        for p in (src, out):
            if p.exists():
                p.unlink()
    # model
    cases = []
    for c, x_is_int, obs in recs:
        tbl = [[gen.str_codes(k), gen.str_codes(v)] for k, v in c['tbl'].items()]
        cases.append((1604, [tbl, [gen.str_codes(s) for s in c['cells']], [gen.str_codes(s) for s in c['genes']],
                             c['layer'] is None, c['round'], x_is_int]))
    res = ctx.model(cases)
    round_cases, round_idx = [], []
    for k, ((c, x_is_int, obs), r) in enumerate(zip(recs, res)):
        if r[0] == 0 and r[1][4]:
            round_cases.append((1602, [gen.rat(v) for v in c['M'].reshape(-1)]))
            round_idx.append(k)
    rres = dict(zip(round_idx, ctx.model(round_cases)))
    for k, ((c, x_is_int, obs), r) in enumerate(zip(recs, res)):
        desc = {'kind': 'validate_h5ad', 'cells': c['cells'], 'genes': c['genes'], 'tbl': c['tbl'],
                'M': c['M'].tolist(), 'M_dtype': str(c['M'].dtype), 'encoding': c['encoding'], 'layer': c['layer'],
                'round': c['round'], 'chunks': c['chunks'], 'chunk_shape': c.get('chunk_shape'),
                'special_entries': c.get('special'), 'model': r,
                'observed': {kk: (vv.tolist() if hasattr(vv, 'tolist') else vv) for kk, vv in obs.items()}}
        changed_ids = False
        nontriv = (not c['malformed']) and (r[0] == 0 and (r[1][4] or r[1][2]))
        ctx.count(('val', label, k, json.dumps(desc['genes']), desc['encoding'], str(desc['layer'])), nontrivial=bool(nontriv))
        ctx.dist('validate_outcome', 'error%d' % r[1] if r[0] == 1 else ('newfile' if r[1][0] else 'nofile'))
        ctx.dist('encoding', c['encoding'])
        ctx.dist('values', c['vkind'])
        if c.get('big'):
            ctx.dist('block_layout', c['layout'])
            if c.get('chunk_shape'):
                cs = c['chunk_shape']
                ctx.dist('block_chunk_aspect', 'rows<cols' if cs[0] < cs[1] else 'rows>cols' if cs[0] > cs[1] else 'square')
                for kd, pos, _v in c['special']:
                    # where the deciding entry sits inside its chunk-column / chunk-row
                    ctx.dist('block_special_col_in_chunk', 'col-offset>=chunk-rows' if pos[1] % cs[1] >= cs[0] else 'col-offset<chunk-rows')
                    ctx.dist('block_special_row_in_chunk', 'row-offset>=chunk-cols' if pos[0] % cs[0] >= cs[1] else 'row-offset<chunk-cols')
            if nontriv:
                ctx.sample({'shape': list(c['M'].shape), 'M_dtype': str(c['M'].dtype), 'encoding': c['encoding'],
                            'layout': c['layout'], 'chunk_shape': c.get('chunk_shape'), 'chunks': c['chunks'],
                            'special_entries': c['special'], 'layer': c['layer'], 'round': c['round'],
                            'out_dtype': obs.get('X_dtype')}, limit=7)
        elif nontriv:
            ctx.sample({kk: desc[kk] for kk in ('genes', 'encoding', 'layer', 'round', 'M', 'model')}, limit=4)
        problems = []
        prop_fail = []
        if obs.get('minmax_ok') is False:
            prop_fail.append(f'minmax of the stored matrix: get_minmax_x_from_h5ad returned {obs["minmax"]}, the stored values '
                             f'span {[float(v) for v in stored_minmax(c)]}')
        if obs.get('minmax_unchanged') is False:
            prop_fail.append('input file bytes changed by get_minmax_x_from_h5ad')
        if not obs['input_unchanged']:
            prop_fail.append('input file bytes changed')
        if obs['tmp_left']:
            prop_fail.append(f'scratch not empty: {obs["tmp_left"]}')
        if r[0] == 1:
            if obs.get('ok'):
                prop_fail.append(f'input should be rejected (model error {r[1]}) but was accepted')
            elif obs['err'] != r[1]:
                problems.append(f'error kind differs: impl {obs["err"]} ({obs.get("msg")}) model {r[1]}')
        elif r[0] == 0:
            newf, mgenes, mmap, nmapped, rounded = r[1]
            if not obs.get('ok'):
                problems.append(f'implementation raised {obs.get("msg")} but the model accepts')
            elif (obs['path'] is not None) != bool(newf):
                (prop_fail if not newf else problems).append(
                    f'new file written: impl {obs["path"] is not None}, model {bool(newf)}')
            elif obs['path'] is not None:
                if obs['cells'] != c['cells'] or obs['anno'] != [f'a{q % 2}' for q in range(len(c['cells']))] \
                        or obs['num'] != list(range(len(c['cells']))):
                    prop_fail.append('cells / annotations differ from the input')
                if [canon_name(g) for g in obs['genes']] != mgenes:
                    prop_fail.append(f'genes of the new file {obs["genes"]} differ from the model {mgenes}')
                X = obs['X']
                Mx = c['M']
                if rounded:
                    exp = np.array(rres[k][1], dtype=object).reshape(Mx.shape)
                    got = np.array([[int(v) for v in row] for row in X.tolist()], dtype=object).reshape(Mx.shape) \
                        if X.size else X
                    if X.shape != Mx.shape or not np.issubdtype(X.dtype, np.integer) or not (got == exp).all():
                        if X.shape == Mx.shape and X.size > 64:
                            bad_at = [tuple(int(q) for q in ix) for ix in np.argwhere(got != exp)[:3]]
                            prop_fail.append(f'rounded X differs: dtype {X.dtype}; ' + '; '.join(
                                f'X{ix} input {Mx[ix]!r} became {X[ix]!r}, expected {exp[ix]}' for ix in bad_at)
                                + f' ({int((got != exp).sum())} entries differ)')
                        else:
                            prop_fail.append(f'rounded X differs: got {X.tolist()} ({X.dtype}) expected {exp.tolist()}')
                else:
                    if X.shape != Mx.shape or not (X.astype(np.float64) == Mx.astype(np.float64)).all():
                        prop_fail.append('X differs from the requested layer')
                exp_map = {}
                for a_, b_ in mmap:
                    exp_map[''.join(map(chr, a_))] = b_
                got_map = {kk: canon_name(vv) for kk, vv in (obs['mapping'] or {}).items()}
                if got_map != exp_map:
                    prop_fail.append(f'recorded renaming {obs["mapping"]} differs from the model {exp_map}')
                if obs['n_mapped'] != nmapped:
                    prop_fail.append(f'n_mapped_genes {obs["n_mapped"]} differs from the model {nmapped}')
            else:
                if obs.get('out_exists'):
                    prop_fail.append('no change needed but a file exists at the output path')
        else:
            problems.append('model could not decode the case')
        if prop_fail or problems:
            ctx.disagreements_checked += 1
            if prop_fail:
                desc['class'] = 'validate:' + prop_fail[0].split(':')[0][:40]
                if prop_fail[0].startswith('rounded X differs'):
                    from cell_type_mapper.utils.utils import choose_int_dtype
                    st = c['M'].reshape(-1) if c['encoding'] == 'dense' else c['M'][c['M'] != 0]
                    lo_, hi_ = st.min(), st.max()
                    if is_f5(lo_, hi_, dtype_index(choose_int_dtype((lo_, hi_)))):
                        desc['class'] = 'F5-float-bound-rounds-up-to-type-limit'
                ctx.violation('validate_h5ad: ' + '; '.join(prop_fail + problems), desc)
            else:
                desc['class'] = 'corr:GeneId.validate'
                ctx.violation('validate_h5ad and its model disagree: ' + '; '.join(problems), desc, no_input=True)


def run(ctx):
    ctx.rule = ('choose_int_dtype on all boundary values 2^k(+-0.5,1,1.5,2), k in {7,8,15,16,31,32,63,64}, both signs, '
                'int/float/float32/float64 + random pairs; is_ensembl on generated strings; validate_h5ad on generated '
                'files (<=5x5, dense/csr/csc, X or layer, chunk layouts, id mixes, rounding on/off, 25% malformed); '
                'validate_h5ad + get_minmax_x_from_h5ad on block-layout files (12-90 cells x 12-140 genes; dense in HDF5 chunks '
                '(r, c) with r < c, r > c, r = c, contiguous, as anndata writes; csr/csc in 1-d chunks; the entries deciding the '
                'integer type - max above 255 / 65535 / 2^32, negative min below 0 / -128 / -32768 - and the only non-integer '
                'entry placed on first/last rows and columns of chunks, of doubled blocks and of the matrix). '
                'non-trivial = distinct dtype pair / string accepted by is_ensembl / validate case that is well-formed '
                'and changes ids or rounds')
    ctx.assumptions += ['is_x_integers is an oracle input of the model (generated values are integers or at least 0.25 away)',
                        'NaN / infinite bounds are not modelled', 'species detection (gene_id_mapper=None) is not exercised']
    dtype_cases(ctx)
    ensembl_cases(ctx)
    validate_cases(ctx)
    block_cases(ctx)


def replay(ctx, rec):
    print(json.dumps(rec, indent=1)[:4000])
    return 0
