"""C19, FileTracker part — the tie between coq/Model/Tracker.v and the real
cell_type_mapper.file_tracker.file_tracker.FileTracker / utils.mkstemp_clean / utils._clean_up.

A case is a small directory tree in a sandbox (inputs, an output directory with files of earlier runs, a
tmp_dir parent with stale `file_tracker_*` directories) and a life of one tracker: FileTracker(tmp_dir),
add_file / real_location / file_exists calls, writes of "the pipeline" to the locations the tracker handed
out, `del`.  The real calls are made one by one; after every call the output (value / exception class), the
listing of the sandbox with the content of every file and the three private containers of the tracker are
recorded.  The names tempfile drew are read off the observation and are inputs of the model steps.
 (a) correspondence: the extracted `run_tracker_ops` (tag 1951) gives the same output, the same file system
     and the same tracker state after EVERY step; one random step per case is also replayed through
     `run_tracker_step` (tag 1950, decoding of an arbitrary tracker state); utils._clean_up on random nested
     trees (tag 1952) and utils.mkstemp_clean with delete False/True (tag 1953) are compared directly;
 (b) the property on the observation: inputs unchanged, tracker directory gone and nothing else new under the
     tmp_dir parent, new files only where add_file(..., input_only=False) asked for them and holding what
     the handed-out location held, real_location of a pre-existing file is a faithful copy, a twin run with
     other stale files in the tmp_dir parent gives the same outputs and leaves the stale files alone.
A valid stream (the protocol run_mapping follows: writes only to handed-out locations) and a malformed stream
(directories / missing files / files as parents given to add_file, unlisted queries, tmp_dir that is no
directory, the environment writing anywhere, adding a handed-out location itself) are generated.
 (c) THE REAL CALLER: the life of the FileTracker of a real run_mapping is recorded (real_life) and the hypotheses of the
     theorems (Tracker.life_premise_ow, tag 1954) are evaluated on it (first run, second run into the same output paths, obsm run): class tracker-premise-false-on-real-run."""
import os
import pathlib
import shutil
import sys

ADD_ERR = (('exists but is not a file', 1), ('will not be able to write', 3), ('is not a file', 2))
IN_NAMES = ['query.h5ad', 'stats.h5', 'markers.json', 'noext', 'a.b.c', 'dup.h5.h5', 'q_.h5', '.hidden', 'query.h5']
OUT_NAMES = ['result.json', 'result.csv', 'log.txt', 'out.h5', 'result', 'query.h5ad']


def content(cid):
    return b'' if cid == 0 else b'c%d' % cid


def content_id(b):
    if b == b'':
        return 0
    if b[:1] == b'c' and b[1:].isdigit():
        return int(b[1:])
    return -1


class Box:
    """A sandbox directory; paths <-> tuples of name components <-> lists of integers."""

    def __init__(self, root):
        self.root = pathlib.Path(root).resolve()
        self.root.mkdir(parents=True)
        self.ids = {}

    def abs(self, rel):
        return self.root.joinpath(*rel)

    def rel(self, p):
        return tuple(pathlib.Path(p).relative_to(self.root).parts)

    def enc(self, rel):
        return [self.ids.setdefault(c, len(self.ids) + 1) for c in rel]

    def build(self, layout):
        for rel in sorted(layout, key=len):
            v = layout[rel]
            if v == 'dir':
                self.abs(rel).mkdir()
            else:
                self.abs(rel).write_bytes(content(v))

    def snapshot(self):
        snap = {(): 'dir'}
        for d, dirs, files in os.walk(self.root):
            r = self.rel(d)
            for x in dirs:
                snap[r + (x,)] = 'dir'
            for x in files:
                snap[r + (x,)] = content_id((pathlib.Path(d) / x).read_bytes())
        return snap

    def enc_fs(self, snap):
        return [[self.enc(r), 1, 0] if v == 'dir' else [self.enc(r), 0, v] for r, v in sorted(snap.items())]


def dec_fs(entries):
    return {tuple(p): ('dir' if k == 1 else c) for p, k, c in entries}


def enc_snap(box, snap):
    return {tuple(box.enc(r)): v for r, v in snap.items()}


def tracker_state(box, t):
    if t is None:
        return []
    tmp = [] if t.tmp_dir is None else [box.enc(box.rel(t.tmp_dir))]
    return [[tmp,
             [[box.enc(box.rel(k)), box.enc(box.rel(v))] for k, v in t._path_to_location.items()],
             [[box.enc(box.rel(k)), 1 if v else 0] for k, v in t._file_pre_exists.items()],
             [box.enc(box.rel(k)) for k in t._to_write_out]]]


# ------------------------------------------------------------------ generation
def gen_layout(rng, tmp_parent):
    lay = {('in',): 'dir', ('out',): 'dir', tmp_parent[:1]: 'dir', tmp_parent: 'dir'}
    cid = [0]

    def newc():
        if rng.random() < 0.1:
            return 0
        cid[0] += 1
        return cid[0]
    if rng.random() < 0.4:
        lay[('in', 'sub')] = 'dir'
    inputs = []
    for nm in rng.sample(IN_NAMES, rng.randrange(1, 5)):
        d = rng.choice([d for d in [('in',), ('in',), ('in', 'sub'), ('out',)] if d in lay])
        lay[d + (nm,)] = newc()
        inputs.append(d + (nm,))
    old_outputs = []
    for nm in rng.sample(OUT_NAMES, rng.randrange(0, 3)):
        if ('out', nm) not in lay:
            lay[('out', nm)] = newc()
            old_outputs.append(('out', nm))
    stale = gen_stale(rng, tmp_parent, newc)
    lay.update(stale)
    return lay, inputs, old_outputs, set(stale), cid[0]


def gen_stale(rng, tmp_parent, newc):
    st = {}
    for k in range(rng.randrange(0, 4)):
        kind = rng.random()
        if kind < 0.6:
            d = tmp_parent + ('file_tracker_' + ''.join(rng.choice('abcdefgh_0123') for _ in range(8)),)
            st[d] = 'dir'
            for nm in rng.sample(IN_NAMES, rng.randrange(0, 3)):
                st[d + (nm.replace('.', '_stale.', 1),)] = newc()
            if rng.random() < 0.3:
                st[d + ('deeper',)] = 'dir'
                st[d + ('deeper', 'x.bin')] = newc()
        else:
            st[tmp_parent + (rng.choice(['stale.txt', 'query_abcd1234.h5ad', 'result_buffer_x', 'tmpzzz']),)] = newc()
    return st


def gen_case(rng, malformed):
    tmp_parent = rng.choice([('tmp',), ('tmp',), ('tmp', 'deep'), ('out',)])
    lay, inputs, old_outputs, stale, ncid = gen_layout(rng, tmp_parent)
    r = rng.random()
    tmp = None if r < 0.35 else tmp_parent
    tmp_kind = 'None' if tmp is None else 'dir'
    if malformed and rng.random() < 0.12:
        tmp = rng.choice([('tmp', 'missing'), inputs[0], ('nowhere', 'at', 'all')])
        tmp_kind = 'not-a-directory'
    ops = [('create', tmp)]
    new_out = [('out', 'new_' + nm) for nm in OUT_NAMES] + [('in', 'sub', 'new.h5')] * (('in', 'sub') in lay)
    listed = []
    nxt = [ncid]

    def cid():
        nxt[0] += 1
        return nxt[0]
    for _ in range(rng.randrange(2, 10)):
        r = rng.random()
        if malformed and r < 0.45:
            m = rng.randrange(11)
            if m == 0:
                ops.append(('add', rng.choice([('in',), ('out',), tmp_parent, ()]), rng.random() < 0.5))
            elif m == 1:
                ops.append(('add', ('in', 'missing.h5'), True))
            elif m == 2:
                ops.append(('add', ('out', 'missing_dir', 'x.json'), False))
            elif m == 3:
                ops.append(('add', inputs[0] + ('x.json',), rng.random() < 0.5))
            elif m == 4:
                ops.append((rng.choice(['loc', 'exists']), rng.choice(new_out + inputs)))
            elif m == 5:
                ops.append(('write', rng.choice(inputs + old_outputs), cid()))
            elif m == 6:
                ops.append(('write', rng.choice([('in',), tmp_parent, ('out', 'nodir', 'x'), inputs[0] + ('y',)]), cid()))
            elif m == 7:
                ops.append(('write', rng.choice([tmp_parent + ('intruder.txt',), ('out', 'direct.json')]), cid()))
            elif m == 8 and listed:
                ops.append(('add', ('locof', rng.choice(listed)), rng.random() < 0.5))
            elif m == 9 and listed:
                ops.append(('write', ('sibling', rng.choice(listed)), cid()))
            elif m == 10 and stale:
                ops.append(('add', rng.choice(sorted(stale)), rng.random() < 0.7))
            continue
        if r < 0.30 or not listed:
            p = rng.choice(inputs)
            ops.append(('add', p, rng.random() < 0.8))
            listed.append(p)
        elif r < 0.45:
            p = rng.choice(new_out)
            ops.append(('add', p, False))
            listed.append(p)
        elif r < 0.52 and old_outputs:
            p = rng.choice(old_outputs)
            ops.append(('add', p, False))
            listed.append(p)
        elif r < 0.68:
            ops.append(('loc', rng.choice(listed)))
        elif r < 0.76:
            ops.append(('exists', rng.choice(listed)))
        else:
            p = rng.choice(listed)
            ops.append(('loc', p))
            ops.append(('write', ('locof', p), cid()))
    ops.append(('del',))
    return {'layout': lay, 'stale': stale, 'tmp_parent': tmp_parent, 'ops': ops, 'tmp_kind': tmp_kind,
            'malformed': malformed}


def restale(rng, case):
    """the same case with other files lying in the tmp_dir parent"""
    lay = {k: v for k, v in case['layout'].items() if k not in case['stale']}
    c = [10 ** 6]

    def newc():
        c[0] += 1
        return c[0]
    st = {}
    while not st:
        st = {k: v for k, v in gen_stale(rng, case['tmp_parent'], newc).items() if k not in lay}
    lay.update(st)
    twin = dict(case)
    twin['layout'] = lay
    twin['stale'] = set(st)
    return twin


# ------------------------------------------------------------------ the real calls
def execute(box, case, hook_errs):
    from cell_type_mapper.file_tracker.file_tracker import FileTracker
    box.build(case['layout'])
    snap0 = box.snapshot()
    tracker = None
    lastloc = {}
    steps = []          # dict(kind, mop, out, snap, tstate, ...)
    as_str = True
    for op in case['ops']:
        kind = op[0]
        info = {'kind': kind}
        if kind in ('add', 'loc', 'exists', 'write'):
            tgt = op[1]
            if tgt and tgt[0] == 'locof':
                if tgt[1] not in lastloc:
                    continue
                rel = lastloc[tgt[1]]
            elif tgt and tgt[0] == 'sibling':
                if tgt[1] not in lastloc or len(lastloc[tgt[1]]) == 0:
                    continue
                rel = lastloc[tgt[1]][:-1] + ('sibling.txt',)
            else:
                rel = tuple(tgt)
            info['rel'] = rel
            path = box.abs(rel)
            as_str = not as_str
            arg = str(path) if as_str else path
        if kind == 'create':
            tmp = None if op[1] is None else box.abs(op[1])
            try:
                tracker = FileTracker(tmp_dir=None if tmp is None else str(tmp))
                out = [0]
                name = 0 if tmp is None else box.enc(box.rel(tracker.tmp_dir))[-1]
            except (FileNotFoundError, NotADirectoryError):
                tracker = None
                out = [3, 9]
                name = 0
            hook_errs.clear()        # the half-made object's __del__ (AttributeError, ignored)
            mop = [0, [] if tmp is None else [box.enc(op[1])], name]
            info['tmp_rel'] = None if tracker is None or tracker.tmp_dir is None else box.rel(tracker.tmp_dir)
        elif kind == 'add':
            io = op[2]
            info['input_only'] = io
            name = 0
            try:
                tracker.add_file(arg, input_only=io)
                out = [0]
                loc = box.rel(tracker._path_to_location[str(path)])
                if tracker.tmp_dir is not None:
                    name = box.enc(loc)[-1]
            except RuntimeError as e:
                code = [c for t, c in ADD_ERR if t in str(e)]
                out = [3, code[0] if code else -1]
            mop = [1, box.enc(rel), 1 if io else 0, name]
        elif kind == 'loc':
            try:
                loc = box.rel(tracker.real_location(arg))
                lastloc[op[1]] = loc
                info['loc'] = loc
                out = [1, box.enc(loc)]
            except RuntimeError as e:
                out = [3, 4 if 'not listed' in str(e) else -1]
            mop = [2, box.enc(rel)]
        elif kind == 'exists':
            try:
                b = tracker.file_exists(arg)
                info['pre'] = bool(b)
                out = [2, 1 if b else 0]
            except RuntimeError as e:
                out = [3, 4 if 'not listed' in str(e) else -1]
            mop = [3, box.enc(rel)]
        elif kind == 'write':
            try:
                with open(path, 'wb') as f:
                    f.write(content(op[2]))
                out = [0]
            except (IsADirectoryError, FileNotFoundError, NotADirectoryError):
                out = [3, 8]
            mop = [4, box.enc(rel), op[2]]
        elif kind == 'del':
            info['state_before'] = {'loc': {box.rel(k): box.rel(v) for k, v in tracker._path_to_location.items()},
                                    'out': [box.rel(k) for k in tracker._to_write_out]}
            errs = []
            try:
                type(tracker).__del__(tracker)      # what `del tracker` runs
            except Exception as e:                  # the interpreter prints "Exception ignored" and goes on
                errs.append(e)
            # make the interpreter's own call at garbage collection a no-op (it already ran)
            tracker._to_write_out = []
            tracker.tmp_dir = None
            tracker = None
            out = [0] if not errs else [3, 10]
            mop = [5]
        info.update(mop=mop, out=out, snap=box.snapshot(), tstate=tracker_state(box, tracker))
        steps.append(info)
        if kind == 'create' and tracker is None:
            break
    return snap0, steps


# ------------------------------------------------------------------ the property on the observation
def under(d, p):
    return len(p) > len(d) and p[:len(d)] == d


def check_property(ctx, case, snap0, steps, box):
    """-> list of (class, message)"""
    bad = []
    if not steps or steps[-1]['kind'] != 'del':
        return bad
    final = steps[-1]['snap']
    pre_del = steps[-2]['snap'] if len(steps) > 1 else snap0
    tmp_rel = steps[0].get('tmp_rel')
    written = set()
    requested = set()
    for s in steps:
        if s['kind'] == 'write' and s['out'] == [0]:
            written.add(s['rel'])
        if s['kind'] == 'add' and not s['input_only']:
            requested.add(s['rel'])
    # (1) inputs untouched
    for p, v in snap0.items():
        if v != 'dir' and p not in written and final.get(p) != v:
            bad.append(('tracker-input-changed', f'{"/".join(p)} held c{v} before the tracker was made and holds '
                        f'{final.get(p)!r} after del (it was never written by the environment)'))
    # (2) scratch empty
    if tmp_rel is not None:
        left = [p for p in final if p == tmp_rel or under(tmp_rel, p)]
        if left:
            bad.append(('tracker-scratch-left', f'after del the tracker directory still holds {sorted(left)[:4]}'))
        for p in final:
            if under(tmp_rel[:-1], p) and p not in snap0 and p not in requested and p not in written:
                bad.append(('tracker-scratch-left', f'new entry {"/".join(p)} under the tmp_dir parent'))
    # (3) outputs only where requested, holding what the handed-out location held
    for p in final:
        if p not in snap0 and p not in requested and p not in written:
            bad.append(('tracker-file-not-requested', f'{"/".join(p)} is new after del and was never requested'))
    sb = steps[-1]['state_before']
    if tmp_rel is not None and steps[-1]['out'] == [0]:
        inside = [d for d in sb['out'] if d == tmp_rel or under(tmp_rel, d)]
        if not inside:
            for d in sb['out']:
                src = sb['loc'][d]
                if final.get(d) != pre_del.get(src) or final.get(d) in (None, 'dir'):
                    bad.append(('tracker-output-content', f'{"/".join(d)} holds {final.get(d)!r} after del, its '
                                f'location {"/".join(src)} held {pre_del.get(src)!r}'))
    # (4) copy faithful
    w = set()
    pre = {}
    for s in steps:
        if s['kind'] == 'write' and s['out'] == [0]:
            w.add(s['rel'])
        if s['kind'] == 'exists' and 'pre' in s:
            pre[s['rel']] = s['pre']
        if s['kind'] == 'loc' and 'loc' in s and tmp_rel is not None and snap0.get(s['rel']) not in (None, 'dir'):
            if s['rel'] not in w and s['loc'] not in w and s['snap'].get(s['loc']) != snap0[s['rel']]:
                bad.append(('tracker-copy-differs', f'real_location of {"/".join(s["rel"])} holds '
                            f'{s["snap"].get(s["loc"])!r}, the original c{snap0[s["rel"]]}'))
    return bad


def norm_out(o, box_back):
    if o[0] == 1:
        return ('loc',)
    return tuple(o)


def check_twin(case, twin, a, b):
    """a, b = (snap0, steps) of the case and of its twin with other stale files -> list of (class, message)"""
    bad = []
    (s0a, sa), (s0b, sb) = a, b
    if [norm_out(s['out'], None) for s in sa] != [norm_out(s['out'], None) for s in sb] or len(sa) != len(sb):
        bad.append(('tracker-stale-changes-output', 'the outputs of the calls differ between two runs that differ only '
                    'in the stale files of the tmp_dir parent'))
        return bad
    for (snap0, steps, st) in ((s0a, sa, case['stale']), (s0b, sb, twin['stale'])):
        fin = steps[-1]['snap']
        for p in st:
            if fin.get(p) != snap0.get(p):
                bad.append(('tracker-stale-touched', f'stale {"/".join(p)} changed from {snap0.get(p)!r} to {fin.get(p)!r}'))
    tmpa, tmpb = sa[0].get('tmp_rel'), sb[0].get('tmp_rel')

    def visible(steps, st, tmp):
        fin = steps[-1]['snap']
        return {p: v for p, v in fin.items() if p not in st and not (tmp is not None and (p == tmp or under(tmp, p)))}
    # the contents of what a real_location call handed out, call by call
    for x, y in zip(sa, sb):
        if x['kind'] == 'loc' and 'loc' in x and x['snap'].get(x['loc']) != y['snap'].get(y['loc']):
            bad.append(('tracker-stale-changes-output', f'real_location of {"/".join(x["rel"])} holds different contents'))
    if visible(sa, case['stale'], tmpa) != visible(sb, twin['stale'], tmpb):
        bad.append(('tracker-stale-changes-output', 'the final files differ between two runs that differ only in the '
                    'stale files of the tmp_dir parent'))
    return bad


# ------------------------------------------------------------------ parts
def tracker_cases(ctx):
    rng = ctx.rng
    n = ctx.n(140, 1500)
    hook_errs = []
    old_hook = sys.unraisablehook
    sys.unraisablehook = lambda u: hook_errs.append(u)
    runs = []
    try:
        for k in range(n):
            malformed = rng.random() < 0.3
            case = gen_case(rng, malformed)
            base = ctx.scratch / 'tracker' / f'k{k}'
            box = Box(base / 'a')
            snap0, steps = execute(box, case, hook_errs)
            twin = None
            if not malformed and case['tmp_kind'] == 'dir' and rng.random() < 0.5:
                tw = restale(rng, case)
                boxb = Box(base / 'b')
                twin = (tw, execute(boxb, tw, hook_errs))
            runs.append((case, box, snap0, steps, twin))
            shutil.rmtree(base, ignore_errors=True)
    finally:
        sys.unraisablehook = old_hook
    # ---- model
    batch = []
    for case, box, snap0, steps, twin in runs:
        batch.append((1951, [box.enc_fs(snap0), [s['mop'] for s in steps]]))
    res = ctx.model(batch)
    single = []
    for (case, box, snap0, steps, twin), r in zip(runs, res):
        i = rng.randrange(len(steps))
        before_fs = snap0 if i == 0 else steps[i - 1]['snap']
        before_t = [] if i == 0 else steps[i - 1]['tstate']
        single.append((1950, [box.enc_fs(before_fs), before_t, steps[i]['mop']], i))
    res1 = ctx.model([(t, x) for t, x, _ in single])
    for (case, box, snap0, steps, twin), r, (_, _, i), r1 in zip(runs, res, single, res1):
        stream = 'malformed' if case['malformed'] else 'valid'
        ctx.dist('tracker.stream', stream)
        ctx.dist('tracker.tmp_dir', case['tmp_kind'] + ('' if case['tmp_parent'] != ('out',) else ' (= output directory)'))
        ctx.dist('tracker.stale-entries-in-tmp_dir-parent', min(len(case['stale']), 6))
        ctx.dist('tracker.calls-per-life', len(steps))
        for s in steps:
            o = s['out']
            ctx.dist('tracker.call', s['kind'] + (':input_only' if s.get('input_only') else '') + ' -> '
                     + ({0: 'ok', 1: 'location', 2: 'bool'}.get(o[0]) or f'error {o[1]}'))
        n_add = sum(1 for s in steps if s['kind'] == 'add' and s['out'] == [0])
        n_wr = sum(1 for s in steps if s['kind'] == 'write' and s['out'] == [0])
        copied = bool(steps[-1].get('state_before', {}).get('out'))
        ctx.dist('tracker.copy-out-at-del', 'some' if copied else 'none')
        desc = {'kind': 'FileTracker life', 'stream': stream, 'tmp_dir': case['tmp_kind'],
                'layout': {'/'.join(k): v for k, v in sorted(case['layout'].items())},
                'calls': [[s['kind'], '/'.join(s.get('rel', ())), s.get('input_only'), s['out']] for s in steps]}
        ctx.count(('tracker', stream, case['tmp_kind'], tuple((s['kind'], tuple(s['out'][:1])) for s in steps), n_add, n_wr),
                  nontrivial=(n_add >= 1 and steps[-1]['kind'] == 'del'))
        ctx.sample(desc, limit=6)
        # (a) correspondence, step by step
        ok = r[0] == 0 and len(r[1]) == len(steps)
        where = None
        if ok:
            for j, (s, m) in enumerate(zip(steps, r[1])):
                (mfs, mtr), mout = m
                if mout != s['out']:
                    where = f'call {j} ({s["kind"]}): output {s["out"]} observed, model {mout}'
                elif dec_fs(mfs) != enc_snap(box, s['snap']):
                    where = f'call {j} ({s["kind"]}): file system after the call differs'
                elif mtr != s['tstate']:
                    where = f'call {j} ({s["kind"]}): tracker state {s["tstate"]} observed, model {mtr}'
                if where:
                    break
        else:
            where = f'model answered {str(r)[:200]}'
        bad = check_property(ctx, case, snap0, steps, box)
        if twin is not None:
            ctx.dist('tracker.twin-with-other-stale-files', 'run')
            bad += check_twin(case, twin[0], (snap0, steps), twin[1])
        if where:
            ctx.disagreements_checked += 1
            d = dict(desc)
            d['class'] = 'corr:Tracker.run_tracker_ops'
            d['where'] = where
            ctx.violation('model and FileTracker disagree: ' + where, d, no_input=not bad)
        s = steps[i]
        exp = [0, [[sorted(box.enc_fs(s['snap'])), s['tstate']], s['out']]]
        got = r1
        if got[0] == 0:
            got = [0, [[sorted(got[1][0][0]), got[1][0][1]], got[1][1]]]
        if got != exp:
            ctx.disagreements_checked += 1
            d = dict(desc)
            d['class'] = 'corr:Tracker.run_tracker_step'
            d['where'] = f'call {i}'
            ctx.violation(f'model step and FileTracker disagree at call {i} ({s["kind"]})', d, no_input=not bad)
        for cls, msg in bad:
            d = dict(desc)
            d['class'] = cls
            ctx.violation('FileTracker: ' + msg, d)


def gen_tree(rng, depth, prefix, out, cid):
    for k in range(rng.randrange(0 if prefix else 1, 4)):
        nm = f'n{k}'
        if depth > 0 and rng.random() < 0.6:
            out[prefix + (nm,)] = 'dir'
            gen_tree(rng, depth - 1, prefix + (nm,), out, cid)
        else:
            cid[0] += 1
            out[prefix + (nm,)] = cid[0]


def clean_up_cases(ctx):
    from cell_type_mapper.utils.utils import _clean_up
    rng = ctx.rng
    obs, batch = [], []
    for k in range(ctx.n(60, 600)):
        lay = {}
        gen_tree(rng, rng.randrange(1, 5), (), lay, [0])
        box = Box(ctx.scratch / 'tracker' / f'c{k}')
        box.build(lay)
        snap0 = box.snapshot()
        r = rng.random()
        dirs = sorted(p for p, v in lay.items() if v == 'dir')
        if r < 0.5 and dirs:
            tgt = rng.choice(dirs)
        elif r < 0.75:
            tgt = rng.choice(sorted(lay))
        elif r < 0.85:
            tgt = ('absent',)
        else:
            tgt = rng.choice(sorted(lay) + [()]) + ('absent', 'deeper')
        _clean_up(str(box.abs(tgt)) if rng.random() < 0.5 else box.abs(tgt))
        snap1 = box.snapshot()
        batch.append((1952, [box.enc_fs(snap0), box.enc(tgt)]))
        obs.append((box, lay, tgt, snap0, snap1))
        shutil.rmtree(box.root, ignore_errors=True)
    res = ctx.model(batch)
    for (box, lay, tgt, snap0, snap1), r in zip(obs, res):
        kind = 'absent' if tgt not in snap0 else ('directory' if snap0[tgt] == 'dir' else 'file')
        depth = max([len(p) - len(tgt) for p in snap0 if under(tgt, p)] + [0])
        ctx.dist('clean_up.target', f'{kind}, {depth} level(s) below')
        ctx.count(('clean_up', tuple(sorted(lay)), tgt), nontrivial=depth >= 1)
        desc = {'kind': '_clean_up', 'layout': {'/'.join(k): v for k, v in sorted(lay.items())}, 'target': '/'.join(tgt)}
        want = {p: v for p, v in snap0.items() if p != tgt and not under(tgt, p)}
        prop_ok = snap1 == want
        if r[0] != 0 or dec_fs(r[1][0]) != enc_snap(box, snap1) or r[1][1] != 1:
            ctx.disagreements_checked += 1
            d = dict(desc)
            d['class'] = 'corr:Tracker.run_clean_up'
            ctx.violation('model and _clean_up disagree', d, no_input=prop_ok)
        if not prop_ok:
            d = dict(desc)
            d['class'] = 'clean_up-not-exactly-the-target'
            ctx.violation('_clean_up did not remove exactly the target and what lies below it', d)


def mkstemp_cases(ctx):
    from cell_type_mapper.utils.utils import mkstemp_clean
    rng = ctx.rng
    obs, batch = [], []
    for k in range(ctx.n(40, 400)):
        lay = {('d',): 'dir', ('f',): 3, ('d', 'old_abc.txt'): 4}
        box = Box(ctx.scratch / 'tracker' / f'm{k}')
        box.build(lay)
        snap0 = box.snapshot()
        d = rng.choice([('d',), ('d',), ('d',), ('f',), ('missing',)])
        delete = rng.random() < 0.4
        prefix, suffix = rng.choice(['old_', 'x', 'query_']), rng.choice(['.txt', '', '.h5ad'])
        try:
            kw = {'delete': True} if delete else rng.choice([{}, {'delete': False}])
            p = mkstemp_clean(dir=box.abs(d), prefix=prefix, suffix=suffix, **kw)
            rel = box.rel(p)
            out = [1, box.enc(rel)]
            name = box.enc(rel)[-1]
            shape_ok = rel[:-1] == d and rel[-1].startswith(prefix) and rel[-1].endswith(suffix)
        except (FileNotFoundError, NotADirectoryError):
            out, name, shape_ok, rel = [3, 9], 0, True, None
        snap1 = box.snapshot()
        batch.append((1953, [box.enc_fs(snap0), box.enc(d), name, 1 if delete else 0]))
        obs.append((box, d, delete, out, snap0, snap1, shape_ok, rel))
        shutil.rmtree(box.root, ignore_errors=True)
    res = ctx.model(batch)
    for (box, d, delete, out, snap0, snap1, shape_ok, rel), r in zip(obs, res):
        ctx.dist('mkstemp_clean', f'dir={"/".join(d)} delete={delete} -> ' + ('path' if out[0] == 1 else 'error 9'))
        ctx.count(('mkstemp_clean', d, delete, out[0]), nontrivial=out[0] == 1)
        desc = {'kind': 'mkstemp_clean', 'dir': '/'.join(d), 'delete': delete}
        want = dict(snap0)
        if rel is not None and not delete:
            want[rel] = 0
        prop_ok = shape_ok and snap1 == want
        if r[0] != 0 or dec_fs(r[1][0]) != enc_snap(box, snap1) or r[1][1] != out:
            ctx.disagreements_checked += 1
            d2 = dict(desc)
            d2['class'] = 'corr:Tracker.run_mkstemp_clean'
            ctx.violation('model and mkstemp_clean disagree', d2, no_input=prop_ok)
        if not prop_ok:
            d2 = dict(desc)
            d2['class'] = 'mkstemp_clean-effect'
            ctx.violation('mkstemp_clean: not exactly one new empty file in dir (none with delete=True)', d2)


# ------------------------------------------------------------------ the life of the REAL caller
WRITE_KINDS = ('Create', 'OpenW')


def real_life(ctx, k):
    """THREE real run_mapping's (tmp_dir given) in ONE sandbox, one after the other in a child under strace, with the
    methods of FileTracker wrapped harness-side (fstrace._install_tracker_recorder):
      first    obsm_key unset, fresh output paths;
      second   the same job again: the SAME output paths -- f0 of this life already holds the CSV / JSON / HDF5 / log of
               the first run, and the CSV is rewritten while the tracker lives (audit 4, A1a);
      obsm     the same output paths again and obsm_key set: append_to_obsm opens the query -- a path handed to the
               tracker -- read-write while the tracker lives (audit 4, A1b).
    For each life the calls _run_mapping makes on its tracker and what the ENVIRONMENT (the rest of the pipeline, all its
    processes) writes while the tracker lives are recorded; the hypotheses of the tracker theorems of Props/C19.v
    (Tracker.life_premise_ow, tag 1954; ow = [] for first and second, [query] for obsm) are evaluated on that life, the
    calls are replayed through the model (tag 1951), and the conclusions are checked on the snapshots."""
    from harness import fstrace
    from harness.props import c19
    rng = ctx.rng
    base = ctx.scratch / 'tracker' / f'real{k}'
    src = base / 'src'
    c19.mapping_inputs(rng, src)
    sb = c19.sandbox(base, 'box')
    sb = pathlib.Path(sb).resolve()
    # entries an earlier run left in the scratch directory and in the output directory
    (sb / 'tmp' / 'file_tracker_stale000').mkdir()
    (sb / 'tmp' / 'file_tracker_stale000' / 'query_old.h5ad').write_bytes(b'stale')
    (sb / 'tmp' / 'query_marker_stale.h5').write_bytes(b'stale marker cache')
    (sb / 'out' / 'result_old.json').write_text('{}')
    kw = dict(n_processors=rng.choice([1, 2, 3]), chunk_size=rng.choice([2, 3, 4]), seed=rng.randrange(10 ** 6))
    jobs = []
    for which, obsm in (('first', None), ('second', None), ('obsm', 'ctm_verif')):
        job = c19.mapping_job(f'tracker-life-{k}-{which}', sb, src, f'tl{k}', obsm_key=obsm, **kw)
        job['record_tracker'] = True
        jobs.append((which, job))
    recs = fstrace.run_children([[j for _, j in jobs]], ctx.scratch / 'trace' / f'trackerlife{k}')[0]
    for (which, job), rec in zip(jobs, recs):
        cfg = job['args']['config']
        real_life_eval(ctx, k, which, rec, sb,
                       query=str(pathlib.Path(cfg['query_path']).resolve()),
                       csv=str(pathlib.Path(cfg['csv_result_path']).resolve()))
    shutil.rmtree(base, ignore_errors=True)


def real_life_eval(ctx, k, which, rec, sb, query, csv):
    res = rec['res']
    desc = {'kind': 'FileTracker life of a real run_mapping', 'which': which, 'run_ok': res.get('ok'), 'error': res.get('error')}
    calls = res.get('tracker_life') or []
    marks = {w: (t, pid) for w, t, pid in rec.get('marks', [])}
    lives = {}
    for c in calls:
        lives.setdefault(c['obj'], []).append(c)
    whole = [cs for cs in lives.values() if cs[0]['kind'] == '__init__' and cs[-1]['kind'] == '__del__'
             and all(f"tk{c['n']}a" in marks and f"tk{c['n']}b" in marks for c in cs)]
    ctx.dist('tracker.real-run_mapping.lives-recorded', f'{which}: {len(whole)}')
    if not res.get('ok') or len(whole) != 1:
        d = dict(desc, **{'class': 'corr:c19_tracker.real-life-not-recorded', 'calls': [c['kind'] for c in calls]})
        ctx.violation('the traced run_mapping failed or the life of its FileTracker was not recorded '
                      f'(ok={res.get("ok")}, {len(whole)} whole lives, error={res.get("error")})', d, no_input=True)
        return
    cs = whole[0]
    init, dele = cs[0], cs[-1]
    main_pid = rec['main_pid']
    t_alive, t_del = marks[f"tk{init['n']}b"][0], marks[f"tk{dele['n']}a"][0]
    inside = [(marks[f"tk{c['n']}a"][0], marks[f"tk{c['n']}b"][0]) for c in cs]

    def own(o):
        return o['pid'] == main_pid and any(a <= o['t'] <= b for a, b in inside)
    env = [o for o in rec['ops'] if t_alive <= o['t'] <= t_del and not own(o)]
    writes, env_dirs, removed = [], [], []
    for o in env:
        if o['k'] in WRITE_KINDS:
            writes.append((o['t'], o['p']))
        elif o['k'] == 'Rename':
            writes.append((o['t'], o['q']))
            removed.append(o['p'])
        elif o['k'] == 'Mkdir':
            env_dirs.append(o['p'])
        elif o['k'] in ('Unlink', 'Rmdir'):
            removed.append(o['p'])
    # ---- encode: paths relative to the sandbox
    ids = {}

    def rel(p):
        return tuple(pathlib.Path(p).relative_to(sb).parts)

    def enc(r):
        return [ids.setdefault(c, len(ids) + 1) for c in r]
    cid = {}

    def enc_fs(snap):
        out = [[[], 1, 0]]
        for pth, v in sorted(snap.items()):
            r = rel(pth)
            if not r:
                continue
            out.append([enc(r), 1, 0] if v == 'dir' else [enc(r), 0, cid.setdefault(v, len(cid) + 1)])
        for top in ('in', 'out', 'tmp', 'systmp', 'cwd', 'tmp2'):
            if not any(e[0] == enc((top,)) for e in out):
                out.append([enc((top,)), 1, 0])
        return out
    snap0 = init['snap0']
    f0 = enc_fs(snap0)
    if init.get('tmp_dir') is None:
        d = dict(desc, **{'class': 'corr:c19_tracker.real-life-not-recorded'})
        ctx.violation('the FileTracker of run_mapping was made without a tmp_dir although one was configured', d, no_input=True)
        return
    T = rel(init['tmp_dir'])
    dpar, n0 = enc(T[:-1]), enc(T)[-1]
    if rel(init['tmp_dir_arg']) != T[:-1]:
        ctx.violation('FileTracker.tmp_dir is not a direct child of the tmp_dir it was given',
                      dict(desc, **{'class': 'tracker-scratch-left'}))
    timeline = []
    for c in cs[1:-1]:
        t = marks[f"tk{c['n']}a"][0]
        if c['kind'] == 'add_file':
            nm = enc(rel(c['location']))[-1] if c.get('location') else 0
            timeline.append((t, 0, [1, enc(rel(c['path'])), 1 if c['input_only'] else 0, nm], c))
        elif c['kind'] == 'real_location':
            timeline.append((t, 0, [2, enc(rel(c['path']))], c))
        elif c['kind'] == 'file_exists':
            timeline.append((t, 0, [3, enc(rel(c['path']))], c))
    seen = set()
    nw = 10 ** 6
    for t, pth in writes:
        if pth in seen:
            continue
        seen.add(pth)
        nw += 1
        timeline.append((t, 1, [4, enc(rel(pth)), nw], None))
    timeline.sort(key=lambda x: (x[0], x[1]))
    mid = [x[2] for x in timeline]
    ops = [[0, [dpar], n0]] + mid + [[5]]
    # ow: the paths handed to the tracker that the caller overwrites BY DESIGN: the query when obsm_key is set
    # (append_to_obsm(h5ad_path=config['query_path']): the original path, not the tracker's copy)
    ow = [enc(rel(query))] if which == 'obsm' else []
    r_prem, r_prem0, r_ops = ctx.model([(1954, [f0, dpar, n0, mid, ow]), (1954, [f0, dpar, n0, mid]), (1951, [f0, ops])])
    W = {rel(pth) for _, pth in writes}
    # the scenario must be the one it is meant to be (otherwise the evaluation of the premise would be idle)
    added_paths = {c['path'] for c in cs if c['kind'] == 'add_file'}
    copies = {c['location'] for c in cs if c['kind'] == 'add_file' and c.get('location')}
    if which in ('second', 'obsm') and not (csv in snap0 and snap0[csv] != 'dir' and rel(csv) in W):
        ctx.violation(f'{which} run: the CSV of the earlier run was expected in f0 and among the environment writes',
                      dict(desc, **{'class': 'corr:c19_tracker.real-life-scenario'}), no_input=True)
    if which == 'obsm' and not (query in added_paths and rel(query) in W and not any(rel(x) in W for x in copies)):
        ctx.violation('obsm run: append_to_obsm was expected to write the ORIGINAL query path (handed to the tracker) and '
                      'not the tracker copy', dict(desc, **{'class': 'corr:c19_tracker.real-life-scenario'}), no_input=True)
    if which != 'obsm' and any(rel(x) in W for x in added_paths):
        ctx.violation(f'{which} run (obsm_key unset): the environment wrote a path handed to the tracker',
                      dict(desc, **{'class': 'tracker-input-written-by-caller'}))
    desc.update({'tmp_dir': '/'.join(T[:-1]), 'tracker_dir': '/'.join(T),
                 'calls': [[c['kind'], '/'.join(rel(c['path'])) if 'path' in c else None, c.get('input_only')] for c in cs],
                 'environment_writes': sorted('/'.join(w) for w in W)[:40],
                 'environment_mkdirs': sorted('/'.join(rel(x)) for x in env_dirs)[:20]})
    if k == 0:
        ctx.sample(desc, limit=len(ctx.samples) + 1)
    sib = [w for w in W if w[:-1] == T[:-1]]
    ctx.dist('tracker.real-run_mapping.environment-writes', f'{which}: {min(len(W), 20)} paths, {len(sib)} sibling(s) of the tracker directory')
    ctx.count(('tracker-real-life', which, len(cs), len(W)), nontrivial=(len(cs) >= 4 and len(W) >= 2))
    # (a) the premise of the theorems, evaluated by the model on the recorded life
    if r_prem[0] != 0:
        ctx.violation(f'model answered {str(r_prem)[:200]}', dict(desc, **{'class': 'corr:Tracker.run_life_premise'}), no_input=True)
        return
    premise, strict, n_w, n_req, old_clause = r_prem[1]
    ctx.dist('tracker.real-run_mapping.life_premise', f'{which}: ' + ('holds' if premise == 1 else 'FALSE'))
    ctx.dist('tracker.real-run_mapping.strict-protocol-writes_ok', 'holds' if strict == 1 else 'violated (expected: marker cache, buffers, CSV)')
    # the clause audit 4 (A1) found too strong -- "no file of f0 is written" -- is reported, not required: it is
    # expected to hold on the first run only
    ctx.dist('tracker.real-run_mapping.old-clause-no-file-of-f0-written', f'{which}: ' + ('holds' if old_clause == 1 else 'false'))
    if which == 'obsm' and (r_prem0[0] != 0 or r_prem0[1][0] != 0):
        ctx.violation('obsm run: life_premise WITHOUT the by-design exemption of the query was expected to be false '
                      f'(the query is written); model answered {str(r_prem0)[:120]}',
                      dict(desc, **{'class': 'corr:Tracker.run_life_premise'}), no_input=True)
    if which != 'obsm' and r_prem0 != r_prem:
        ctx.violation('life_premise with ow = [] and the 4-argument form of tag 1954 differ',
                      dict(desc, **{'class': 'corr:Tracker.run_life_premise'}), no_input=True)
    if premise != 1:
        ctx.violation('the hypotheses of the tracker theorems (Tracker.life_premise) are FALSE on the life of the FileTracker '
                      'of a real run_mapping: the theorems do not apply to the real caller',
                      dict(desc, **{'class': 'tracker-premise-false-on-real-run'}))
    if n_w != len(W):
        ctx.violation('written(mid) of the model differs from the recorded environment writes',
                      dict(desc, **{'class': 'corr:Tracker.run_life_premise'}), no_input=True)
    # (a') the calls of the real life through the model: same outputs
    if r_ops[0] != 0 or len(r_ops[1]) != len(ops):
        ctx.violation(f'model answered {str(r_ops)[:200]}', dict(desc, **{'class': 'corr:Tracker.run_tracker_ops'}), no_input=True)
    else:
        exp = [[0]]
        for t, kind, mop, c in timeline:
            if c is None:
                exp.append(None)          # environment write: the model has no mkdir, a write below a directory the
                continue                  # environment made itself is refused there (code 8); not compared
            if c['kind'] == 'add_file':
                exp.append([0] if c['ok'] else [3])
            elif c['kind'] == 'real_location':
                exp.append([1, enc(rel(c['result']))] if c['ok'] else [3])
            else:
                exp.append([2, 1 if c['result'] else 0] if c['ok'] else [3])
        exp.append([0] if dele['ok'] else [3, 10])
        for j, (e, m) in enumerate(zip(exp, r_ops[1])):
            if e is not None and m[1][:len(e)] != e:
                ctx.disagreements_checked += 1
                ctx.violation(f'real run_mapping life, call {j}: observed {e}, model {m[1]}',
                              dict(desc, **{'class': 'corr:Tracker.run_tracker_ops', 'where': f'call {j}'}), no_input=True)
                break
    # (b) the conclusions on the observation
    before, after = dele['snap_before'], dele['snap_after']
    for pth, v in snap0.items():
        if v != 'dir' and rel(pth) not in W and pth not in removed and after.get(pth) != v:
            ctx.violation(f'{"/".join(rel(pth))} existed before the tracker was made, was not written by the environment and '
                          f'differs after del', dict(desc, **{'class': 'tracker-input-changed'}))
    left = [x for x in after if x == init['tmp_dir'] or x.startswith(init['tmp_dir'] + '/')]
    if left:
        ctx.violation(f'after del the tracker directory still holds {sorted(left)[:4]}', dict(desc, **{'class': 'tracker-scratch-left'}))
    requested = {c['path'] for c in cs if c['kind'] == 'add_file' and not c['input_only']}
    made = [x for x in env_dirs]
    for pth in after:
        if pth in snap0 or pth in requested or rel(pth) in W:
            continue
        if any(pth == m or pth.startswith(m + '/') for m in made):
            continue
        ctx.violation(f'{"/".join(rel(pth))} is new after del, was not requested and not made by the environment',
                      dict(desc, **{'class': 'tracker-file-not-requested'}))
    for pth, v in before.items():
        inside_t = pth == init['tmp_dir'] or pth.startswith(init['tmp_dir'] + '/')
        if not inside_t and pth not in dele['to_write_out'] and after.get(pth) != v:
            ctx.violation(f'{"/".join(rel(pth))} outside the tracker directory changed during del',
                          dict(desc, **{'class': 'tracker-file-not-requested'}))


def run_part(ctx):
    ctx.rule += ('; FileTracker part: one life of a real FileTracker (calls compared with the model step by step); '
                 'non-trivial = at least one add_file succeeded and the life ended with del; _clean_up: the target has '
                 'something below it; mkstemp_clean: a path was returned')
    ctx.assumptions += [
        'FileTracker part: paths are resolved absolute paths inside a sandbox without symbolic links; file contents are '
        'compared, permission bits (shutil.copy copies them) are not; the names drawn by tempfile are read off the '
        'observation (tracker.tmp_dir, _path_to_location) and given to the model as inputs of the step; __del__ is invoked '
        'explicitly (FileTracker.__del__(tracker), which is what `del` runs) with the exception-swallowing of the '
        'interpreter emulated; one tracker at a time (codes 6/7 of the model have no counterpart in the code); the '
        'branch add_file(path == the name mkstemp draws) is impossible (the drawn name is longer than the path name) and '
        'is code 5 of the model; log=None',
        'FileTracker part, life of the real caller: three real run_mapping per case in one sandbox (tmp_dir given): a first '
        'run, a second run into the SAME output paths (the CSV of the first -- a file of f0 -- is rewritten while the '
        'tracker lives) and a run with obsm_key set (append_to_obsm writes the original query path, which was handed to '
        'the tracker: exempted from the premise as ow = [query], Tracker.life_premise_ow); they run in a child under '
        'strace with the methods of FileTracker wrapped harness-side; the environment writes are the successful open(O_WRONLY|O_RDWR / O_CREAT / '
        'O_TRUNC) and rename destinations of ALL processes of the run between the return of the constructor and the entry '
        'of __del__, except what the main process does inside a tracker call; each written path is given to the model '
        'once (first write); the model environment has no mkdir/unlink: directories the pipeline makes while the tracker '
        'lives are not model operations (a model write below one is refused with code 8 and not compared), which does '
        'not affect Tracker.life_premise_ow (it reads f0, the calls and the written paths only)',
    ]
    (ctx.scratch / 'tracker').mkdir(parents=True, exist_ok=True)
    tracker_cases(ctx)
    for k in range(ctx.n(1, 4)):
        real_life(ctx, k)
    clean_up_cases(ctx)
    mkstemp_cases(ctx)
    shutil.rmtree(ctx.scratch / 'tracker', ignore_errors=True)
