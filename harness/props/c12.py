"""C12 — selected query markers cover every cluster pair as far as possible.

Tie (trace refinement): select_marker_genes_v2 / _run_selection return the genes in the order
chosen; Model/Selection.v replays that list (desperate prefix, then every step legal = unchosen
gene of maximal utility, `finished` exactly at the end) on the by-pair tables obtained by the
model's own thinning (query genes, parent's pairs), which is compared with the thinned
MarkerGeneArray of the implementation.  Stage level: select_all_markers /
create_marker_gene_lookup_from_ref_list across workers 1..4 and behemoth cut-offs {0, 1, huge}.
Property on the observed tables: the extracted spec_c12 and an independent census computed from
the generated marker table."""
import contextlib
import itertools
import json
import os
import pathlib
import warnings

import h5py
import numpy as np

from harness.core import exc_class
from harness.props.c08 import gen_tree, fresh_names
from harness.props import c12_batch                      # part: genes_at_a_time > 1 (Model/SelectionK.v)
from harness.props import c12_downsample                 # part: downsampled table, select_parent, np.argsort pops (tags 1260-1266)


# ------------------------------------------------------------------ generators
def gen_world(rng, max_leaves=7):
    big = rng.random() < 0.3
    if big:
        max_leaves = 10
    data = gen_tree(rng, max_levels=4, max_leaves=max_leaves, min_leaves=1)
    for k in data[data['hierarchy'][-1]]:
        data[data['hierarchy'][-1]][k] = []
    leaf_level = data['hierarchy'][-1]
    leaves = sorted(data[leaf_level])
    n_genes = rng.randrange(17, 41) if big else rng.randrange(2, 17)
    genes = fresh_names(rng, n_genes, 'g')
    density = rng.choice(['dense', 'dense', 'sparse', 'mixed', 'mixed', 'mixed'])
    if rng.random() < 0.06:
        density = rng.choice(['empty', 'no-up', 'no-down'])     # no marker at all / one direction absent everywhere
    table = {}
    profiles = {}
    for pr in itertools.combinations(leaves, 2):
        prof = density if density != 'mixed' else rng.choice(['none', 'dense', 'sparse', 'one-sided', 'few', 'dense'])
        if rng.random() < 0.08:
            prof = 'none'
        up, down = set(), set()
        if prof == 'dense':
            for g in range(n_genes):
                r = rng.random()
                if r < 0.35:
                    up.add(g)
                elif r < 0.7:
                    down.add(g)
        elif prof == 'sparse':
            for g in range(n_genes):
                r = rng.random()
                if r < 0.1:
                    up.add(g)
                elif r < 0.2:
                    down.add(g)
        elif prof == 'one-sided':
            tgt = up if rng.random() < 0.5 else down
            for g in range(n_genes):
                if rng.random() < 0.4:
                    tgt.add(g)
        elif prof == 'few':
            for g in rng.sample(range(n_genes), min(n_genes, rng.randrange(1, 3))):
                (up if rng.random() < 0.5 else down).add(g)
        if density == 'empty':
            up, down = set(), set()
        elif density in ('no-up', 'no-down'):
            up, down = set(), set()
            for g in range(n_genes):
                if rng.random() < 0.3:
                    (down if density == 'no-up' else up).add(g)
        assert not (up & down)                       # hypothesis no_gene_both_ways, by construction
        table[pr] = (sorted(down), sorted(up))
        profiles[pr] = prof
    p_query = rng.choice([1.0, 1.0, 0.8, 0.6, 0.4])
    query = [g for g in genes if rng.random() < p_query]
    if not query or rng.random() < 0.97 and not query:
        query = [rng.choice(genes)]
    if rng.random() < 0.02:
        query = []                                   # no overlap at all: the code must refuse
    query += fresh_names(rng, rng.randrange(0, 3), 'q')
    rng.shuffle(query)
    n_per = rng.choice([0, 1, 1, 1, 2, 2, 2, 3, 3, 4, 6] + ([8, 12] if big else []))
    parents = [None]
    for lv in data['hierarchy'][:-1]:
        parents += [(lv, nd) for nd in data[lv]]
    override = None
    if rng.random() < 0.4:
        override = {p: rng.choice([0, 1, 2, 3, 5]) for p in parents if rng.random() < 0.5}
    return {'tree': data, 'genes': genes, 'table': {f'{a}|{b}': v for (a, b), v in table.items()},
            'query': query, 'n_per_utility': n_per, 'override': override,
            'small_dtype': rng.random() < 0.5, 'density': density, 'big': big}


def table_of(world):
    return {tuple(k.split('|')): v for k, v in world['table'].items()}


def write_files(world, d, tag):
    """Reference-marker file in the layout written by diff_exp/markers.py (+ the precomputed-stats
    file its metadata points to)."""
    from cell_type_mapper.taxonomy.taxonomy_tree import TaxonomyTree
    from cell_type_mapper.utils.utils import choose_int_dtype
    data = world['tree']
    leaf_level = data['hierarchy'][-1]
    leaves = sorted(data[leaf_level])
    genes = world['genes']
    table = table_of(world)
    pairs = list(itertools.combinations(leaves, 2))
    with warnings.catch_warnings():
        warnings.simplefilter('ignore')
        tree = TaxonomyTree(data=data)
    stats = pathlib.Path(d) / f'stats_{tag}.h5'
    with h5py.File(stats, 'w') as f:
        f.create_dataset('taxonomy_tree', data=tree.to_str().encode('utf-8'))
        f.create_dataset('cluster_to_row', data=json.dumps({l: i for i, l in enumerate(leaves)}).encode('utf-8'))
        f.create_dataset('n_cells', data=np.arange(1, len(leaves) + 1))
    p2i = {leaf_level: {}}
    for i, (a, b) in enumerate(pairs):
        p2i[leaf_level].setdefault(a, {})
        p2i[leaf_level].setdefault(b, {})
        p2i[leaf_level][a][b] = i
    ref = pathlib.Path(d) / f'reference_markers_{tag}.h5'
    ng = len(genes)
    with h5py.File(ref, 'w') as f:
        f.create_dataset('gene_names', data=json.dumps(genes).encode('utf-8'))
        f.create_dataset('pair_to_idx', data=json.dumps(p2i).encode('utf-8'))
        f.create_dataset('n_pairs', data=len(pairs))
        f.create_dataset('metadata', data=json.dumps({'precomputed_path': str(stats)}).encode('utf-8'))
        gp = f.create_group('sparse_by_pair')
        gg = f.create_group('sparse_by_gene')
        for dname, col in (('down', 0), ('up', 1)):
            indptr, indices = [0], []
            for pr in pairs:
                indices += list(table[pr][col])
                indptr.append(len(indices))
            gdt = choose_int_dtype((0, ng)) if world['small_dtype'] else np.int64
            pdt = choose_int_dtype((0, len(indices))) if world['small_dtype'] else np.int64
            gp.create_dataset(f'{dname}_pair_idx', data=np.array(indptr, dtype=pdt))
            gp.create_dataset(f'{dname}_gene_idx', data=np.array(indices, dtype=gdt))
            indptr, indices = [0], []
            for g in range(ng):
                indices += [i for i, pr in enumerate(pairs) if g in table[pr][col]]
                indptr.append(len(indices))
            gdt = choose_int_dtype((0, len(indices))) if world['small_dtype'] else np.int64
            pdt = choose_int_dtype((0, max(1, len(pairs)))) if world['small_dtype'] else np.int64
            gg.create_dataset(f'{dname}_gene_idx', data=np.array(indptr, dtype=gdt))
            gg.create_dataset(f'{dname}_pair_idx', data=np.array(indices, dtype=pdt))
    return tree, ref, stats


@contextlib.contextmanager
def quiet_stdout():
    """The workers print; keep the check's stdout clean (also for forked children)."""
    import sys
    sys.stdout.flush()
    saved = os.dup(1)
    devnull = os.open(os.devnull, os.O_WRONLY)
    os.dup2(devnull, 1)
    try:
        yield
    finally:
        sys.stdout.flush()
        os.dup2(saved, 1)
        os.close(saved)
        os.close(devnull)


# ------------------------------------------------------------------ renaming (glue)
class Renaming:
    def __init__(self, world):
        data = world['tree']
        self.hierarchy = data['hierarchy']
        nodes = set()
        for lv in self.hierarchy:
            nodes.update(data[lv].keys())
        self.node = {s: i for i, s in enumerate(sorted(nodes))}
        gs = set(world['genes']) | set(world['query'])
        self.gene = {s: i for i, s in enumerate(sorted(gs))}
        self.gene_inv = {i: s for s, i in self.gene.items()}

    def tree_sx(self, data):
        out = []
        n = len(self.hierarchy)
        for i, lv in enumerate(self.hierarchy):
            if i == n - 1:
                out.append([[self.node[k], [int(r) for r in v]] for k, v in data[lv].items()])
            else:
                out.append([[self.node[k], [self.node[c] for c in v]] for k, v in data[lv].items()])
        return out

    def parent(self, p):
        return [] if p is None else [self.hierarchy.index(p[0]), self.node[p[1]]]

    def refmarkers(self, world):
        data = world['tree']
        leaves = sorted(data[self.hierarchy[-1]])
        table = table_of(world)
        pairs = list(itertools.combinations(leaves, 2))
        return [[self.gene[g] for g in world['genes']],
                [[[self.node[a], self.node[b]], [list(table[(a, b)][0]), list(table[(a, b)][1])]] for a, b in pairs]]


# ------------------------------------------------------------------ independent census (own code, from the generated table)
def pairs_to_discriminate(data, parent):
    """Leaf pairs that descend from different children of `parent` (computed on the dict, not with the library)."""
    hier = data['hierarchy']
    n = len(hier)

    def leaves_under(li, node):
        if li == n - 1:
            return [node]
        out = []
        for c in data[hier[li]][node]:
            out += leaves_under(li + 1, c)
        return out
    if parent is None:
        kids = [(0, k) for k in data[hier[0]]]
    else:
        li = hier.index(parent[0])
        if li == n - 1:
            return []
        kids = [(li + 1, c) for c in data[hier[li]][parent[1]]]
    groups = [leaves_under(li, k) for li, k in kids]
    out = []
    for ga, gb in itertools.combinations(groups, 2):
        for a in ga:
            for b in gb:
                out.append((a, b) if a < b else (b, a))
    return out


def census(world, parent, selected, n_per):
    """Violations of C12's statement for one parent (empty list = holds)."""
    bad = []
    table = table_of(world)
    genes = world['genes']
    qset = set(world['query'])
    sel = [str(s) for s in selected]
    if len(set(sel)) != len(sel):
        bad.append(('duplicates', f'{sel}'))
    pairs = pairs_to_discriminate(world['tree'], parent)
    if not pairs and sel:
        bad.append(('nothing-to-discriminate-but-markers', f'{sel}'))
    marker_of = {}
    for pr in pairs:
        marker_of[pr] = {genes[g] for g in table[pr][0]} | {genes[g] for g in table[pr][1]}
    useful = set().union(*marker_of.values()) if marker_of else set()
    for g in sel:
        if g not in qset:
            bad.append(('gene-not-in-query', g))
        if g not in useful:
            bad.append(('gene-marks-no-pair-of-parent', g))
    s = set(sel)
    for pr in pairs:
        avail = marker_of[pr] & qset
        need = min(2 * n_per, len(avail))
        got = len(s & marker_of[pr])
        if got < need:
            bad.append(('coverage', f'pair {pr}: {got} selected markers, need min(2*{n_per}, {len(avail)})'))
    return bad


# ------------------------------------------------------------------ function level
def run_function_case(world, tree, ref, parent, behemoth):
    from cell_type_mapper.marker_selection.marker_array import MarkerGeneArray
    from cell_type_mapper.marker_selection.selection import (select_marker_genes_v2, _get_taxonomy_idx,
                                                              _run_selection)
    from cell_type_mapper.marker_selection.utils import create_utility_array
    obs = {}
    n_per = world['n_per_utility']
    if world['override'] and parent in world['override']:
        n_per = world['override'][parent]
    obs['n_per'] = n_per
    try:
        with warnings.catch_warnings():
            warnings.simplefilter('ignore')
            arr = MarkerGeneArray.from_cache_path(cache_path=ref, query_gene_names=list(world['query']))
            if not behemoth:
                arr = arr.downsample_pairs_to_other(only_keep_pairs=tree.leaves_to_compare(parent))
            idx = _get_taxonomy_idx(taxonomy_tree=tree, parent_node=parent, marker_gene_array=arr)
            obs['thin_genes'] = [str(g) for g in arr.gene_names]
            obs['thin_pairs'] = [[sorted(int(v) for v in arr.down_by_pair.get_genes_for_pair(i)),
                                  sorted(int(v) for v in arr.up_by_pair.get_genes_for_pair(i))] for i in idx]
            log = {}
            res = select_marker_genes_v2(marker_gene_array=arr, query_gene_names=list(world['query']),
                                         taxonomy_tree=tree, parent_node=parent, n_per_utility=n_per,
                                         summary_log=log)
            # the inner function on its own (fresh array, utility and census computed as the wrapper does)
            arr2 = MarkerGeneArray.from_cache_path(cache_path=ref, query_gene_names=list(world['query']))
            if not behemoth:
                arr2 = arr2.downsample_pairs_to_other(only_keep_pairs=tree.leaves_to_compare(parent))
            ua, mc = create_utility_array(marker_gene_array=arr2, gb_size=10, taxonomy_mask=idx)
            obs['census'] = [[int(a), int(b)] for a, b in mc]
            obs['utility0'] = [int(u) for u in ua]
            res2, _ = _run_selection(marker_gene_array=arr2, utility_array=ua, marker_census=mc,
                                     taxonomy_idx_array=idx, n_per_utility=n_per, parent_node=parent)
            obs['selected_inner'] = [str(g) for g in res2]
            obs['utility_final'] = [int(u) for u in ua]          # _run_selection updates its argument in place
        obs['ok'] = True
        obs['selected'] = [str(g) for g in res]
        st = list(log.values())[0]
        obs['stats'] = {k: v for k, v in st.items() if k != 'duration'}
    except Exception as e:
        obs['ok'] = False
        obs['msg'] = f'{exc_class(e)}: {e}'[:300]
    return obs


def model_cases_function(world, rn, parent, behemoth, obs):
    return [(1203, [rn.refmarkers(world), [rn.gene[g] for g in world['query']], rn.tree_sx(world['tree']),
                    rn.parent(parent), behemoth])]


def check_function_case(ctx, world, rn, parent, behemoth, obs, thin, rep, spec, greedy):
    corr, prop = [], []
    if not obs['ok']:
        overlap = set(world['genes']) & set(world['query'])
        if not overlap and 'No gene overlap' in obs['msg']:
            return corr, prop, 'no-overlap-refused'
        prop.append(('implementation-raised', obs['msg']))
        return corr, prop, 'raised'
    # thinning
    if thin[0] != 0:
        corr.append(('Selection.parent_idx', f'model thinning failed: {thin}'))
        return corr, prop, 'thin-failed'
    mg = [rn.gene_inv[g] for g in thin[1][0]]
    if mg != obs['thin_genes']:
        corr.append(('Selection.thin_genes', f'thinned genes: impl {obs["thin_genes"]} model {mg}'))
    mp = [[sorted(thin[1][1][i][0]), sorted(thin[1][1][i][1])] for i in thin[1][2]]
    if mp != obs['thin_pairs']:
        corr.append(('Selection.parent_idx', f'by-pair tables: impl {obs["thin_pairs"]} model {mp}'))
    # trace refinement
    res, n_desp, n_orig, cen = rep
    if res[0] != 0:
        what = {1: 'a gene is not a legal choice', 3: 'the loop would go on'}.get(res[1], str(res))
        if res[0] == 1 and res[1] == 1:
            what = 'desperate prefix differs'
        corr.append(('Selection.replay', f'the returned list {obs["selected"]} is not a run of the model: {what} {res}'))
    else:
        chosen, counts, aggr, filled, util = res[1]
        st = obs['stats']
        n_filled = sum(int(a) + int(b) for a, b in filled)
        exp = {'n_genes': len(chosen), 'filled': n_filled, 'unfilled': 2 * len(counts) - n_filled,
               'n_desperate': n_desp, 'n_original_markers': n_orig,
               'min_n_genes': min(aggr) if aggr else None, 'max_n_genes': max(aggr) if aggr else None,
               'n_zero': sum(1 for a in aggr if a == 0)}
        got = {k: st.get(k) for k in exp}
        if exp != got:
            corr.append(('Selection.state', f'final statistics: impl {got} model {exp}'))
        n_per = obs['n_per']
        ths = sorted(set([1] + list(range(5, n_per, 5)) + [n_per]))
        md = {f'lt_{t}': {'up': sum(1 for c in counts if c[1] < t), 'down': sum(1 for c in counts if c[0] < t)} for t in ths}
        if md != st.get('marker_distribution'):
            corr.append(('Selection.state', f'marker_distribution: impl {st.get("marker_distribution")} model {md}'))
        if [list(c) for c in cen] != obs['census']:
            corr.append(('Selection.census', f'marker_census: impl {obs["census"]} model {cen}'))
        if obs['selected_inner'] == obs['selected'] and list(util) != obs['utility_final']:
            corr.append(('Selection.state', f'final utility_array: impl {obs["utility_final"]} model {list(util)}'))
    if obs['selected_inner'] != obs['selected']:
        prop.append(('inner-and-wrapper-differ', f'_run_selection returned {obs["selected_inner"]} but '
                                                 f'select_marker_genes_v2 {obs["selected"]} on the same input'))
    if greedy[0] != 0:
        corr.append(('Selection.greedy', 'the fuelled greedy loop of the model ran out of fuel'))
    # property
    if spec[0] != 0 or not spec[1][1]:
        corr.append(('Selection.both_ways_free', 'a generated table lists a gene as up- and down-marker of one pair'))
    elif not spec[1][0]:
        prop.append(('spec_c12', f'extracted spec_c12 is false on {obs["selected"]}'))
    for cls, msg in census(world, parent, obs['selected'], obs['n_per']):
        prop.append((cls, msg))
    return corr, prop, 'ok'


def function_level(ctx, worlds):
    """worlds: list of (world, tree, ref).  Every parent with pairs, both pair orders."""
    recs = []
    for world, tree, ref in worlds:
        rn = Renaming(world)
        for parent in tree.all_parents:
            if not tree.leaves_to_compare(parent):
                continue
            for behemoth in (False, True):
                obs = run_function_case(world, tree, ref, parent, behemoth)
                recs.append((world, rn, parent, behemoth, obs))
    thin = ctx.model([model_cases_function(w, rn, p, b, o)[0] for w, rn, p, b, o in recs])
    second = []
    for (w, rn, p, b, o), th in zip(recs, thin):
        if o['ok'] and th[0] == 0:
            ng = len(th[1][0])
            pd, idx = th[1][1], th[1][2]
            name_idx = {g: i for i, g in enumerate(o['thin_genes'])}
            sel = [name_idx.get(g, 10 ** 6) for g in o['selected']]
            # canaries (the tie must have teeth): the list without its last gene and the list with one
            # gene too many are NOT runs of the model
            extra = sel + [sel[-1] if sel else 0]
            second += [(1201, [ng, pd, idx, o['n_per'], sel]), (1202, [ng, pd, idx, o['n_per'], sel]),
                       (1204, [ng, pd, idx, o['n_per']]),
                       (1201, [ng, pd, idx, o['n_per'], sel[:-1] if sel else extra]),
                       (1201, [ng, pd, idx, o['n_per'], extra])]
    r2 = ctx.model(second)
    j = 0
    for (w, rn, p, b, o), th in zip(recs, thin):
        canary = []
        if o['ok'] and th[0] == 0:
            rep, spec, greedy = r2[j], r2[j + 1], r2[j + 2]
            canary = [r2[j + 3], r2[j + 4]]
            j += 5
        else:
            rep, spec, greedy = None, None, None
        corr, prop, outcome = check_function_case(ctx, w, rn, p, b, o, th, rep, spec, greedy)
        for c in canary:
            ctx.dist('canary_mutant_rejected', c[0][0] != 0)
            if c[0][0] == 0:
                corr.append(('Selection.replay-canary', 'the model accepts a mutilated choice sequence (one gene dropped / added) '
                                                        f'of {o["selected"]}'))
        n_pairs = len(o.get('thin_pairs', []))
        nd = o.get('stats', {}).get('n_desperate', 0)
        ng = len(o.get('selected', []))
        short = False
        if o['ok']:
            short = any(len(a) < o['n_per'] or len(bb) < o['n_per'] for a, bb in o['thin_pairs'])
        nontriv = o['ok'] and n_pairs >= 2 and ng >= 2 and ng > nd
        ctx.count(json.dumps([w['table'], w['query'], str(p), b, o.get('n_per')]), nontrivial=bool(nontriv))
        ctx.dist('function_outcome', outcome)
        ctx.dist('function_table_density', w['density'] + ('/big' if w.get('big') else ''))
        ctx.dist('n_per_utility', o.get('n_per'))
        ctx.dist('pairs_of_parent', min(n_pairs, 10))
        ctx.dist('has_pair_short_of_target', short)
        ctx.dist('desperate_genes', min(nd, 5))
        ctx.dist('genes_chosen_by_the_loop', min(max(ng - nd, 0), 12))
        if o['ok'] and not corr:
            ctx.traces_validated += 1
        if nontriv:
            ctx.sample({'parent': str(p), 'behemoth_order': b, 'n_per_utility': o['n_per'], 'by_pair_tables': o['thin_pairs'],
                        'thinned_genes': o['thin_genes'], 'selected_in_order': o['selected'],
                        'stats': {k: o['stats'][k] for k in ('filled', 'unfilled', 'n_desperate')}}, limit=3)
        if not hasattr(ctx, 'c12_observed'):
            ctx.c12_observed = []                          # shown by --replay (implementation | model | predicate)
        if len(ctx.c12_observed) < 12:
            ctx.c12_observed.append({
                'parent': str(p), 'global_pair_order': b, 'n_per_utility': o.get('n_per'),
                'implementation': o.get('selected', o.get('msg')),
                'model_replay': ('accepted' if rep and rep[0][0] == 0 else rep[0] if rep else None),
                'spec_c12': (spec[1][0] if spec and spec[0] == 0 else None)})
        report(ctx, {'kind': 'function', 'world': w, 'parent': p, 'behemoth': b, 'observed': o,
                     'model': {'thin': th, 'replay': rep, 'spec': spec}}, corr, prop)


# ------------------------------------------------------------------ stage level
HUGE = 10 ** 9


def is_behemoth(n_leaf_pairs, cutoff, n_pairs_total):
    return n_leaf_pairs > min(cutoff, n_pairs_total // 2)


def stage_level(ctx, worlds, n_configs):
    from cell_type_mapper.marker_selection.selection_pipeline import select_all_markers
    from cell_type_mapper.type_assignment.marker_cache_v2 import create_marker_gene_lookup_from_ref_list
    rng = ctx.rng
    all_configs = [(w, b) for w in (1, 2, 3, 4) for b in (0, 1, HUGE)]
    recs = []
    for world, tree, ref in worlds:
        rn = Renaming(world)
        configs = all_configs if n_configs >= len(all_configs) else rng.sample(all_configs, n_configs)
        leaf_level = world['tree']['hierarchy'][-1]
        n_leaves = len(world['tree'][leaf_level])
        n_pairs_total = n_leaves * (n_leaves - 1) // 2
        tables = []
        overlap = bool(set(world['genes']) & set(world['query']))
        for (nw, cutoff) in configs:
            try:
                with warnings.catch_warnings(), quiet_stdout():
                    warnings.simplefilter('ignore')
                    out, slog = select_all_markers(marker_cache_path=ref, query_gene_names=list(world['query']),
                                                   taxonomy_tree=tree, n_per_utility=world['n_per_utility'],
                                                   n_processors=nw, behemoth_cutoff=cutoff,
                                                   n_per_utility_override=world['override'],
                                                   tmp_dir=str(ctx.scratch))
                tables.append({'config': ['select_all_markers', nw, cutoff], 'ok': True,
                               'table': {('None' if k is None else f'{k[0]}/{k[1]}'): [str(g) for g in v]
                                         for k, v in out.items()}})
            except Exception as e:
                tables.append({'config': ['select_all_markers', nw, cutoff], 'ok': False, 'msg': f'{exc_class(e)}: {e}'[:300]})
        nw, cutoff = rng.choice(all_configs)
        try:
            with warnings.catch_warnings(), quiet_stdout():
                warnings.simplefilter('ignore')
                out = create_marker_gene_lookup_from_ref_list(
                    reference_marker_path_list=[str(ref)], query_gene_names=list(world['query']),
                    n_per_utility=world['n_per_utility'], n_per_utility_override=world['override'],
                    n_processors=nw, behemoth_cutoff=cutoff, tmp_dir=str(ctx.scratch))
            tables.append({'config': ['create_marker_gene_lookup_from_ref_list', nw, cutoff], 'ok': True,
                           'table': {k: [str(g) for g in v] for k, v in out.items() if k != 'log'}})
        except Exception as e:
            tables.append({'config': ['create_marker_gene_lookup_from_ref_list', nw, cutoff], 'ok': False,
                           'msg': f'{exc_class(e)}: {e}'[:300]})
        recs.append((world, tree, rn, tables, n_pairs_total, overlap))
    # model: replay every parent's list of every table
    cases, where = [], []
    for wi, (world, tree, rn, tables, n_pairs_total, overlap) in enumerate(recs):
        parents = tree.all_parents
        for ti, tb in enumerate(tables):
            if not tb['ok']:
                continue
            for p in parents:
                lp = tree.leaves_to_compare(p)
                if not lp:
                    continue
                bh = is_behemoth(len(lp), tb['config'][2], n_pairs_total)
                cases.append((1203, [rn.refmarkers(world), [rn.gene[g] for g in world['query']],
                                     rn.tree_sx(world['tree']), rn.parent(p), bh]))
                where.append((wi, ti, p))
    thin = ctx.model(cases)
    second, where2 = [], []
    for (wi, ti, p), th in zip(where, thin):
        world, tree, rn, tables, _, _ = recs[wi]
        key = 'None' if p is None else f'{p[0]}/{p[1]}'
        sel_names = tables[ti]['table'].get(key)
        if th[0] != 0 or sel_names is None:
            where2.append((wi, ti, p, None))
            continue
        n_per = world['n_per_utility']
        if world['override'] and p in world['override']:
            n_per = world['override'][p]
        names = [rn.gene_inv[g] for g in th[1][0]]
        idx = {g: i for i, g in enumerate(names)}
        sel = [idx.get(g, 10 ** 6) for g in sel_names]
        second.append((1201, [len(names), th[1][1], th[1][2], n_per, sel]))
        second.append((1202, [len(names), th[1][1], th[1][2], n_per, sel]))
        where2.append((wi, ti, p, n_per))
    r2 = iter(ctx.model(second))
    problems = {}
    for (wi, ti, p, n_per), th in zip(where2, thin):
        world, tree, rn, tables, _, _ = recs[wi]
        key = 'None' if p is None else f'{p[0]}/{p[1]}'
        pr = problems.setdefault(wi, {'corr': [], 'prop': []})
        if n_per is None:
            if th[0] != 0:
                pr['corr'].append(('Selection.parent_idx', f'model thinning failed for {key}'))
            else:
                pr['prop'].append(('parent-missing-from-table', f'{key} not in the table of {tables[ti]["config"]}'))
            continue
        rep = next(r2)
        spec = next(r2)
        if spec[0] != 0 or not spec[1][1]:
            pr['corr'].append(('Selection.both_ways_free', 'a generated table lists a gene as up- and down-marker of one pair'))
        elif not spec[1][0]:
            pr['prop'].append(('spec_c12', f'{tables[ti]["config"]} parent {key}: extracted spec_c12 is false on '
                                           f'{tables[ti]["table"][key]}'))
        if rep[0][0] != 0:
            pr['corr'].append(('Selection.replay', f'{tables[ti]["config"]} parent {key}: list {tables[ti]["table"][key]} '
                                                   f'is not a run of the model: {rep[0]}'))
        else:
            ctx.traces_validated += 1
        for cls, msg in census(world, p, tables[ti]['table'][key], n_per):
            pr['prop'].append((cls, f'{tables[ti]["config"]} parent {key}: {msg}'))
    for wi, (world, tree, rn, tables, n_pairs_total, overlap) in enumerate(recs):
        pr = problems.setdefault(wi, {'corr': [], 'prop': []})
        oks = [t for t in tables if t['ok']]
        outcome = 'ok'
        if len(oks) != len(tables):
            bad = [t for t in tables if not t['ok']]
            if not overlap and all('No gene overlap' in t['msg'] for t in bad) and not oks:
                outcome = 'no-overlap-refused'
            else:
                outcome = 'raised'
                pr['prop'].append(('implementation-raised', f'{bad[0]["config"]}: {bad[0]["msg"]}'))
        expected_keys = sorted('None' if p is None else f'{p[0]}/{p[1]}' for p in tree.all_parents)
        for t in oks:
            if sorted(t['table'].keys()) != expected_keys:
                pr['prop'].append(('table-keys', f'{t["config"]}: keys {sorted(t["table"].keys())} expected {expected_keys}'))
            for p in tree.all_parents:
                key = 'None' if p is None else f'{p[0]}/{p[1]}'
                if not pairs_to_discriminate(world['tree'], p) and t['table'].get(key):
                    pr['prop'].append(('nothing-to-discriminate-but-markers', f'{t["config"]}: {key} -> {t["table"][key]}'))
        if oks:
            base = {k: sorted(v) for k, v in oks[0]['table'].items()}
            for t in oks[1:]:
                if {k: sorted(v) for k, v in t['table'].items()} != base:
                    pr['prop'].append(('selection-depends-on-workers-or-cutoff',
                                       f'{oks[0]["config"]} gives {oks[0]["table"]} but {t["config"]} gives {t["table"]}'))
                    break
            # same behemoth decisions => the very same lists
            for a, b in itertools.combinations(oks, 2):
                if a['config'][2] == b['config'][2] and a['table'] != b['table']:
                    pr['prop'].append(('selection-depends-on-workers', f'{a["config"]} vs {b["config"]}'))
                    break
        n_branching = sum(1 for p in tree.all_parents if pairs_to_discriminate(world['tree'], p))
        ctx.count(json.dumps([world['table'], world['query'], world['n_per_utility'], str(world['override'])]),
                  nontrivial=(outcome == 'ok' and n_branching >= 2))
        ctx.dist('stage_outcome', outcome)
        ctx.dist('stage_configs', len(tables))
        ctx.dist('parents_with_pairs', n_branching)
        ctx.dist('table_density', world['density'])
        ctx.dist('override', world['override'] is not None)
        if not hasattr(ctx, 'c12_observed'):
            ctx.c12_observed = []
        for t in tables:
            if len(ctx.c12_observed) < 12:
                ctx.c12_observed.append({'config': t['config'], 'implementation': t.get('table', t.get('msg')),
                                         'model_and_predicate': 'agree' if not (pr['corr'] or pr['prop']) else
                                         {'correspondence': pr['corr'][:3], 'property': pr['prop'][:3]}})
        report(ctx, {'kind': 'stage', 'world': world, 'tables': tables}, pr['corr'], pr['prop'])


def report(ctx, desc, corr, prop):
    if not corr and not prop:
        return
    ctx.disagreements_checked += 1
    if 'parent' in desc:
        desc = dict(desc)
        desc['parent'] = list(desc['parent']) if desc['parent'] is not None else None
    if 'world' in desc:
        desc = dict(desc)
        w = dict(desc['world'])
        if w.get('override') is not None:
            w['override'] = [[('None' if k is None else list(k)), v] for k, v in w['override'].items()]
        desc['world'] = w
    if prop:
        d = dict(desc)
        d['class'] = 'c12:' + prop[0][0]
        d['all_property_failures'] = prop[:10]
        d['correspondence_failures'] = corr[:10]
        ctx.violation(f'C12 fails on a generated case: {prop[0][0]}: {prop[0][1]}'[:700], d)
    if corr:
        d = dict(desc)
        d['class'] = 'corr:' + corr[0][0]
        d['correspondence_failures'] = corr[:10]
        ctx.violation(f'model and implementation disagree ({corr[0][0]}): {corr[0][1]}'[:700], d, no_input=True)


def make_worlds(ctx, n, sub):
    d = ctx.scratch / sub
    d.mkdir(exist_ok=True)
    out = []
    for i in range(n):
        w = gen_world(ctx.rng)
        tree, ref, stats = write_files(w, d, i)
        out.append((w, tree, ref))
    return out, d


def cleanup(d):
    import shutil
    shutil.rmtree(d, ignore_errors=True)


def run(ctx):
    ctx.rule = ('generated reference-marker files in the HDF5 layout of diff_exp/markers.py (trees <= 4 levels / <= 7 leaves, '
                '<= 16 genes, 30% bigger: <= 10 leaves / 17..40 genes; per pair: none / dense / sparse / one-sided / few markers, up and down disjoint; small and int64 '
                'dtypes), query = subset of the reference genes + foreign genes in shuffled order, n_per_utility 0..6, per-parent '
                'overrides. function level: every parent with >= 1 pair, local and global (behemoth) pair order; stage level: '
                'select_all_markers over workers x cut-offs + create_marker_gene_lookup_from_ref_list. non-trivial (function) = '
                '>= 2 pairs, >= 2 genes selected, at least one by the greedy loop; (stage) = >= 2 parents with pairs')
    ctx.assumptions += [
        'no gene is an up- and a down-marker of the same pair (guaranteed by the reference-marker writer; asserted by '
        'marker_mask_from_pair_idx) - hypothesis no_gene_both_ways of c12_coverage',
        'genes_at_a_time = 1 (the only value the property quantifies over)',
        'gene names are unique in the reference and in the query; the tree is a valid strict tree',
        'the tie order of np.argsort is not modelled: the chosen sequence is an input of the model',
        'n_per_utility and its overrides are non-negative integers; one reference-marker file per call; '
        'parent_list = all parents; drop_level = None',
        'a table in which a gene marks one pair both ways is outside the quantifier (on it the code under-covers, as the '
        'model predicts: Example ex_hypothesis_needed)',
    ]
    nf = ctx.n(160, 2400)
    done = 0
    while done < nf:
        m = min(100, nf - done)
        worlds, d = make_worlds(ctx, m, f'fn_{done}')
        function_level(ctx, worlds)
        cleanup(d)
        done += m
    ns = ctx.n(40, 300)
    done = 0
    while done < ns:
        m = min(50, ns - done)
        worlds, d = make_worlds(ctx, m, f'st_{done}')
        stage_level(ctx, worlds, n_configs=ctx.n(4, 12))
        cleanup(d)
        done += m
    c12_batch.run_part(ctx)
    c12_downsample.run_part(ctx)


def replay(ctx, rec):
    import shutil
    try:
        return _replay(ctx, rec)
    finally:
        shutil.rmtree(ctx.scratch, ignore_errors=True)


def _replay(ctx, rec):
    import shutil
    world = rec.get('world')
    if world is None:
        print(json.dumps(rec, indent=1)[:4000])
        return 0
    shown = json.dumps(world, default=str)[:3000]
    if world.get('override') is not None:
        world['override'] = {(None if k == 'None' else tuple(k)): v for k, v in world['override']}
    d = ctx.scratch / 'replay'
    d.mkdir(exist_ok=True)
    tree, ref, stats = write_files(world, d, 0)
    before = len(ctx.violations)
    if rec.get('kind') == 'downsample':
        import sys
        c12_downsample.function_part(ctx, sys.modules[__name__], [(world, tree, ref)])
        c12_downsample.stage_part(ctx, sys.modules[__name__], [(world, tree, ref)])
        c12_downsample.batch_part(ctx, sys.modules[__name__], [(world, tree, ref)], all_k=True)
    elif rec.get('kind') == 'stage':
        stage_level(ctx, [(world, tree, ref)], n_configs=12)
    else:
        function_level(ctx, [(world, tree, ref)])
    print('INPUT', shown)
    for o in getattr(ctx, 'c12_observed', [])[:12]:
        print('OBSERVED', json.dumps(o, default=str)[:600])
    for what, p, no_input in ctx.violations[before:]:
        print('RESULT', what)
    if len(ctx.violations) == before and not ctx.known_hits:
        print('RESULT implementation, model and property agree on this input')
    return 1 if len(ctx.violations) > before else 0
