"""C13 — on-disk sparse transposition and reshaping preserve the matrix.

Drives the real code of utils/csc_to_csr.py, utils/csc_to_csr_parallel.py,
utils/anndata_utils.py, utils/sparse_utils.py and utils/h5_utils.py on generated
matrices and compares (a) with the extracted Coq model (Model/Transpose.v,
Model/Sparse.v; tags 1301-1313) and (b) with the property's own statement evaluated
on what the implementation wrote.  Shared helpers for C05 live here as well."""
import contextlib
import io
import itertools
import json
import multiprocessing
import os
import pathlib
import shutil
import time
import warnings

import h5py
import numpy as np
import pandas as pd
import scipy.sparse as sp

from harness import gen
from harness.core import exc_class

DTYPES = ['uint8', 'uint16', 'int32', 'int64', 'float32', 'float64']
ERR = {'IndexError': 1, 'KeyError': 1, 'ValueError': 3}


# ---------------------------------------------------------------- value coding
def code_array(a):
    """Opaque exact integer code of every stored value (ints: the value; floats: the
    IEEE bit pattern, +0.0 -> 0).  Copying code moves codes around unchanged."""
    a = np.ascontiguousarray(a)
    if a.dtype.kind in 'iub':
        return [int(v) for v in a.reshape(-1)]
    if a.dtype == np.float32:
        return [int(v) for v in a.reshape(-1).view(np.int32)]
    if a.dtype == np.float64:
        return [int(v) for v in a.reshape(-1).view(np.int64)]
    raise TypeError(a.dtype)


def code_dense(M):
    M = np.asarray(M)
    if M.ndim != 2:
        raise ValueError('2-d expected')
    flat = code_array(M)
    nc = M.shape[1]
    return [flat[i * nc:(i + 1) * nc] for i in range(M.shape[0])]


def rand_value(rng, dtype):
    dt = np.dtype(dtype)
    if dt.kind == 'u':
        return rng.randrange(1, min(int(np.iinfo(dt).max), 60000) + 1)
    if dt.kind == 'i':
        v = rng.randrange(1, 30000)
        return v if rng.random() < 0.8 else -v
    k = rng.random()
    if k < 0.5:
        return float(rng.randrange(1, 2000))
    if k < 0.8:
        return rng.randrange(1, 4000) / 4.0
    return (rng.randrange(1, 4000) * 0.1) * (1 if rng.random() < 0.8 else -1)


def gen_matrix(rng, kind=None, dtype=None):
    """A 2-d numpy matrix with exact zeros as 'not stored'.  kinds: tiny (0..4 x 0..4),
    small, big (>100 stored values), wide (>255 columns), onerow, onecol, zero, full."""
    kind = kind or rng.choice(['tiny', 'small', 'small', 'big', 'big', 'big', 'big', 'big', 'big', 'wide', 'onerow',
                               'onecol', 'zero', 'full'])
    dtype = dtype or rng.choice(DTYPES)
    if kind == 'tiny':
        nr, nc, dens = rng.randrange(0, 5), rng.randrange(0, 5), rng.random()
    elif kind == 'small':
        nr, nc, dens = rng.randrange(1, 9), rng.randrange(1, 9), rng.choice([0.1, 0.3, 0.6, 0.9])
    elif kind == 'big':
        nr, nc = rng.randrange(6, 36), rng.randrange(6, 36)
        target = rng.randrange(101, 380)
        while nr * nc < target + 5:
            nr += 1
            nc += 1
        dens = target / (nr * nc)
    elif kind == 'wide':
        nr, nc = rng.randrange(1, 4), rng.randrange(256, 300)
        dens = rng.choice([0.02, 0.2, 0.5])
        if rng.random() < 0.5:
            nr, nc = nc, nr
    elif kind == 'onerow':
        nr, nc, dens = 1, rng.randrange(1, 140), rng.choice([0.0, 0.3, 1.0])
    elif kind == 'onecol':
        nr, nc, dens = rng.randrange(1, 140), 1, rng.choice([0.0, 0.3, 1.0])
    elif kind == 'zero':
        nr, nc, dens = rng.randrange(1, 7), rng.randrange(1, 7), 0.0
    elif kind == 'dense':
        nr, nc, dens = rng.randrange(6, 20), rng.randrange(2, 12), 0.8
    else:
        nr, nc, dens = rng.randrange(1, 13), rng.randrange(1, 13), 1.0
    M = np.zeros((nr, nc), dtype=dtype)
    for i in range(nr):
        for j in range(nc):
            if rng.random() < dens:
                M[i, j] = rand_value(rng, dtype)
    # empty rows / columns
    if nr > 1 and nc > 1 and kind in ('small', 'big') and rng.random() < 0.6:
        for _ in range(rng.randrange(1, 3)):
            M[rng.randrange(nr), :] = 0
        for _ in range(rng.randrange(1, 3)):
            M[:, rng.randrange(nc)] = 0
    return M, kind


def comp_of(Msp):
    """[ptr, idx, dat] of a scipy compressed matrix (values coded)."""
    return [[int(v) for v in Msp.indptr], [int(v) for v in Msp.indices], code_array(Msp.data)]


def csc_lists(M):
    """CSC arrays of M built directly (column-major scan), canonical order."""
    nr, nc = M.shape
    ptr, idx, dat = [0], [], []
    for j in range(nc):
        for i in range(nr):
            if M[i, j] != 0:
                idx.append(i)
                dat.append(M[i, j])
        ptr.append(len(idx))
    return ptr, idx, np.array(dat, dtype=M.dtype)


def dense_from_compressed(ptr, idx, dat, n_major, n_minor, dtype):
    """Independent densification (major x minor) used by the property statement."""
    D = np.zeros((n_major, n_minor), dtype=dtype)
    for j in range(n_major):
        for k in range(ptr[j], ptr[j + 1]):
            D[j, idx[k]] = dat[k]
    return D


def same_bits(A, B):
    A, B = np.asarray(A), np.asarray(B)
    return A.shape == B.shape and A.dtype == B.dtype and code_array(A) == code_array(B)


# ---------------------------------------------------------------- budgets
def nbytes(dt):
    dt = np.dtype(dt)
    if np.issubdtype(dt, np.integer):
        return np.iinfo(dt).bits // 8
    return np.finfo(dt).bits // 8


def budgets(max_gb, data_dtype, indices_dtype, indptr_dtype):
    """(E, L, Lc): elements_at_a_time and the two load chunk sizes, by the integer
    formulae of transpose_sparse_matrix_on_disk / _calculate_csr_indptr for the
    max_gb *argument* of transpose_sparse_matrix_on_disk."""
    max_gb = 0.8 * max_gb
    lc = np.round(max_gb * 1024 ** 3).astype(int) // nbytes(indices_dtype)
    lc = max(100, lc // 2)
    data_bytes = nbytes(data_dtype) if data_dtype is not None else 0
    indptr_bytes, indices_bytes = nbytes(indptr_dtype), nbytes(indices_dtype)
    max_load_gb = max_gb / 3
    max_el_gb = max_gb - max_load_gb
    load_bytes = int(data_bytes + indptr_bytes + indices_bytes + 8)
    L = np.round(max_load_gb * 1024 ** 3).astype(int) // load_bytes
    el_bytes = int(data_bytes + max(indices_bytes, indptr_bytes))
    E = np.round(max_el_gb * 1024 ** 3).astype(int) // el_bytes
    return int(max(100, E)), int(max(100, L)), int(lc)


def rand_gb(rng):
    """max_gb values from 'everything at the enforced minimum of 100' upwards."""
    k = rng.random()
    if k < 0.45:
        return rng.choice([1e-9, 1e-7, 5e-7])                 # all three budgets at 100
    if k < 0.85:
        return rng.randrange(800, 40000) / 1024 ** 3 / 0.64    # a few hundred elements
    return rng.choice([0.001, 1, 10])


# ---------------------------------------------------------------- tracing wrapper
class Rec:
    """h5py dataset proxy that records the slices read."""

    def __init__(self, ds, name, log):
        self._d, self._n, self._log = ds, name, log

    @property
    def shape(self):
        return self._d.shape

    @property
    def dtype(self):
        return self._d.dtype

    def __getitem__(self, k):
        if isinstance(k, slice):
            self._log.append([self._n, int(k.start), int(k.stop)])
        return self._d[k]


_TRACE = {'dir': None, 'orig': None}


def install_tracer(trace_dir):
    """Wrap transpose_sparse_matrix_on_disk (in this interpreter and, by fork, in the
    workers) so that the budget argument and every slice read are recorded."""
    import cell_type_mapper.utils.csc_to_csr as m1
    import cell_type_mapper.utils.csc_to_csr_parallel as m2
    if _TRACE['orig'] is None:
        _TRACE['orig'] = m1.transpose_sparse_matrix_on_disk
    orig = _TRACE['orig']
    _TRACE['dir'] = pathlib.Path(trace_dir)
    _TRACE['dir'].mkdir(parents=True, exist_ok=True)

    def wrapper(**kw):
        log = []
        k2 = dict(kw)
        k2['indices_handle'] = Rec(kw['indices_handle'], 'indices', log)
        if kw.get('data_handle') is not None:
            k2['data_handle'] = Rec(kw['data_handle'], 'data', log)
        rec = {'max_gb': float(kw['max_gb']), 'indices_max': int(kw['indices_max']),
               'slice': None if kw.get('indices_slice') is None else [int(v) for v in kw['indices_slice']],
               'use_data': kw.get('data_handle') is not None,
               'indices_dtype': str(kw['indices_handle'].dtype), 'indptr_dtype': str(kw['indptr_handle'].dtype),
               'data_dtype': None if kw.get('data_handle') is None else str(kw['data_handle'].dtype),
               'reads': log, 'raised': None}
        try:
            return orig(**k2)
        except Exception as e:
            rec['raised'] = f'{exc_class(e)}: {e}'[:200]
            raise
        finally:
            p = _TRACE['dir'] / f'{time.time_ns()}_{os.getpid()}.json'
            p.write_text(json.dumps(rec))
    m1.transpose_sparse_matrix_on_disk = wrapper
    m2.transpose_sparse_matrix_on_disk = wrapper


def uninstall_tracer():
    import cell_type_mapper.utils.csc_to_csr as m1
    import cell_type_mapper.utils.csc_to_csr_parallel as m2
    if _TRACE['orig'] is not None:
        m1.transpose_sparse_matrix_on_disk = _TRACE['orig']
        m2.transpose_sparse_matrix_on_disk = _TRACE['orig']


def take_traces():
    out = []
    for p in sorted(_TRACE['dir'].iterdir()):
        out.append(json.loads(p.read_text()))
        p.unlink()
    out.sort(key=lambda t: (t['slice'] or [-1, -1]))
    return out


def expected_reads(model_payload, use_data):
    """The slice reads the model's loop structure predicts: count pass, then for each
    block every load chunk (data only where the chunk holds an entry of the block)."""
    _, blocks, cchunks, lchunks, dreads = model_payload
    seq = [['indices', a, b] for a, b in cchunks]
    for b, dr in zip(blocks, dreads):
        drs = {tuple(x) for x in dr}
        for a, c in lchunks:
            seq.append(['indices', a, c])
            if use_data and (a, c) in drs:
                seq.append(['data', a, c])
    return seq


@contextlib.contextmanager
def quiet():
    """Silence prints and warnings of the implementation; the tracebacks that dying
    worker processes write to fd 2 are dropped too.  Workers that outlive a failed
    parent call are waited for, so that they cannot hold files of the next case."""
    import sys
    sys.stderr.flush()
    saved = os.dup(2)
    devnull = os.open(os.devnull, os.O_WRONLY)
    os.dup2(devnull, 2)
    try:
        with contextlib.redirect_stdout(io.StringIO()):
            with warnings.catch_warnings():
                warnings.simplefilter('ignore')
                yield
    finally:
        for p in multiprocessing.active_children():
            if p.name.startswith('Process-'):
                p.join(timeout=20)
        os.dup2(saved, 2)
        os.close(saved)
        os.close(devnull)


# ---------------------------------------------------------------- transposition cases
def write_compressed(path, ptr, idx, dat, indices_dtype='int32', indptr_dtype='int32', chunks=None):
    with h5py.File(path, 'w') as f:
        for name, arr in (('indptr', np.array(ptr, dtype=indptr_dtype)),
                          ('indices', np.array(idx, dtype=indices_dtype)), ('data', np.asarray(dat))):
            ch = None
            if chunks is not None and arr.shape[0] > 0:
                ch = (max(1, min(chunks, arr.shape[0])),)
            f.create_dataset(name, data=arr, chunks=ch)


def read_out(path, use_data):
    with h5py.File(path, 'r') as f:
        out = {'indptr': f['indptr'][()], 'indices': f['indices'][()]}
        out['data'] = f['data'][()] if 'data' in f else None
        out['keys'] = sorted(f.keys())
    return out


def run_transpose_impl(case, workdir):
    """Run the real code for one transposition case; returns the observation."""
    import cell_type_mapper.utils.csc_to_csr as m1
    import cell_type_mapper.utils.csc_to_csr_parallel as m2
    src = workdir / 'src.h5'
    dst = workdir / 'dst.h5'
    if dst.exists():
        dst.unlink()
    write_compressed(src, case['ptr'], case['idx'], case['dat_arr'], case['indices_dtype'],
                     case['indptr_dtype'], case.get('chunks'))
    obs = {}
    try:
        with quiet():
            if case['route'] == 'direct':
                with h5py.File(src, 'r') as f:
                    m1.transpose_sparse_matrix_on_disk(
                        indices_handle=f['indices'], indptr_handle=f['indptr'],
                        data_handle=f['data'] if case['use_data'] else None,
                        indices_max=case['indices_max'], max_gb=case['max_gb'], output_path=dst,
                        verbose=False,
                        indices_slice=None if case['slice'] is None else tuple(case['slice']))
            elif case['route'] == 'csc_to_csr':
                with h5py.File(src, 'r') as f:
                    m1.csc_to_csr_on_disk(csc_group=f, csr_path=dst,
                                          array_shape=(case['indices_max'], len(case['ptr']) - 1),
                                          max_gb=case['max_gb'], use_data_array=case['use_data'])
            else:
                m2.transpose_sparse_matrix_on_disk_v2(
                    h5_path=src, indices_tag='indices', indptr_tag='indptr',
                    data_tag='data' if case['use_data'] else None, indices_max=case['indices_max'],
                    max_gb=case['max_gb'], output_path=dst, tmp_dir=str(workdir),
                    n_processors=case['n_proc'])
        obs['ok'] = True
        obs.update(read_out(dst, case['use_data']))
    except Exception as e:
        obs['ok'] = False
        obs['exc'] = exc_class(e)
        obs['msg'] = str(e)[:200]
    obs['left'] = sorted(p.name for p in workdir.iterdir() if p.name not in ('src.h5', 'dst.h5'))
    return obs


def slice_entries(case):
    lo, hi = (0, case['indices_max']) if case['slice'] is None else case['slice']
    return lo, hi, [r for r in case['idx'] if lo <= r < hi]


def transpose_class(case, obs):
    """Class string of a failing transposition (the input classes of the findings F2/F4,
    all fixed: empty slices, no stored value, fewer stored values than rows, no row)."""
    lo, hi, ent = slice_entries(case)
    nnz = len(ent)
    if case['route'] != 'v2':
        if not obs['ok'] and obs['exc'] == 'ValueError' and case['use_data'] and nnz == 0:
            return 'F2-transpose-empty-with-data'
        return 'transpose:' + (obs.get('exc') or 'wrong-output')
    if not obs['ok']:
        if case['indices_max'] == 0 and obs['exc'] == 'ValueError':
            return 'F4-v2-indices-max-zero'
        step = -(-case['indices_max'] // case['n_proc'])
        empty = any(not any(a <= r < min(a + step, case['indices_max']) for r in case['idx'])
                    for a in range(0, case['indices_max'], step))
        if worker_failed(obs) and case['use_data'] and empty:
            return 'F2-v2-worker-empty-slice-with-data'
        if obs['exc'] == 'ValueError' and nnz == 0:
            return 'F4-v2-no-stored-value'
        if obs['exc'] == 'ValueError' and case['use_data'] and nnz < case['indices_max'] + 1:
            return 'F4-v2-data-chunks-exceed-size'
    return 'transpose-v2:' + (obs.get('exc') or 'wrong-output')


def spec_transpose(case, obs):
    """The property's own statement on what the implementation wrote.  Returns a list
    of failures (empty = holds)."""
    if not obs['ok']:
        return [f'raised {obs["exc"]}: {obs["msg"]}']
    bad = []
    lo, hi, ent = slice_entries(case)
    n_out = hi - lo
    n_major_in = len(case['ptr']) - 1
    ptr = [int(v) for v in obs['indptr']]
    idx = [int(v) for v in obs['indices']]
    if len(ptr) != n_out + 1 or ptr[0] != 0 or any(a > b for a, b in zip(ptr, ptr[1:])):
        bad.append('pointer array not monotone from 0 / wrong length')
        return bad
    if ptr[-1] != len(ent) or len(idx) != len(ent):
        bad.append(f'pointer array ends at {ptr[-1]}, {len(idx)} indices, {len(ent)} stored entries in the slice')
        return bad
    for r in range(n_out):
        seg = idx[ptr[r]:ptr[r + 1]]
        if any(a >= b for a, b in zip(seg, seg[1:])):
            bad.append(f'minor indices of major slice {r} not sorted and unique: {seg}')
            break
    if any(not (0 <= c < n_major_in) for c in idx):
        bad.append('minor index out of range')
        return bad
    # every stored value at its transposed position
    M = case['M']                        # indices_max x n_major_in, stored = listed in the input
    if case['use_data']:
        if obs['data'] is None or len(obs['data']) != len(idx):
            bad.append('value array missing / wrong length')
            return bad
        if obs['data'].dtype != M.dtype:
            bad.append(f'value dtype {obs["data"].dtype} != {M.dtype}')
        D = dense_from_compressed(ptr, idx, obs['data'], n_out, n_major_in, M.dtype)
        if not same_bits(D, M[lo:hi, :]):
            bad.append('dense view differs from the transpose of the input')
    else:
        if obs['data'] is not None:
            bad.append('a value array was written although none was given')
    P = np.zeros((n_out, n_major_in), dtype=bool)
    for r in range(n_out):
        P[r, idx[ptr[r]:ptr[r + 1]]] = True
    if not (P == case['S'][lo:hi, :]).all():
        bad.append('stored pattern differs from the transpose of the input pattern')
    if obs['left']:
        bad.append(f'scratch left behind: {obs["left"]}')
    return bad


def model_case_transpose(case, E, L, Lc):
    comp = [case['ptr'], case['idx'], code_array(case['dat_arr'])]
    if case['route'] == 'v2':
        return (1302, [comp, case['use_data'], case['indices_max'], case['n_proc'], E, L, Lc])
    return (1301, [comp, case['use_data'], case['indices_max'],
                   [] if case['slice'] is None else list(case['slice']), E, L, Lc])


def worker_failed(obs):
    """The parent's report of a dead worker.  Its siblings keep running, so the
    clean-up in the `finally` of transpose_sparse_matrix_on_disk_v2 can lose the race
    against them and replace the RuntimeError by OSError 'Directory not empty'."""
    return (obs['exc'] == 'RuntimeError' and 'exited with code' in obs['msg']) or \
        (obs['exc'] == 'OSError' and 'Directory not empty' in obs['msg'])


def exc_code(obs):
    if worker_failed(obs):
        return 5
    return ERR.get(obs['exc'], 99)


def corr_transpose(case, obs, res, traces):
    """Correspondence: observed output == model output (arrays and loop bounds)."""
    bad = []
    if res[0] == 2:
        return ['model could not decode the case']
    if res[0] == 1:
        if obs['ok']:
            bad.append(f'model says error {res[1]} but the implementation succeeded')
        elif exc_code(obs) != res[1]:
            bad.append(f'error kind: implementation {obs["exc"]} ({obs["msg"]}), model {res[1]}')
        return bad
    if not obs['ok']:
        return [f'implementation raised {obs["exc"]}: {obs["msg"]} but the model succeeds']
    payload = res[1]
    comp = payload if case['route'] == 'v2' else payload[0]
    if [int(v) for v in obs['indptr']] != comp[0]:
        bad.append(f'indptr: impl {obs["indptr"].tolist()} model {comp[0]}')
    if [int(v) for v in obs['indices']] != comp[1]:
        bad.append(f'indices: impl {obs["indices"].tolist()} model {comp[1]}')
    got = [] if obs['data'] is None else code_array(obs['data'])
    if got != comp[2]:
        bad.append('data: impl and model differ')
    if case['route'] != 'v2' and traces is not None:
        if len(traces) != 1:
            bad.append(f'{len(traces)} traced calls, expected 1')
        elif traces[0]['reads'] != expected_reads(payload, case['use_data']):
            bad.append(f'loop bounds: observed reads {traces[0]["reads"]} expected '
                       f'{expected_reads(payload, case["use_data"])}')
    return bad


def describe(case):
    d = {k: v for k, v in case.items() if k not in ('M', 'S', 'dat_arr')}
    d['dat'] = np.asarray(case['dat_arr']).tolist()
    d['dat_dtype'] = str(np.asarray(case['dat_arr']).dtype)
    d['shape'] = list(case['M'].shape)
    return d


def judge_transpose(ctx, case, obs, res, traces, nontrivial_key=None):
    spec = spec_transpose(case, obs)
    corr = corr_transpose(case, obs, res, traces)
    if not spec and not corr:
        return
    ctx.disagreements_checked += 1
    d = describe(case)
    d['kind'] = 'transpose'
    d['observed'] = {k: (v.tolist() if hasattr(v, 'tolist') else v) for k, v in obs.items()}
    d['model'] = res
    if spec:
        d['class'] = transpose_class(case, obs)
        ctx.violation(f'{case["route"]} transposition: ' + '; '.join(spec + corr), d)
    else:
        d['class'] = 'corr:Transpose.transpose_v2' if case['route'] == 'v2' else 'corr:Transpose.transpose'
        ctx.violation(f'{case["route"]} transposition and its model disagree: ' + '; '.join(corr), d,
                      no_input=True)


def make_case(M, S=None, ptr=None, idx=None, dat=None, **kw):
    """A transposition case for the matrix M (indices_max x n_major_in).  S is the
    stored pattern (defaults to M != 0)."""
    if ptr is None:
        ptr, idx, dat = csc_lists(M)
    if S is None:
        S = (M != 0)
    case = {'M': M, 'S': S, 'ptr': list(ptr), 'idx': list(idx), 'dat_arr': dat,
            'indices_max': int(M.shape[0]), 'use_data': True, 'slice': None, 'route': 'direct',
            'max_gb': 1.0, 'n_proc': 1, 'indices_dtype': 'int32', 'indptr_dtype': 'int32', 'chunks': None}
    case.update(kw)
    return case


def case_budgets(case, trace_gb=None):
    gb = case['max_gb']
    if case['route'] == 'v2':
        gb = 0.8 * gb / case['n_proc']
    if trace_gb is not None:
        gb = trace_gb
    return budgets(gb, np.asarray(case['dat_arr']).dtype if case['use_data'] else None,
                   case['indices_dtype'], case['indptr_dtype'])


def run_transpose_batch(ctx, cases, workdir, count_key):
    """Implementation, model, both comparisons for a list of transposition cases."""
    workdir.mkdir(parents=True, exist_ok=True)
    observed = []
    for case in cases:
        obs = run_transpose_impl(case, workdir)
        traces = take_traces()
        observed.append((obs, traces))
        for p in workdir.iterdir():
            if p.name not in ('src.h5', 'dst.h5'):
                if p.is_dir():
                    shutil.rmtree(p, ignore_errors=True)
                else:
                    p.unlink()
    mcases = []
    for case, (obs, traces) in zip(cases, observed):
        tgb = None
        if traces:
            gbs = {t['max_gb'] for t in traces}
            if len(gbs) == 1:
                tgb = gbs.pop()
        case['budgets'] = case_budgets(case, tgb)
        mcases.append(model_case_transpose(case, *case['budgets']))
    results = ctx.model(mcases)
    for case, (obs, traces), res in zip(cases, observed, results):
        lo, hi, ent = slice_entries(case)
        n_blocks = len(res[1][1]) if (res[0] == 0 and case['route'] != 'v2') else 0
        n_chunks = len(res[1][3]) if (res[0] == 0 and case['route'] != 'v2') else 0
        nontriv = len(ent) >= 2 and len(case['ptr']) > 2 and (hi - lo) >= 2
        ctx.count(count_key(case), nontrivial=nontriv)
        ctx.dist('transpose_route', case['route'])
        ctx.dist('transpose_blocks', n_blocks if n_blocks < 4 else '4+')
        ctx.dist('transpose_load_chunks', n_chunks if n_chunks < 4 else '4+')
        ctx.dist('transpose_outcome', 'ok' if res[0] == 0 else f'error{res[1]}')
        if case['route'] == 'v2' and obs['ok']:
            # each worker's loop bounds against the model of its slice
            judge_v2_workers(ctx, case, traces)
        if nontriv and n_blocks > 1:
            ctx.sample({'shape': list(case['M'].shape), 'nnz': len(case['idx']), 'route': case['route'],
                        'slice': case['slice'], 'budgets': case['budgets'], 'blocks': res[1][1]}, limit=3)
        judge_transpose(ctx, case, obs, res, traces if case['route'] != 'v2' else None)


def judge_v2_workers(ctx, case, traces):
    if not traces:
        return
    mcases = []
    for t in traces:
        E, L, Lc = budgets(t['max_gb'], t['data_dtype'], t['indices_dtype'], t['indptr_dtype'])
        comp = [case['ptr'], case['idx'], code_array(case['dat_arr'])]
        mcases.append((1301, [comp, t['use_data'], t['indices_max'], t['slice'] or [], E, L, Lc]))
    for t, res in zip(traces, ctx.model(mcases)):
        ctx.traces_validated += 1
        if res[0] != 0:
            continue
        exp = expected_reads(res[1], t['use_data'])
        if t['reads'] != exp:
            ctx.disagreements_checked += 1
            d = describe(case)
            d.update({'kind': 'transpose-worker', 'class': 'corr:Transpose.transpose', 'trace': t, 'expected': exp})
            ctx.violation('loop bounds of a parallel worker differ from the model', d, no_input=True)


# ---------------------------------------------------------------- generators of cases
def pattern_cases(max_dim, rng, variants):
    """Every 0/1 pattern of every shape up to max_dim x max_dim (0 rows / 0 columns
    included), distinct values in storage order."""
    for nr in range(0, max_dim + 1):
        for nc in range(0, max_dim + 1):
            n = nr * nc
            for bits in range(1 << n):
                M = np.zeros((nr, nc), dtype=np.float32)
                k = 1
                for j in range(nc):
                    for i in range(nr):
                        if (bits >> (j * nr + i)) & 1:
                            M[i, j] = k
                            k += 1
                yield from variants(M, rng, bits)


def variants_quick(M, rng, bits):
    nr = M.shape[0]
    yield make_case(M)
    yield make_case(M, use_data=False)
    for lo in range(nr + 1):
        for hi in range(lo, nr + 1):
            if (lo, hi) != (0, nr) or nr == 0:
                yield make_case(M, slice=[lo, hi], use_data=bool((bits + lo + hi) % 2))
    yield make_case(M, route='v2', n_proc=1 + bits % 3, use_data=bool(bits % 2))


def variants_thorough(M, rng, bits):
    nr = M.shape[0]
    if nr <= 3 and M.shape[1] <= 3:
        yield from variants_quick(M, rng, bits)
        return
    yield make_case(M, use_data=bool(bits % 2))
    lo = bits % (nr + 1)
    hi = lo + (bits // 7) % (nr + 1 - lo)
    yield make_case(M, slice=[lo, hi], use_data=not bool(bits % 2))


def random_transpose_case(rng):
    M, kind = gen_matrix(rng)
    ptr, idx, dat = csc_lists(M)
    S = (M != 0)
    # non-canonical but duplicate-free input: row order inside a column shuffled
    if rng.random() < 0.25 and len(idx) > 1:
        idx, dat = list(idx), np.array(dat)
        for j in range(len(ptr) - 1):
            a, b = ptr[j], ptr[j + 1]
            perm = list(range(a, b))
            rng.shuffle(perm)
            idx[a:b] = [idx[p] for p in perm]
            dat[a:b] = dat[perm]
    # an explicitly stored zero
    if rng.random() < 0.1 and len(idx) > 0:
        dat = np.array(dat)
        k = rng.randrange(len(idx))
        dat[k] = 0
        M = M.copy()
        M[idx[k], max(j for j in range(len(ptr) - 1) if ptr[j] <= k)] = 0
    nr = M.shape[0]
    idt = rng.choice(['int32', 'int64', 'uint16', 'uint32'] + (['uint8'] if nr < 256 else []))
    case = make_case(M, S=S, ptr=ptr, idx=idx, dat=dat, indices_dtype=idt,
                     indptr_dtype=rng.choice(['int32', 'int64']),
                     chunks=rng.choice([None, None, 1, 7, 100, 1000]), max_gb=rand_gb(rng),
                     use_data=rng.random() < 0.7)
    r = rng.random()
    if r < 0.45:
        case['route'] = 'direct'
        if rng.random() < 0.5 and nr > 0:
            lo = rng.randrange(0, nr + 1)
            case['slice'] = [lo, rng.randrange(lo, nr + 1)]
    elif r < 0.6:
        case['route'] = 'csc_to_csr'
    else:
        case['route'] = 'v2'
        case['n_proc'] = rng.randrange(1, 5)
    case['gen_kind'] = kind
    return case


# ---------------------------------------------------------------- exhaustive sweep (parallel in thorough)
def _sweep_worker(args):
    """Run a slice of the exhaustive pattern sweep in a child process: returns
    (case description, observation, traces) triples in a compact form."""
    max_dim, thorough, part, nparts, workdir, trace_dir = args
    import random
    install_tracer(trace_dir)
    workdir = pathlib.Path(workdir)
    workdir.mkdir(parents=True, exist_ok=True)
    out = []
    rng = random.Random(0)
    var = variants_thorough if thorough else variants_quick
    for k, case in enumerate(pattern_cases(max_dim, rng, var)):
        if k % nparts != part:
            continue
        if case['route'] == 'v2':
            continue                      # v2 cases are run by the parent (they fork)
        obs = run_transpose_impl(case, workdir)
        traces = take_traces()
        out.append((k, obs, traces))
    return out


def exhaustive(ctx):
    max_dim = ctx.n(3, 4)
    thorough = not ctx.quick()
    var = variants_thorough if thorough else variants_quick
    cases = list(pattern_cases(max_dim, ctx.rng, var))
    nparts = 1 if ctx.quick() else min(14, os.cpu_count() or 1)
    done = {}
    if nparts > 1:
        args = [(max_dim, thorough, p, nparts, str(ctx.scratch / f'sweep{p}'), str(ctx.scratch / f'tr{p}'))
                for p in range(nparts)]
        with multiprocessing.get_context('fork').Pool(nparts) as pool:
            for part in pool.map(_sweep_worker, args):
                for k, obs, traces in part:
                    done[k] = (obs, traces)
        install_tracer(ctx.scratch / 'traces')
    work = ctx.scratch / 'exh'
    work.mkdir(exist_ok=True)
    observed = []
    for k, case in enumerate(cases):
        if k in done:
            observed.append(done[k])
            continue
        obs = run_transpose_impl(case, work)
        observed.append((obs, take_traces()))
        # what a case left behind is part of ITS observation (obs['left']); it must not
        # be charged to the cases that follow (a failed parallel run can leave its
        # scratch directory: the clean-up races against the surviving workers)
        for p in work.iterdir():
            if p.name not in ('src.h5', 'dst.h5'):
                if p.is_dir():
                    shutil.rmtree(p, ignore_errors=True)
                else:
                    p.unlink()
    mcases = []
    for case, (obs, traces) in zip(cases, observed):
        tgb = traces[0]['max_gb'] if traces else None
        case['budgets'] = case_budgets(case, tgb)
        mcases.append(model_case_transpose(case, *case['budgets']))
    results = ctx.model(mcases)
    for case, (obs, traces), res in zip(cases, observed, results):
        lo, hi, ent = slice_entries(case)
        nontriv = len(ent) >= 2 and len(case['ptr']) > 2 and (hi - lo) >= 2
        ctx.count(('pat', case['M'].shape, tuple(case['idx']), tuple(case['ptr']), case['use_data'],
                   tuple(case['slice'] or ()), case['route'], case['n_proc']), nontrivial=nontriv)
        ctx.dist('transpose_route', 'pattern-' + case['route'])
        ctx.dist('transpose_outcome', 'ok' if res[0] == 0 else f'error{res[1]}')
        judge_transpose(ctx, case, obs, res, traces if case['route'] != 'v2' else None)
    ctx.extra['exhaustive_patterns'] = f'all 0/1 patterns of all shapes up to {max_dim}x{max_dim}: {len(cases)} cases'


# ---------------------------------------------------------------- file-level operations
def h5ad_x(path):
    """(encoding, dict of raw arrays / dense) of X."""
    with h5py.File(path, 'r') as f:
        enc = f['X'].attrs['encoding-type']
        if enc == 'array':
            return enc, {'dense': f['X'][()]}
        return enc, {'indptr': f['X/indptr'][()], 'indices': f['X/indices'][()], 'data': f['X/data'][()],
                     'shape': [int(v) for v in f['X'].attrs['shape']]}


def dense_of_x(enc, arrs, dtype):
    if enc == 'array':
        return arrs['dense']
    nr, nc = arrs['shape']
    ptr = [int(v) for v in arrs['indptr']]
    idx = [int(v) for v in arrs['indices']]
    if enc == 'csr_matrix':
        return dense_from_compressed(ptr, idx, arrs['data'], nr, nc, dtype)
    return dense_from_compressed(ptr, idx, arrs['data'], nc, nr, dtype).T


def canonical_ok(arrs):
    ptr = [int(v) for v in arrs['indptr']]
    idx = [int(v) for v in arrs['indices']]
    if ptr[0] != 0 or ptr[-1] != len(idx) or any(a > b for a, b in zip(ptr, ptr[1:])):
        return False
    return all(all(a < b for a, b in zip(idx[ptr[j]:ptr[j + 1]], idx[ptr[j] + 1:ptr[j + 1]]))
               for j in range(len(ptr) - 1))


def names(prefix, n):
    return [f'{prefix}{i}' for i in range(n)]


def report(ctx, what, kind, klass_prop, klass_corr, spec, corr, desc):
    if not spec and not corr:
        return
    ctx.disagreements_checked += 1
    desc = dict(desc)
    desc['kind'] = kind
    if spec:
        desc['class'] = klass_prop
        ctx.violation(f'{what}: ' + '; '.join(spec + corr), desc)
    else:
        desc['class'] = klass_corr
        ctx.violation(f'{what} and its model disagree: ' + '; '.join(corr), desc, no_input=True)


def comp_eq(arrs, comp):
    bad = []
    if [int(v) for v in arrs['indptr']] != comp[0]:
        bad.append(f'indptr impl {arrs["indptr"].tolist()} model {comp[0]}')
    if [int(v) for v in arrs['indices']] != comp[1]:
        bad.append(f'indices impl {arrs["indices"].tolist()} model {comp[1]}')
    if code_array(arrs['data']) != comp[2]:
        bad.append('data differ')
    return bad


def attempt(f):
    try:
        with quiet():
            f()
        return None
    except Exception as e:
        return (exc_class(e), str(e)[:200])


def mdesc(M, **kw):
    d = {'M': np.asarray(M).tolist(), 'dtype': str(M.dtype), 'shape': list(M.shape)}
    d.update(kw)
    return d


def nonzero_matrix(rng, kinds=('tiny', 'small', 'small', 'big', 'zero', 'onerow', 'full')):
    M, kind = gen_matrix(rng, kind=rng.choice(kinds))
    while M.shape[0] == 0 or M.shape[1] == 0:
        M, kind = gen_matrix(rng, kind=rng.choice(kinds))
    return M, kind


def op_pivot(ctx, d, i):
    from cell_type_mapper.utils.anndata_utils import pivot_csr_h5ad
    rng = ctx.rng
    M, kind = nonzero_matrix(rng, kinds=('tiny', 'small', 'big', 'zero', 'onerow', 'full', 'full', 'full', 'dense'))
    src, dst = d / f'pv_src_{i}.h5ad', d / f'pv_dst_{i}.h5ad'
    with quiet():
        gen.write_h5ad(src, M, names('c', M.shape[0]), names('g', M.shape[1]), encoding='csr',
                       chunks=rng.choice([None, 'contiguous', 3]))
    n_proc, gb, compression = rng.randrange(1, 4), rand_gb(rng), rng.random() < 0.5
    tmp = d / f'pv_tmp_{i}'
    tmp.mkdir()
    before = gen.digest(src)
    err = attempt(lambda: pivot_csr_h5ad(src, dst, tmp_dir=str(tmp), n_processors=n_proc, max_gb=gb,
                                         compression=compression))
    traces = take_traces()
    csr = sp.csr_matrix(M)
    case = make_case(M.T, route='v2', n_proc=n_proc, max_gb=gb)   # input: CSR of M = "CSC" of M.T
    case['ptr'], case['idx'], case['dat_arr'] = [int(v) for v in csr.indptr], [int(v) for v in csr.indices], csr.data
    with h5py.File(src, 'r') as f:
        case['indices_dtype'], case['indptr_dtype'] = str(f['X/indices'].dtype), str(f['X/indptr'].dtype)
    tgb = traces[0]['max_gb'] if traces else None
    res = ctx.model([model_case_transpose(case, *case_budgets(case, tgb))])[0]
    obs = {'ok': err is None, 'exc': err and err[0], 'msg': err and err[1], 'left': sorted(p.name for p in tmp.iterdir())}
    spec, corr = [], []
    desc = mdesc(M, n_proc=n_proc, max_gb=gb, compression=compression, observed=obs, model=res)
    if err is None:
        enc, arrs = h5ad_x(dst)
        obs.update({'indptr': arrs['indptr'], 'indices': arrs['indices'], 'data': arrs['data']})
        if enc != 'csc_matrix' or arrs['shape'] != list(M.shape):
            spec.append(f'encoding {enc} shape {arrs["shape"]}')
        elif not canonical_ok(arrs):
            spec.append('pointer array not monotone to nnz or indices not sorted/unique per column')
        elif not same_bits(dense_of_x(enc, arrs, M.dtype), M):
            spec.append('matrix of the pivoted file differs from the original')
        else:
            Xr, a = gen.read_x_dense(dst)
            if not same_bits(Xr.astype(M.dtype), M) or list(a.obs.index) != names('c', M.shape[0]) \
                    or list(a.var.index) != names('g', M.shape[1]):
                spec.append('anndata reads a different matrix / obs / var from the pivoted file')
        if res[0] == 0:
            corr += comp_eq(arrs, res[1])
        else:
            corr.append(f'model says error {res[1]}')
    else:
        spec.append(f'raised {err[0]}: {err[1]}')
        if res[0] != 1 or exc_code(obs) != res[1]:
            corr.append(f'model {res}')
    if obs['left']:
        spec.append(f'scratch left behind {obs["left"]}')
    if gen.digest(src) != before:
        spec.append('source file modified')
    ctx.count(('pivot', i), nontrivial=(M != 0).sum() >= 2)
    ctx.dist('op', 'pivot_csr_h5ad:' + ('ok' if err is None else 'raised'))
    klass = transpose_class(case, obs).replace('transpose-v2', 'pivot') if spec else ''
    report(ctx, 'pivot_csr_h5ad', 'pivot', klass, 'corr:Transpose.transpose_v2', spec, corr, desc)


def op_shuffle(ctx, d, i):
    from cell_type_mapper.utils.anndata_utils import shuffle_csr_h5ad_rows
    rng = ctx.rng
    M, kind = nonzero_matrix(rng)
    src, dst = d / f'sh_src_{i}.h5ad', d / f'sh_dst_{i}.h5ad'
    with quiet():
        gen.write_h5ad(src, M, names('c', M.shape[0]), names('g', M.shape[1]), encoding='csr',
                       chunks=rng.choice([None, 'contiguous', 3]))
    order = list(range(M.shape[0]))
    rng.shuffle(order)
    compression = rng.random() < 0.5
    err = attempt(lambda: shuffle_csr_h5ad_rows(src, dst, order, compression=compression))
    csr = sp.csr_matrix(M)
    res = ctx.model([(1303, [comp_of(csr), order])])[0]
    spec, corr = [], []
    desc = mdesc(M, order=order, compression=compression, model=res)
    if err is None:
        enc, arrs = h5ad_x(dst)
        if enc != 'csr_matrix' or arrs['shape'] != list(M.shape) or not canonical_ok(arrs):
            spec.append('not a canonical CSR matrix of the right shape')
        elif not same_bits(dense_of_x(enc, arrs, M.dtype), M[order, :]):
            spec.append('rows of the shuffled file differ from M[new_row_order]')
        else:
            Xr, a = gen.read_x_dense(dst)
            if not same_bits(Xr.astype(M.dtype), M[order, :]) or list(a.obs.index) != [f'c{r}' for r in order]:
                spec.append('anndata reads a different matrix / obs order')
        corr += comp_eq(arrs, res[1]) if res[0] == 0 else [f'model says error {res[1]}']
    else:
        spec.append(f'raised {err[0]}: {err[1]}')
        desc['observed'] = err
        if res[0] != 1:
            corr.append('model succeeds')
    ctx.count(('shuffle', i), nontrivial=(M != 0).sum() >= 2 and M.shape[0] >= 2)
    ctx.dist('op', 'shuffle_csr_h5ad_rows:' + ('ok' if err is None else 'raised'))
    report(ctx, 'shuffle_csr_h5ad_rows', 'shuffle', 'shuffle:' + (err[0] if err else 'wrong-matrix'),
           'corr:Sparse.shuffle_rows', spec, corr, desc)


def op_subset(ctx, d, i):
    from cell_type_mapper.utils.anndata_utils import subset_csc_h5ad_columns
    rng = ctx.rng
    M, kind = nonzero_matrix(rng)
    src, dst = d / f'su_src_{i}.h5ad', d / f'su_dst_{i}.h5ad'
    with quiet():
        gen.write_h5ad(src, M, names('c', M.shape[0]), names('g', M.shape[1]), encoding='csc',
                       chunks=rng.choice([None, 'contiguous', 3]))
    nc = M.shape[1]
    chosen = rng.sample(range(nc), rng.randrange(1, nc + 1))
    compression = rng.random() < 0.5
    err = attempt(lambda: subset_csc_h5ad_columns(src, dst, chosen, compression=compression))
    csc = sp.csc_matrix(M)
    res = ctx.model([(1304, [comp_of(csc), chosen])])[0]
    spec, corr = [], []
    desc = mdesc(M, chosen=chosen, compression=compression, model=res)
    want = M[:, sorted(chosen)]
    if err is None:
        enc, arrs = h5ad_x(dst)
        if enc != 'csc_matrix' or arrs['shape'] != list(want.shape) or not canonical_ok(arrs):
            spec.append('not a canonical CSC matrix of the right shape')
        elif not same_bits(dense_of_x(enc, arrs, M.dtype), want):
            spec.append('columns of the subset file differ from M[:, sorted(chosen)]')
        else:
            Xr, a = gen.read_x_dense(dst)
            if not same_bits(Xr.astype(M.dtype), want) or list(a.var.index) != [f'g{c}' for c in sorted(chosen)]:
                spec.append('anndata reads a different matrix / var')
        corr += comp_eq(arrs, res[1]) if res[0] == 0 else [f'model says error {res[1]}']
    else:
        spec.append(f'raised {err[0]}: {err[1]}')
        desc['observed'] = err
        if res[0] != 1:
            corr.append('model succeeds')
    ctx.count(('subset', i), nontrivial=(M != 0).sum() >= 2 and nc >= 2)
    ctx.dist('op', 'subset_csc_h5ad_columns:' + ('ok' if err is None else 'raised'))
    report(ctx, 'subset_csc_h5ad_columns', 'subset', 'subset:' + (err[0] if err else 'wrong-matrix'),
           'corr:Sparse.subset_columns', spec, corr, desc)


def write_multi(path, nr, nc, locs, rng):
    """One h5ad file holding several matrices of the same shape: locs = {'X' | layer name: (M, encoding)}.
    When 'X' is not among them X is a float32 filler nobody reads (as gen.write_h5ad does)."""
    import anndata
    X = gen.encode_matrix(*locs['X']) if 'X' in locs else np.zeros((nr, nc), dtype=np.float32)
    layers = {k: gen.encode_matrix(*v) for k, v in locs.items() if k != 'X'}
    a = anndata.AnnData(X=X, obs=pd.DataFrame(index=pd.Index(names('c', nr))),
                        var=pd.DataFrame(index=pd.Index(names('g', nc))), layers=layers)
    a.write_h5ad(path)
    for k, (M, enc) in locs.items():
        chunks = rng.choice([None, 'contiguous', 2])
        if chunks is None:
            continue
        key = 'X' if k == 'X' else f'layers/{k}'
        c = None if chunks == 'contiguous' else chunks
        if enc == 'dense':
            gen.rechunk(path, key, None if c is None else (c, c))
        else:
            for sub in ('data', 'indices', 'indptr'):
                gen.rechunk(path, f'{key}/{sub}', None if c is None else (c,))


def op_amalgamate(ctx, d, i):
    """src_rows is a list of packets (file, layer, rows); a source file may hold several matrices (X and
    layers) and may be named by several packets: once, twice with the same layer, with different layers
    (X + a layer, two layers), adjacent or interleaved with packets of other files."""
    from cell_type_mapper.utils.anndata_utils import amalgamate_h5ad
    rng = ctx.rng
    nc = rng.randrange(1, 9)
    dtype = rng.choice(DTYPES)
    n_files = rng.randrange(1, 4)
    dst_sparse = rng.random() < 0.6
    scenario = rng.choice(['once', 'same-layer', 'two-layers', 'two-layers', 'free', 'free'])
    packets, sources, want, srcdesc = [], [], [], []
    csc_calls, csc_expect = [], []
    sub = d / f'am_{i}'
    sub.mkdir()
    files = []
    for s in range(n_files):
        nr = rng.randrange(1, 9)
        n_loc = rng.choice([1, 1, 2, 2, 3])
        if s == 0 and scenario == 'two-layers':
            n_loc = rng.choice([2, 2, 3])
        locs = {}
        for loc in rng.sample(['X', 'raw', 'norm'], n_loc):
            M = np.zeros((nr, nc), dtype=dtype)
            dens = rng.choice([0.2, 0.6, 1.0])
            for a in range(nr):
                for b in range(nc):
                    if rng.random() < dens:
                        M[a, b] = rand_value(rng, dtype)
            locs[loc] = (M, rng.choice(['csr', 'csc', 'dense']))
        p = sub / f'src_{s}.h5ad'
        with quiet():
            write_multi(p, nr, nc, locs, rng)
        files.append({'path': p, 'nr': nr, 'locs': locs})
    # which (file, location) each packet reads
    if scenario == 'once':
        picks = [(s, rng.choice(sorted(files[s]['locs']))) for s in range(n_files)]
    else:
        picks = [(s, rng.choice(sorted(files[s]['locs']))) for s in
                 [rng.randrange(n_files) for _ in range(rng.randrange(0 if scenario != 'free' else 1, 4))]]
        if scenario == 'same-layer':
            l0 = rng.choice(sorted(files[0]['locs']))
            picks += [(0, l0), (0, l0)]
        elif scenario == 'two-layers':
            picks += [(0, l_) for l_ in rng.sample(sorted(files[0]['locs']), 2)]
        rng.shuffle(picks)
    for s, loc in picks:
        M, enc = files[s]['locs'][loc]
        nr = files[s]['nr']
        rows = rng.sample(range(nr), rng.randrange(1, nr + 1))
        packets.append({'path': str(files[s]['path']), 'rows': rows, 'layer': loc})
        want.append(M[rows, :])
        if enc == 'dense':
            sources.append([1, code_dense(M), nr, rows])
        else:
            sources.append([0, comp_of(sp.csr_matrix(M)), nc, rows])
        if enc == 'csc':
            # the CSC source is first converted by csc_to_csr_on_disk (max_gb=10): model 510
            E, L, Lc = budgets(10, M.dtype, 'int32', 'int32')
            csc_calls.append((510, [comp_of(sp.csc_matrix(M)), rows, nr, nc, E, L, Lc]))
            csc_expect.append(code_dense(M[rows, :]))
        srcdesc.append(mdesc(M, file=s, encoding=enc, layer=None if loc == 'X' else loc, rows=rows))
    n_src = len(packets)
    by_file = {}
    for k, (s, loc) in enumerate(picks):
        by_file.setdefault(s, []).append((k, loc))
    reuse = [v for v in by_file.values() if len(v) >= 2]
    ctx.dist('amalgamate_sources',
             'every file once' if not reuse else
             'a file in several packets, ' + ('different layers' if any(len({l_ for _, l_ in v}) >= 2 for v in reuse)
                                              else 'same layer')
             + (', interleaved with another file' if any(v[-1][0] - v[0][0] >= len(v) for v in reuse) else ''))
    want = np.concatenate(want, axis=0)
    n_out = want.shape[0]
    obs_df = pd.DataFrame(index=names('o', n_out))
    var_df = pd.DataFrame(index=names('g', nc))
    dst = sub / 'dst.h5ad'
    tmp = sub / 'tmp'
    tmp.mkdir()
    compression = rng.random() < 0.5
    err = attempt(lambda: amalgamate_h5ad(packets, dst, obs_df, var_df, dst_sparse=dst_sparse,
                                          tmp_dir=str(tmp), compression=compression))
    take_traces()
    allres = ctx.model([(1305, [sources, n_out]) if dst_sparse else (1306, sources)] + csc_calls)
    res = allres[0]
    spec, corr = [], []
    # CSC sources: the model of the conversion + get_batch must agree with the CSR view used
    # above (a source without any stored value included: the former finding F2)
    csc_err = None
    for r510, exp in zip(allres[1:], csc_expect):
        if r510[0] == 1:
            csc_err = csc_err or r510[1]
        elif r510 != [0, exp]:
            corr.append('model of the CSC source (conversion + get_batch) differs from the selected rows')
    if csc_err is not None:
        res = [1, csc_err]
    desc = {'sources': srcdesc, 'scenario': scenario, 'dst_sparse': dst_sparse, 'compression': compression,
            'model': res}
    left = sorted(p.name for p in tmp.iterdir())
    if err is None:
        enc, arrs = h5ad_x(dst)
        if dst_sparse:
            if enc != 'csr_matrix' or arrs['shape'] != list(want.shape) or not canonical_ok(arrs):
                spec.append('not a canonical CSR matrix of the right shape')
            elif not same_bits(dense_of_x(enc, arrs, want.dtype), want):
                spec.append('stacked matrix differs from the concatenation of the selected rows')
            corr += comp_eq(arrs, res[1]) if res[0] == 0 else [f'model says error {res[1]}']
        else:
            if enc != 'array' or not same_bits(arrs['dense'], want):
                spec.append('stacked dense matrix differs from the concatenation of the selected rows')
            if res[0] != 0 or code_dense(arrs['dense']) != res[1]:
                corr.append('dense result differs from the model')
        if not spec:
            Xr, a = gen.read_x_dense(dst)
            if not same_bits(Xr.astype(want.dtype), want):
                spec.append('anndata reads a different matrix')
    else:
        spec.append(f'raised {err[0]}: {err[1]}')
        desc['observed'] = err
        if res[0] != 1 or ERR.get(err[0], 99) != res[1]:
            corr.append(f'model {res}')
    if left:
        spec.append(f'scratch left behind {left}')
    empty_piece = dst_sparse and any((M_ != 0).sum() == 0 for M_ in
                                     [np.array(s['M'])[s['rows'], :] for s in srcdesc])
    klass = 'amalgamate:' + (err[0] if err else 'wrong-matrix')
    if err and err[0] == 'ValueError' and empty_piece:
        klass = 'amalgamate-sparse-piece-without-stored-value'
    csc_zero = any(s_['encoding'] == 'csc' and not np.array(s_['M']).any() for s_ in srcdesc)
    if err and err[0] == 'ValueError' and csc_zero and 'chunk dimensions' in err[1]:
        klass = 'F2-amalgamate-csc-source-without-stored-value'
    ctx.count(('amalgamate', i), nontrivial=n_src >= 2 and (want != 0).sum() >= 2)
    ctx.dist('op', f'amalgamate_h5ad(sparse={dst_sparse}):' + ('ok' if err is None else 'raised'))
    report(ctx, 'amalgamate_h5ad', 'amalgamate', klass, 'corr:Sparse.amalgamate', spec, corr, desc)


def op_copy_layer(ctx, d, i):
    from cell_type_mapper.utils.anndata_utils import copy_layer_to_x
    rng = ctx.rng
    M, kind = nonzero_matrix(rng)
    enc = rng.choice(['csr', 'csc', 'dense'])
    layer = rng.choice([None, 'raw', 'raw'])
    src, dst = d / f'cl_src_{i}.h5ad', d / f'cl_dst_{i}.h5ad'
    chunks = rng.choice([None, 'contiguous', 1, 2, 5])
    with quiet():
        gen.write_h5ad(src, M, names('c', M.shape[0]), names('g', M.shape[1]), encoding=enc, layer=layer,
                       chunks=chunks, x_other=np.full(M.shape, 7, dtype=np.float32) if layer else None)
    key = 'X' if layer is None else f'layers/{layer}'
    with h5py.File(src, 'r') as f:
        if enc == 'dense':
            layout = None if f[key].chunks is None else [int(v) for v in f[key].chunks]
            mcase = (1308, [code_dense(M), M.shape[0], M.shape[1], layout or []])
        else:
            parts = []
            for nm in ('indptr', 'indices', 'data'):
                ds = f[f'{key}/{nm}']
                arr = ds[()]
                parts.append([code_array(arr) if nm == 'data' else [int(v) for v in arr],
                              [] if ds.chunks is None else [int(ds.chunks[0])]])
            mcase = (1307, parts)
            layout = [p[1] for p in parts]
    before = gen.digest(src)
    err = attempt(lambda: copy_layer_to_x(src, dst, layer or 'X'))
    res = ctx.model([mcase])[0]
    spec, corr = [], []
    desc = mdesc(M, encoding=enc, layer=layer, chunks=chunks, layout=layout, model=res)
    if err is None:
        e2, arrs = h5ad_x(dst)
        want_enc = {'dense': 'array', 'csr': 'csr_matrix', 'csc': 'csc_matrix'}[enc]
        if e2 != want_enc:
            spec.append(f'encoding {e2}')
        elif not same_bits(dense_of_x(e2, arrs, M.dtype), M):
            spec.append('X of the new file differs from the layer')
        else:
            Xr, a = gen.read_x_dense(dst)
            if not same_bits(Xr.astype(M.dtype), M) or list(a.obs.index) != names('c', M.shape[0]):
                spec.append('anndata reads a different matrix / obs')
        if res[0] != 0:
            corr.append(f'model says error {res[1]}')
        elif enc == 'dense':
            if code_dense(arrs['dense']) != res[1]:
                corr.append('dense copy differs from the model')
        else:
            corr += comp_eq(arrs, res[1])
    else:
        spec.append(f'raised {err[0]}: {err[1]}')
        desc['observed'] = err
        if res[0] != 1 or ERR.get(err[0], 99) != res[1]:
            corr.append(f'model {res}')
    if gen.digest(src) != before:
        spec.append('source file modified')
    klass = 'copy_layer:' + (err[0] if err else 'wrong-matrix')
    if err and err[0] == 'ValueError' and enc != 'dense' and (M != 0).sum() == 0:
        klass = 'copy-layer-sparse-without-stored-value'
    ctx.count(('copy_layer', i), nontrivial=(M != 0).sum() >= 2)
    ctx.dist('op', f'copy_layer_to_x({enc}):' + ('ok' if err is None else 'raised'))
    report(ctx, 'copy_layer_to_x', 'copy_layer', klass, 'corr:Sparse.copy_array/copy_dense', spec, corr, desc)


def op_copy_h5(ctx, d, i):
    from cell_type_mapper.utils.h5_utils import copy_h5_excluding_data
    rng = ctx.rng
    M, kind = nonzero_matrix(rng, kinds=('tiny', 'small', 'small', 'big', 'full'))
    v = np.arange(1, rng.randrange(2, 40), dtype=np.int64) * 3
    src, dst = d / f'h5_src_{i}.h5', d / f'h5_dst_{i}.h5'
    max_el = rng.choice([1, 2, 3, 5, 7, 16, 100, 100000])
    with h5py.File(src, 'w') as f:
        f.create_dataset('grp/mat', data=M, chunks=(max(1, M.shape[0] // 2), max(1, M.shape[1] // 2)))
        f.create_dataset('grp/vec', data=v, chunks=(max(1, len(v) // 3),))
        f.create_dataset('flat', data=v)
        f.create_dataset('drop/me', data=v, chunks=(1,))
        f.create_dataset('grp/dropped', data=v, chunks=(1,))
        f['grp'].attrs['a'] = 'b'
        f['grp/mat'].attrs['shape'] = np.array(M.shape)
    err = attempt(lambda: copy_h5_excluding_data(src, dst, excluded_groups=['drop'],
                                                 excluded_datasets=['grp/dropped'], max_elements=max_el))
    per_dim = int(np.ceil(np.power(max_el, 1.0 / 2)).astype(int))
    res = ctx.model([(1310, [code_dense(M), M.shape[0], M.shape[1], per_dim]),
                     (1311, [[int(x) for x in v], max_el])])
    spec, corr = [], []
    desc = mdesc(M, vec=v.tolist(), max_elements=max_el, model=res)
    if err is None:
        with h5py.File(dst, 'r') as f:
            keys = []
            f.visit(keys.append)
            if sorted(keys) != ['flat', 'grp', 'grp/mat', 'grp/vec']:
                spec.append(f'objects of the copy: {sorted(keys)}')
            else:
                if not same_bits(f['grp/mat'][()], M) or not same_bits(f['grp/vec'][()], v) \
                        or not same_bits(f['flat'][()], v):
                    spec.append('copied datasets differ from the source')
                if f['grp'].attrs.get('a') != 'b' or list(f['grp/mat'].attrs['shape']) != list(M.shape):
                    spec.append('attributes not copied')
                if res[0][0] != 0 or code_dense(f['grp/mat'][()]) != res[0][1]:
                    corr.append('2-d copy differs from the model')
                if res[1][0] != 0 or [int(x) for x in f['grp/vec'][()]] != res[1][1]:
                    corr.append('1-d copy differs from the model')
    else:
        spec.append(f'raised {err[0]}: {err[1]}')
        desc['observed'] = err
    ctx.count(('copy_h5', i), nontrivial=M.size >= 4)
    ctx.dist('op', 'copy_h5_excluding_data:' + ('ok' if err is None else 'raised'))
    report(ctx, 'copy_h5_excluding_data', 'copy_h5', 'copy_h5:' + (err[0] if err else 'wrong-copy'),
           'corr:Sparse.copy_h5', spec, corr, desc)


def slices_cases(ctx):
    """_get_slices_for_copy: every shape up to 6x6 (and 1-d up to 12) x max_elements."""
    from cell_type_mapper.utils.h5_utils import _get_slices_for_copy
    shapes = [(n,) for n in range(0, 13)] + [(a, b) for a in range(0, 7) for b in range(0, 7)] + [(2, 3, 4), (5, 1, 2)]
    cases, obs = [], []
    for shape in shapes:
        for max_el in (1, 2, 3, 4, 5, 8, 9, 27, 30, 100000):
            sl = _get_slices_for_copy(shape, max_el)
            per_dim = max_el if len(shape) == 1 else int(np.ceil(np.power(max_el, 1.0 / len(shape))).astype(int))
            obs.append((shape, max_el, [[[s.start, s.stop] for s in dim] for dim in sl]))
            cases.append((1309, [list(shape), per_dim]))
    for (shape, max_el, o), res in zip(obs, ctx.model(cases)):
        spec, corr = [], []
        # the hyperslabs tile the dataset exactly once
        cover = np.zeros(shape, dtype=int)
        for tile in itertools.product(*o):
            cover[tuple(slice(a, b) for a, b in tile)] += 1
        if not (cover == 1).all():
            spec.append('hyperslabs do not tile the dataset exactly once')
        if any(a >= b for dim in o for a, b in dim):
            spec.append('empty hyperslab')
        if res != [0, o]:
            corr.append(f'impl {o} model {res}')
        ctx.count(('slices', shape, max_el), nontrivial=len(shape) >= 1 and all(n > 1 for n in shape))
        report(ctx, '_get_slices_for_copy', 'slices', 'slices:not-a-partition', 'corr:Sparse.slices_for_copy',
               spec, corr, {'shape': list(shape), 'max_elements': max_el, 'impl': o, 'model': res})


def inner_cases(ctx):
    """_calculate_csr_indptr, precompute_indptr on their own."""
    from cell_type_mapper.utils.csc_to_csr import _calculate_csr_indptr
    from cell_type_mapper.utils.sparse_utils import precompute_indptr
    rng = ctx.rng
    d = ctx.scratch / 'inner'
    d.mkdir()
    recs, cases = [], []
    for i in range(ctx.n(60, 1500)):
        M, kind = gen_matrix(rng)
        ptr, idx, dat = csc_lists(M)
        nr = M.shape[0]
        sl = None
        if rng.random() < 0.5:
            lo = rng.randrange(0, nr + 1)
            sl = [lo, rng.randrange(lo, nr + 1)]
        gb = rand_gb(rng)
        idt = rng.choice(['int32', 'int64', 'uint16'])
        with h5py.File(d / 'i.h5', 'w') as f:
            f.create_dataset('indices', data=np.array(idx, dtype=idt))
        with h5py.File(d / 'i.h5', 'r') as f:
            with quiet():
                p, n = _calculate_csr_indptr(f['indices'], nr, gb, verbose=False,
                                             indices_slice=None if sl is None else tuple(sl))
        lc = max(100, (np.round(gb * 1024 ** 3).astype(int) // nbytes(idt)) // 2)
        recs.append((M, sl, gb, [int(v) for v in p], int(n), idx))
        cases.append((1313, [[ptr, idx, []], nr, sl or [], int(lc)]))
    for (M, sl, gb, p, n, idx), res in zip(recs, ctx.model(cases)):
        lo, hi = sl or (0, M.shape[0])
        cnt = [sum(1 for r in idx if r == lo + k) for k in range(hi - lo)]
        spec, corr = [], []
        if p != [0] + list(np.cumsum(cnt)) or n != sum(cnt):
            spec.append('pointer array is not the prefix sum of the per-slice counts')
        if res != [0, [p, n]]:
            corr.append(f'impl {(p, n)} model {res}')
        ctx.count(('indptr', M.shape, tuple(idx), tuple(sl or ())), nontrivial=len(idx) >= 2)
        report(ctx, '_calculate_csr_indptr', 'calc_indptr', 'calc_indptr:wrong-counts', 'corr:Transpose.calc_indptr',
               spec, corr, mdesc(M, slice=sl, max_gb=gb, impl=[p, n], model=res))
    recs, cases = [], []
    for i in range(ctx.n(60, 1500)):
        M, kind = gen_matrix(rng, kind=rng.choice(['tiny', 'small', 'big']))
        if M.shape[0] == 0:
            continue
        csr = sp.csr_matrix(M)
        order = list(range(M.shape[0]))
        rng.shuffle(order)
        p = [int(v) for v in precompute_indptr(csr.indptr, order)]
        recs.append((M, order, p))
        cases.append((1312, [[int(v) for v in csr.indptr], order]))
    for (M, order, p), res in zip(recs, ctx.model(cases)):
        want = [0] + list(np.cumsum([(M[r] != 0).sum() for r in order]))
        spec = [] if p == [int(v) for v in want] else ['not the pointer array of the re-ordered rows']
        corr = [] if res == [0, p] else [f'impl {p} model {res}']
        ctx.count(('precompute_indptr', M.shape, tuple(order)), nontrivial=len(order) >= 2)
        report(ctx, 'precompute_indptr', 'precompute_indptr', 'precompute_indptr:wrong', 'corr:Sparse.precompute_indptr',
               spec, corr, mdesc(M, order=order, impl=p, model=res))


# ---------------------------------------------------------------- entry points
def run(ctx):
    ctx.rule = ('transposition: every 0/1 pattern of every shape up to 3x3 (quick) / 4x4 (thorough), with and without '
                'values, every index sub-range (<=3 rows), serial and parallel; random larger matrices (empty rows/'
                'columns, one row/column, no stored value, full, >100 stored values, >255 columns, shuffled row order '
                'inside columns, explicit zeros) x index/pointer dtypes x HDF5 chunking x max_gb from the enforced '
                'minimum (all budgets = 100) upward x routes (transpose_sparse_matrix_on_disk, csc_to_csr_on_disk, '
                'transpose_sparse_matrix_on_disk_v2 with 1..4 workers); file operations pivot/shuffle/subset/'
                'amalgamate (1-3 source files holding 1-3 matrices each in X / layers, 1-5 packets that use every file once, one file twice with the same layer, one file with two different layers, or free picks, in shuffled order; CSR and dense destination)/copy_layer_to_x/copy_h5_excluding_data on generated h5ad files; _get_slices_for_copy on '
                'every shape up to 6x6. non-trivial = at least 2 stored entries in the slice, >=2 input and >=2 '
                'output major slices (transposition) / >=2 stored values (file operations)')
    ctx.assumptions += [
        'no (major, minor) pair is stored twice in an input (numpy argsort order of duplicates is unspecified); '
        'the order of minor indices inside an input major slice is arbitrary',
        'stored values are compared as exact bit patterns (the code only copies them); -0.0 and NaN are not generated',
        'budgets beyond the number of stored entries are clamped to nnz+1 before entering the unary model '
        '(same loop structure)',
        'shuffle_csr_h5ad_rows is driven with permutations of all rows, subset_csc_h5ad_columns with non-empty '
        'duplicate-free column lists, amalgamate_h5ad with non-empty duplicate-free row lists per packet; a source '
        'file may be named by several packets (same layer, X + a layer, two layers; adjacent or interleaved with '
        'other files) and all matrices read in one call have the same dtype '
        '(other lists are outside the property, see C05)',
        'a CSC source of amalgamate_h5ad enters the model as the CSR arrays of the same matrix '
        '(its transposition is checked by the transposition cases)',
        'n_processors >= 1; HDF5 compression (gzip) is not modelled (content only)',
        'when a parallel worker dies its siblings keep running; the parent then raises RuntimeError, or OSError '
        '"Directory not empty" when its clean-up loses the race against them: both are read as "worker failed"',
    ]
    install_tracer(ctx.scratch / 'traces')
    try:
        exhaustive(ctx)
        cases = [random_transpose_case(ctx.rng) for _ in range(ctx.n(300, 5000))]
        for c in cases:
            ctx.dist('matrix_kind', c['gen_kind'])
            ctx.dist('stored_values', '>100' if len(c['idx']) > 100 else ('0' if not c['idx'] else '1-100'))
        for k in range(0, len(cases), 500):
            run_transpose_batch(ctx, cases[k:k + 500], ctx.scratch / 'rand',
                                lambda c: ('rand', c['M'].shape, tuple(c['idx']), tuple(c['ptr']), c['route'],
                                           c['use_data'], tuple(c['slice'] or ()), c['n_proc'], c['budgets']))
        d = ctx.scratch / 'ops'
        d.mkdir()
        for i in range(ctx.n(30, 500)):
            for op in (op_pivot, op_shuffle, op_subset, op_amalgamate, op_copy_layer, op_copy_h5):
                op(ctx, d, i)
            op_amalgamate(ctx, d, i + 1000000)      # packets x files x layers: a second draw per round
            shutil.rmtree(d / f'am_{i}', ignore_errors=True)
            shutil.rmtree(d / f'am_{i + 1000000}', ignore_errors=True)
            for p in d.iterdir():
                if p.is_file():
                    p.unlink()
        slices_cases(ctx)
        inner_cases(ctx)
        from harness.props import c13_guards; c13_guards.run(ctx)
        ctx.exhaustive = True
    finally:
        uninstall_tracer()


def replay(ctx, rec):
    """Re-run one recorded transposition case through implementation, model and
    predicate; other kinds are printed."""
    print(json.dumps({k: v for k, v in rec.items() if k not in ('observed', 'model')}, indent=1)[:3000])
    if rec.get('kind') != 'transpose':
        print('recorded model result:', rec.get('model'))
        print('recorded observation:', json.dumps(rec.get('observed'), default=str)[:2000])
        return 0
    nr, nc = rec['shape']
    dat = np.array(rec['dat'], dtype=rec['dat_dtype'])
    M = np.zeros((nr, nc), dtype=dat.dtype)
    S = np.zeros((nr, nc), dtype=bool)
    for j in range(nc):
        for k in range(rec['ptr'][j], rec['ptr'][j + 1]):
            M[rec['idx'][k], j] = dat[k]
            S[rec['idx'][k], j] = True
    case = make_case(M, S=S, ptr=rec['ptr'], idx=rec['idx'], dat=dat,
                     **{k: rec[k] for k in ('use_data', 'slice', 'route', 'max_gb', 'n_proc', 'indices_dtype',
                                            'indptr_dtype', 'chunks')})
    install_tracer(ctx.scratch / 'traces')
    work = ctx.scratch / 'replay'
    work.mkdir()
    obs = run_transpose_impl(case, work)
    traces = take_traces()
    uninstall_tracer()
    tgb = traces[0]['max_gb'] if traces and len({t['max_gb'] for t in traces}) == 1 else None
    res = ctx.model([model_case_transpose(case, *case_budgets(case, tgb))])[0]
    print('implementation:', {k: (v.tolist() if hasattr(v, 'tolist') else v) for k, v in obs.items()})
    print('model         :', res)
    spec = spec_transpose(case, obs)
    corr = corr_transpose(case, obs, res, traces if case['route'] != 'v2' else None)
    print('property      :', spec or 'holds')
    print('correspondence:', corr or 'holds')
    import shutil
    shutil.rmtree(ctx.scratch, ignore_errors=True)
    return 1 if (spec or corr) else 0
