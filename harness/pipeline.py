"""Generated mapping scenarios and a driver for the real
cell_type_mapper.cli.from_specified_markers.run_mapping (the function the CLI calls)."""
import contextlib
import io
import json
import os
import pathlib
import shutil
import tempfile
import traceback

import h5py
import numpy as np

from harness import gen, trees, instrument


def gname(i):
    return f'g{i:03d}'


class Scenario:
    """tree: GenTree; ref_genes / query_genes: gene indices in file order;
    means: {leaf int: {gene idx: value}}; markers: {key: [gene idx]};
    query: ndarray cells x len(query_genes); cell_ids: list of str."""
    pass


def gen_scenario(rng, max_levels=4, max_leaves=8, n_cells=None, tree=None, dyadic=True):
    sc = Scenario()
    sc.tree = tree or trees.random_tree(rng, max_levels=max_levels, max_leaves=max_leaves)
    n_ref = rng.randrange(6, 15)
    ref = list(range(n_ref))
    rng.shuffle(ref)
    sc.ref_genes = ref
    # the query has most reference genes (other order) and some extra ones
    q = [g for g in ref if rng.random() < 0.85]
    if len(q) < 4:
        q = ref[:4]
    q += list(range(100, 100 + rng.randrange(0, 4)))
    rng.shuffle(q)
    sc.query_genes = q
    leaves = [n for n, _ in sc.tree.model[-1]]
    sc.means = {lf: {g: rng.randrange(0, 97) / 8.0 for g in ref} for lf in leaves}
    usable = [g for g in ref if g in q]
    markers = {}
    parents = [(None, [n for n, _ in sc.tree.model[0]])]
    for li, lv in enumerate(sc.tree.model[:-1]):
        for node, kids in lv:
            parents.append(((li, node), kids))
    for parent, kids in parents:
        key = 'None' if parent is None else f'{sc.tree.levels[parent[0]]}/{sc.tree.name(parent[1])}'
        if parent is None:
            k = rng.randrange(2, min(8, len(usable)) + 1)
            markers[key] = rng.sample(usable, k)
        elif len(kids) >= 2:
            r = rng.random()
            if r < 0.1:
                continue                       # missing parent: falls back
            if r < 0.2:
                markers[key] = []              # empty list: falls back
            else:
                k = rng.randrange(1, min(7, len(ref)) + 1)
                lst = rng.sample(ref, k)            # may contain genes absent from the query
                if not any(g in usable for g in lst):
                    # a non-empty list without any query gene is rejected by the marker cache
                    # (C08 territory, finding F7 for parents that need no markers): keep one usable gene
                    lst[0] = rng.choice(usable)
                markers[key] = lst
        else:
            # single-child parent: usually nothing; sometimes genes of the query, sometimes (since the repair of
            # F7, /repo 05db7b2) reference genes none of which is in the query: such an entry needs no markers
            r = rng.random()
            if r < 0.3:
                markers[key] = rng.sample(usable, min(2, len(usable)))
            elif r < 0.4 and parent is not None and parent[0] == len(sc.tree.model) - 2:
                # (only where the single child is a leaf: dropping the child's level would otherwise turn this parent
                # into one with several children, and a needed entry without any query gene is a legitimate rejection
                # when min_markers = 0 -- C08's c08_no_overlap_only_for_needed)
                absent = [g for g in ref if g not in usable]
                if absent:
                    markers[key] = rng.sample(absent, min(2, len(absent)))
    sc.markers = markers
    n_cells = n_cells or rng.randrange(1, 10)
    sc.cell_ids = [f'c{x:03d}' for x in rng.sample(range(200), n_cells)]
    sc.query = np.array([[rng.randrange(0, 97) / 8.0 for _ in q] for _ in range(n_cells)], dtype=np.float64)
    # flat cells: the same non-zero (non-dyadic) value in every gene, hence constant over every drawn subset:
    # correlation 0 with every leaf by the constant-row convention, never NaN
    for i in range(n_cells):
        if rng.random() < 0.12:
            sc.query[i, :] = rng.choice([0.7, 3.3, 0.1, 5.3, 2.9, 1.7, 0.3, 7.1, 4.6])
    sc.normalization = 'log2CPM'
    return sc


def write_stats(path, sc, tree_data=None, n_cells=1):
    """A reference-statistics file in the documented layout, written directly so that
    mean = sum / n_cells is exact."""
    gt = sc.tree
    leaves = [n for n, _ in gt.model[-1]]
    order = list(leaves)
    rows = {gt.name(lf): i for i, lf in enumerate(order)}
    ng = len(sc.ref_genes)
    summ = np.zeros((len(order), ng), dtype=float)
    for i, lf in enumerate(order):
        for j, g in enumerate(sc.ref_genes):
            summ[i, j] = sc.means[lf][g] * n_cells
    from cell_type_mapper.taxonomy.taxonomy_tree import TaxonomyTree
    tt = TaxonomyTree(data=tree_data or gt.data)
    with h5py.File(path, 'w') as f:
        f.create_dataset('n_cells', data=np.full(len(order), n_cells, dtype=int))
        f.create_dataset('sum', data=summ)
        f.create_dataset('sumsq', data=summ ** 2)
        for k in ('gt0', 'gt1', 'ge1'):
            f.create_dataset(k, data=np.zeros((len(order), ng), dtype=int))
        f.create_dataset('cluster_to_row', data=json.dumps(rows).encode('utf-8'))
        f.create_dataset('col_names', data=json.dumps([gname(g) for g in sc.ref_genes]).encode('utf-8'))
        f.create_dataset('taxonomy_tree', data=tt.to_str().encode('utf-8'))
        f.create_dataset('metadata', data=json.dumps({'verif': True}).encode('utf-8'))
    return path


def write_markers(path, sc, markers=None):
    m = markers if markers is not None else sc.markers
    out = {k: [gname(g) for g in v] for k, v in m.items()}
    with open(path, 'w') as f:
        json.dump(out, f)
    return path


def write_query(path, sc, encoding='dense', query=None, cell_ids=None, genes=None, chunks=None):
    q = sc.query if query is None else query
    gen.write_h5ad(path, np.asarray(q), cell_ids or sc.cell_ids, [gname(g) for g in (genes or sc.query_genes)],
                   encoding=encoding, chunks=chunks)
    return path


def config_for(d, query_path, stats_path, marker_path, *, flatten=False, drop_level=None, chunk_size=4,
               n_processors=2, bootstrap_factor=0.5, bootstrap_iteration=5, rng_seed=11, n_runners_up=2,
               normalization='log2CPM', min_markers=2, cloud_safe=False, tmp_dir='tmp', csv=True, hdf5=True,
               obsm_key=None, max_gb=1, bootstrap_factor_lookup=None):
    d = pathlib.Path(d)
    (d / 'tmp').mkdir(exist_ok=True)
    (d / 'out').mkdir(exist_ok=True)
    return {
        'query_path': str(query_path),
        'extended_result_path': str(d / 'out' / 'result.json'),
        'csv_result_path': str(d / 'out' / 'result.csv') if csv else None,
        'hdf5_result_path': str(d / 'out' / 'result.h5') if hdf5 else None,
        'extended_result_dir': None,
        'tmp_dir': str(d / 'tmp') if tmp_dir else None,
        'cloud_safe': cloud_safe,
        'log_path': str(d / 'out' / 'log.txt'),
        'summary_metadata_path': None,
        'obsm_key': obsm_key, 'obsm_clobber': False,
        'max_gb': max_gb, 'flatten': flatten, 'drop_level': drop_level, 'map_to_ensembl': False,
        'precomputed_stats': {'path': str(stats_path)},
        'query_markers': {'serialized_lookup': str(marker_path)},
        'type_assignment': {'n_processors': n_processors, 'chunk_size': chunk_size,
                            'bootstrap_factor': bootstrap_factor, 'bootstrap_factor_lookup': bootstrap_factor_lookup,
                            'bootstrap_iteration': bootstrap_iteration, 'rng_seed': rng_seed,
                            'n_runners_up': n_runners_up, 'normalization': normalization,
                            'min_markers': min_markers},
    }


def run_mapping(config, trace_dir=None):
    """Call the real run_mapping. Returns dict(ok, error, output(json), trace)."""
    from cell_type_mapper.cli.from_specified_markers import run_mapping as real
    if trace_dir is not None:
        pathlib.Path(trace_dir).mkdir(parents=True, exist_ok=True)
        instrument.install(trace_dir)
    res = {'ok': True, 'error': None}
    buf = io.StringIO()
    import gc
    with contextlib.redirect_stdout(buf), contextlib.redirect_stderr(buf):
        try:
            real(config, output_path=config['extended_result_path'], log_path=config['log_path'],
                 hdf5_output_path=config['hdf5_result_path'])
        except Exception as e:
            res['ok'] = False
            res['error'] = f'{type(e).__name__}: {e}'
            res['traceback'] = traceback.format_exc()
        finally:
            if trace_dir is not None:
                instrument.uninstall()
        # destructors (FileTracker.__del__) print; let them run while output is captured
        gc.collect()
    res['stdout'] = buf.getvalue()[-2000:]
    p = pathlib.Path(config['extended_result_path'])
    res['output'] = json.load(open(p)) if p.exists() else None
    res['trace'] = instrument.read_trace(trace_dir) if trace_dir is not None else None
    return res
