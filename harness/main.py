import argparse
import importlib
import json
import os
import sys
import traceback

from harness import core


def main():
    ap = argparse.ArgumentParser()
    ap.add_argument('pid')
    ap.add_argument('--tier', default=os.environ.get('VERIF_TIER', 'quick'))
    ap.add_argument('--replay', default=None)
    args = ap.parse_args()
    tier = args.tier if args.tier in ('quick', 'thorough') else 'quick'
    seed = int(os.environ.get('VERIF_SEED', '0') or 0)
    pid = args.pid.upper()
    ok, msg = core.ensure_built(pid)
    if not ok:
        p = core.VERIF / 'replays'
        p.mkdir(exist_ok=True)
        f = p / f'{pid}-build.json'
        f.write_text(json.dumps({'property': pid, 'class': 'build', 'detail': msg}, indent=1))
        print(f'VIOLATION property={pid} replay={f} no-failing-input-found')
        sys.exit(1)
    mod = importlib.import_module(f'harness.props.{pid.lower()}')
    ctx = core.Check(pid, tier, seed)
    if args.replay:
        rc = mod.replay(ctx, json.load(open(args.replay)))
        sys.exit(rc)
    # overall watchdog: a check that does not finish (a stage of the implementation spinning for ever, say)
    # must end with a verdict, not be stopped from outside
    import signal

    class CheckTimeout(BaseException):
        pass

    def on_alarm(signum, frame):
        raise CheckTimeout()
    limit = int(os.environ.get('VERIF_CHECK_LIMIT_S', '1500' if tier == 'quick' else '14000'))
    signal.signal(signal.SIGALRM, on_alarm)
    signal.alarm(limit)
    try:
        mod.run(ctx)
    except CheckTimeout:
        ctx.violation(f'the check did not finish within {limit} s: some call into the implementation does not return',
                      {'class': 'check-timeout', 'traceback': ''.join(traceback.format_stack()[-12:])}, no_input=True)
    except Exception:
        tb = traceback.format_exc()
        ctx.violation('the check itself crashed (harness or implementation raised unexpectedly)',
                      {'class': 'harness-crash', 'traceback': tb}, no_input=True)
        print(tb, file=sys.stderr)
    signal.alarm(0)
    sys.exit(ctx.finish())


if __name__ == '__main__':
    main()
