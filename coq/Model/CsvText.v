(* Model of the TEXT of the CSV output (utils/output_utils.py: blob_to_csv ends with
   `csv_df.to_csv(dst, index=False, float_format='%.4f')`) and of the reader the documentation
   tells users to apply to it (`pandas.read_csv(path, comment='#')`, docs/output.md and the
   example notebooks).

   DQUOTE below stands for the double-quote character (code 34).  Strings are lists of code points (Z).  A table is a list of rows, a row a list of fields;
   the header line is simply the first row (pandas writes it through the same csv.writer).

   Writer = what pandas hands to Python's csv.writer (Python 3.12): QUOTE_MINIMAL, delimiter ',',
   quotechar DQUOTE, doublequote, no escapechar, lineterminator '\n' (os.linesep).  A field is quoted
   iff it contains the delimiter, the quote character or a character of the line terminator, i.e.
   ',', DQUOTE or '\n' -- NOT '\r' (csv.writer of Python < 3.13 only looks at the characters of the
   lineterminator; observed), not a leading / trailing blank, not '#'.  Inside quotes every DQUOTE is
   doubled.  A row whose only field is empty is written as two DQUOTEs.

   Reader = the tokenizer of pandas' C parser (pandas/_libs/src/parser/tokenizer.c, tokenize_bytes
   with delimiter ',', quotechar DQUOTE, doublequote, skip_blank_lines, no skipinitialspace, optional
   comment character '#'), state by state.  It returns the rows of fields (what read_csv with
   dtype=str, keep_default_na=False, header=None shows, before padding rows to a common width).
   One known deviation, excluded from the correspondence check: when a line starts with blanks /
   tabs and is not blank, the C tokenizer backtracks to the previous '\n' -- which re-reads lines
   that ended in a bare '\r'; here the characters read so far are simply kept (identical unless a
   bare '\r' line end precedes such a line).

   '%.4f' % x of a finite double x = m * 2^e given exactly: the correctly rounded (ties to even on
   the exact value) number of 1/10000 units, fmt4k = Output.fmt4 of the exact rational, and its
   rendering as digits.  Definitions only. *)
From Coq Require Import ZArith List Bool.
From CTM Require Import Base.Sx Model.Output.
Import ListNotations.
Open Scope Z_scope.

Definition str := list Z.
Definition c_comma := 44.
Definition c_quote := 34.
Definition c_lf := 10.
Definition c_cr := 13.
Definition c_hash := 35.
Definition c_space := 32.
Definition c_tab := 9.

(* ---------------- the writer (csv.writer, QUOTE_MINIMAL) ---------------- *)
Definition needs_quote_char (c : Z) : bool := (c =? c_comma) || (c =? c_quote) || (c =? c_lf).
Definition needs_quote (f : str) : bool := existsb needs_quote_char f.
Fixpoint double_quotes (f : str) : str :=
  match f with
  | [] => []
  | c :: t => if c =? c_quote then c_quote :: c_quote :: double_quotes t else c :: double_quotes t
  end.
Definition csv_field (f : str) : str :=
  if needs_quote f then c_quote :: double_quotes f ++ [c_quote] else f.
Fixpoint join_fields (fs : list str) : str :=
  match fs with
  | [] => []
  | f :: t => match t with [] => csv_field f | _ :: _ => csv_field f ++ c_comma :: join_fields t end
  end.
(* writerow: a record that would be empty (one empty field) is written as two DQUOTEs *)
Definition csv_row (r : list str) : str :=
  match r with
  | [[]] => [c_quote; c_quote; c_lf]
  | _ => join_fields r ++ [c_lf]
  end.
Definition csv_text (rows : list (list str)) : str := concat (map csv_row rows).

(* dst.write(f'# ...\n') lines in front of the table: '#', the body, '\n' *)
Definition comment_line (body : str) : str := c_hash :: body ++ [c_lf].
Definition comment_text (bodies : list str) : str := concat (map comment_line bodies).
Definition csv_file (bodies : list str) (rows : list (list str)) : str :=
  comment_text bodies ++ csv_text rows.

(* ---------------- the reader (pandas C tokenizer) ---------------- *)
Inductive cls := KComma | KQuote | KLf | KCr | KCom | KWs | KOther.
(* cm = the reader was given comment='#' *)
Definition classify (cm : bool) (c : Z) : cls :=
  if c =? c_comma then KComma
  else if c =? c_quote then KQuote
  else if c =? c_lf then KLf
  else if c =? c_cr then KCr
  else if cm && (c =? c_hash) then KCom
  else if (c =? c_space) || (c =? c_tab) then KWs
  else KOther.

Inductive pstate :=
  | SR      (* START_RECORD *)
  | SF      (* START_FIELD *)
  | IF      (* IN_FIELD *)
  | IQ      (* IN_QUOTED_FIELD *)
  | QQ      (* QUOTE_IN_QUOTED_FIELD *)
  | CRNL    (* EAT_CRNL: a '\r' ended a record, a following '\n' belongs to it *)
  | CRNOP   (* EAT_CRNL_NOP: a '\r' ended a skipped line *)
  | WS      (* WHITESPACE_LINE: only blanks / tabs so far on this line *)
  | CML     (* EAT_LINE_COMMENT: the line started with the comment character *)
  | CMF.    (* EAT_COMMENT: comment character after some fields *)

(* field being read (reversed), fields of the record so far (reversed), finished records (reversed) *)
Record acc := mkAcc { a_fld : str; a_row : list str; a_done : list (list str) }.
Definition acc0 : acc := mkAcc [] [] [].
Definition push (c : Z) (a : acc) : acc := mkAcc (c :: a_fld a) (a_row a) (a_done a).
Definition end_field (a : acc) : acc := mkAcc [] (rev (a_fld a) :: a_row a) (a_done a).
Definition end_line (a : acc) : acc := mkAcc [] [] (rev (a_row a) :: a_done a).
Definition drop_fld (a : acc) : acc := mkAcc [] (a_row a) (a_done a).

Definition step_if (a : acc) (k : cls) (c : Z) : pstate * acc :=
  match k with
  | KLf => (SR, end_line (end_field a))
  | KCr => (CRNL, end_field a)
  | KComma => (SF, end_field a)
  | KCom => (CMF, end_field a)
  | _ => (IF, push c a)
  end.
Definition step_sf (a : acc) (k : cls) (c : Z) : pstate * acc :=
  match k with
  | KLf => (SR, end_line (end_field a))
  | KCr => (CRNL, end_field a)
  | KQuote => (IQ, a)
  | KComma => (SF, end_field a)
  | KCom => (CMF, end_field a)
  | _ => (IF, push c a)
  end.
(* blank lines are skipped (skip_blank_lines=True) *)
Definition step_sr (a : acc) (k : cls) (c : Z) : pstate * acc :=
  match k with
  | KLf => (SR, a)
  | KCr => (CRNOP, a)
  | KCom => (CML, a)
  | KWs => (WS, push c a)
  | _ => step_sf a k c
  end.
Definition step (cm : bool) (st : pstate) (a : acc) (c : Z) : pstate * acc :=
  let k := classify cm c in
  match st with
  | SR => step_sr a k c
  | SF => step_sf a k c
  | IF => step_if a k c
  | IQ => match k with KQuote => (QQ, a) | _ => (IQ, push c a) end
  | QQ => match k with
          | KQuote => (IQ, push c a)
          | KComma => (SF, end_field a)
          | KLf => (SR, end_line (end_field a))
          | KCr => (CRNL, end_field a)
          | _ => (IF, push c a)          (* not strict: text after the closing quote is kept *)
          end
  | CRNL => match k with KLf => (SR, end_line a) | _ => step_sr (end_line a) k c end
  | CRNOP => match k with KLf | KComma => (SR, a) | _ => step_sr a k c end
  | WS => match k with
          | KLf => (SR, drop_fld a)
          | KCr => (CRNOP, drop_fld a)
          | KWs => (WS, push c a)
          | _ => step_if a k c
          end
  | CML => match k with KLf => (SR, a) | KCr => (CRNOP, a) | _ => (CML, a) end
  | CMF => match k with KLf => (SR, end_line a) | KCr => (CRNL, a) | _ => (CMF, a) end
  end.
Fixpoint run (cm : bool) (st : pstate) (a : acc) (text : str) : pstate * acc :=
  match text with
  | [] => (st, a)
  | c :: t => let sa := step cm st a c in run cm (fst sa) (snd sa) t
  end.
(* parser_handle_eof: None = EOF-inside-string *)
Definition finish (st : pstate) (a : acc) : option (list (list str)) :=
  match st with
  | SR | WS | CRNOP | CML => Some (rev (a_done a))
  | IQ => None
  | IF | SF | QQ => Some (rev (a_done (end_line (end_field a))))
  | CRNL | CMF => Some (rev (a_done (end_line a)))
  end.
Definition csv_parse (cm : bool) (text : str) : option (list (list str)) :=
  let sa := run cm SR acc0 text in finish (fst sa) (snd sa).

(* ---------------- which tables survive the round trip ---------------- *)
Definition is_blank (c : Z) : bool := (c =? c_space) || (c =? c_tab).
(* an unquoted field must not contain '\r' (read as a line end) nor, for a reader with comment='#', '#' *)
Definition field_ok (cm : bool) (f : str) : bool :=
  needs_quote f || forallb (fun c => negb (c =? c_cr) && negb (cm && (c =? c_hash))) f.
(* a one-column row that consists of blanks / tabs only is a blank line to the reader *)
Definition row_ok (cm : bool) (r : list str) : bool :=
  forallb (field_ok cm) r &&
  match r with
  | [] => false
  | [f] => needs_quote f || match f with [] => true | _ :: _ => existsb (fun c => negb (is_blank c)) f end
  | _ :: _ :: _ => true
  end.
Definition well_shaped (cm : bool) (rows : list (list str)) : bool := forallb (row_ok cm) rows.
Definition comment_ok (body : str) : bool := forallb (fun c => negb (c =? c_lf) && negb (c =? c_cr)) body.

(* ---------------- '%.4f' ---------------- *)
(* the exact value m * 2^e as a fraction *)
Definition dyadic (m e : Z) : rat := if 0 <=? e then (m * 2 ^ e, 1) else (m, 2 ^ (- e)).
(* round(x * 10^4), ties to even, of x = m * 2^e *)
Definition fmt4k (m e : Z) : Z := fmt4 (dyadic m e).

(* decimal digits of k >= 0 without leading zeros ('0' for 0) *)
Fixpoint dig (fuel : nat) (k : Z) (l : str) : str :=
  match fuel with
  | O => l
  | S f => if k <? 10 then (48 + k) :: l else dig f (k / 10) ((48 + k mod 10) :: l)
  end.
Definition digits (k : Z) : str := dig (S (Z.to_nat (Z.log2 k))) k [].
(* exactly n digits, zero padded *)
Fixpoint digf (n : nat) (k : Z) (l : str) : str :=
  match n with
  | O => l
  | S n' => digf n' (k / 10) ((48 + k mod 10) :: l)
  end.
(* the text of k/10^4 with four decimals, k >= 0 *)
Definition fixed4 (k : Z) : str := digits (k / 10000) ++ [46] ++ digf 4 (k mod 10000) [].
(* '%.4f' % x for x = (-1)^neg * m * 2^e, m >= 0 *)
Definition fmt4_text (neg : bool) (m e : Z) : str :=
  (if neg then [45] else []) ++ fixed4 (fmt4k m e).

(* reading such a text back: digits '.' exactly four digits -> number of 1/10000 units *)
Fixpoint parse_digits (s : str) (a : Z) : option Z :=
  match s with
  | [] => Some a
  | c :: t => if (48 <=? c) && (c <=? 57) then parse_digits t (a * 10 + (c - 48)) else None
  end.
Fixpoint split_dot (s : str) : option (str * str) :=
  match s with
  | [] => None
  | c :: t => if c =? 46 then Some ([], t)
              else match split_dot t with Some (a, b) => Some (c :: a, b) | None => None end
  end.
Definition parse_fixed4 (s : str) : option Z :=
  match split_dot s with
  | None => None
  | Some (ip, fp) =>
      match ip with
      | [] => None
      | _ :: _ =>
          if Nat.eqb (length fp) 4 then
            match parse_digits ip 0, parse_digits fp 0 with
            | Some i, Some f => Some (i * 10000 + f)
            | _, _ => None
            end
          else None
      end
  end.

(* ---------------- wire ---------------- *)
Definition of_rows (rows : list (list str)) : sx := of_list (of_list of_LZ) rows.
Definition of_parse (r : option (list (list str))) : sx := of_option of_rows r.

(* tag 1550: (comment-bodies rows) -> the text of the file *)
Definition run_csv_file (x : sx) : sx :=
  match x with
  | L [b; r] => match sx_LLZ b, sx_LLLZ r with
                | Some b', Some r' => sx_ok (of_LZ (csv_file b' r'))
                | _, _ => sx_bad end
  | _ => sx_bad
  end.
(* tag 1551: (comment? text) -> rows, or () for EOF-inside-string *)
Definition run_csv_parse (x : sx) : sx :=
  match x with
  | L [c; t] => match sx_bool c, sx_LZ t with
                | Some c', Some t' => sx_ok (of_parse (csv_parse c' t'))
                | _, _ => sx_bad end
  | _ => sx_bad
  end.
(* tag 1552: (neg m e) -> (k text), m >= 0 *)
Definition run_fmt4 (x : sx) : sx :=
  match x with
  | L [n; m; e] => match sx_bool n, sx_Z m, sx_Z e with
                   | Some n', Some m', Some e' =>
                       if m' <? 0 then sx_bad
                       else sx_ok (L [I (fmt4k m' e'); of_LZ (fmt4_text n' m' e')])
                   | _, _, _ => sx_bad end
  | _ => sx_bad
  end.
(* tag 1553: (comment-bodies rows) -> (all comment bodies ok, well_shaped without / with comment='#',
   what the reader makes of the written file without / with comment='#') *)
Definition run_csv_roundtrip (x : sx) : sx :=
  match x with
  | L [b; r] => match sx_LLZ b, sx_LLLZ r with
                | Some b', Some r' =>
                    sx_ok (L [of_bool (forallb comment_ok b'); of_bool (well_shaped false r');
                              of_bool (well_shaped true r');
                              of_parse (csv_parse false (csv_file b' r'));
                              of_parse (csv_parse true (csv_file b' r'))])
                | _, _ => sx_bad end
  | _ => sx_bad
  end.
(* tag 1554: text of four decimals -> (k) or () *)
Definition run_parse_fixed4 (x : sx) : sx :=
  match sx_LZ x with
  | Some s => sx_ok (of_option I (parse_fixed4 s))
  | None => sx_bad
  end.
