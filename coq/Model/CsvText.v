(* Model of the TEXT of the CSV output (utils/output_utils.py: blob_to_csv ends with
   `csv_df.to_csv(dst, index=False, float_format='%.4f')`) and of the TOKENIZER of the reader the
   example notebooks apply to it (examples/explore_mapping_results.ipynb and
   examples/full_mapping_pipeline.ipynb: `pd.read_csv(path, comment='#')`; docs/output.md describes the
   file and names no reader).  What is modelled is the splitting of the text into rows of fields, i.e.
   what read_csv(path, comment='#', dtype=str, keep_default_na=False) returns.  With pandas' DEFAULTS
   the fields are afterwards type-inferred column by column ('NA' / 'None' / 'nan' / '' -> NaN,
   '007' -> 7, '1e5' -> 100000.0, 'True' -> bool): that inference is a choice of the reader's caller,
   not a property of the file, and is not modelled (harness: observed, not judged).

   DQUOTE below stands for the double-quote character (code 34).  Strings are lists of code points (Z).  A table is a list of rows, a row a list of fields;
   the header line is simply the first row (pandas writes it through the same csv.writer).

   Writer = what pandas hands to Python's csv.writer (Python 3.12): QUOTE_MINIMAL, delimiter ',',
   quotechar DQUOTE, doublequote, no escapechar, lineterminator '\n' (os.linesep).  A field is quoted
   iff it contains the delimiter, the quote character or a character of the line terminator, i.e.
   ',', DQUOTE or '\n' -- NOT '\r' (csv.writer of Python < 3.13 only looks at the characters of the
   lineterminator; observed), not a leading / trailing blank, not '#'.  Inside quotes every DQUOTE is
   doubled.  A row whose only field is empty is written as two DQUOTEs.

   Reader = the tokenizer of pandas' C parser (pandas/_libs/src/parser/tokenizer.c, tokenize_bytes
   with delimiter ',', quotechar DQUOTE, doublequote, skip_blank_lines, no skipinitialspace, optional
   comment character '#'), state by state.  It returns the rows of fields (what read_csv with
   dtype=str, keep_default_na=False, header=None shows, before padding rows to a common width).
   Known deviations, both in the WHITESPACE_LINE state (a line that starts with blanks / tabs and is
   not blank): the C tokenizer backtracks to the previous '\n' INSIDE ITS CURRENT 262144-BYTE CHUNK and
   re-reads from there; here the characters read so far are simply kept.  (i) the backtracking re-reads
   lines that ended in a bare '\r' (excluded from the correspondence check); (ii) when the leading
   blanks straddle a chunk boundary the blanks before the boundary are LOST by pandas (observed: row
   '   cell 009354,...' at offset 262142 reads as ' cell 009354'; finding F32).  well_shaped therefore
   excludes rows whose first field starts with an unquoted blank / tab: on all other written text the
   WHITESPACE_LINE state is never entered and the model is the tokenizer wherever the chunk boundaries
   fall (every other state carries over a boundary unchanged).

   '%.4f' % x of a finite double x = m * 2^e given exactly: the correctly rounded (ties to even on
   the exact value) number of 1/10000 units, fmt4k = Output.fmt4 of the exact rational, and its
   rendering as digits.  Definitions only. *)
From Coq Require Import ZArith List Bool.
From Coq Require String Ascii.
From CTM Require Import Base.Sx Base.SortX Model.Output.
Import ListNotations.
Open Scope Z_scope.

Definition str := list Z.

(* the literal pieces of text the writer uses, as code points (computed once from Coq string literals) *)
Module Lit.
  Import String Ascii.
  Fixpoint zs (s : string) : list Z :=
    match s with EmptyString => [] | String a t => Z.of_N (N_of_ascii a) :: zs t end.
  Definition cell_id := Eval compute in zs "cell_id".
  Definition label := Eval compute in zs "_label".
  Definition name := Eval compute in zs "_name".
  Definition alias := Eval compute in zs "_alias".
  Definition bootstrapping_probability := Eval compute in zs "bootstrapping_probability".
  Definition avg_correlation := Eval compute in zs "avg_correlation".
  Definition correlation_coefficient := Eval compute in zs "correlation_coefficient".
  Definition aggregate_probability := Eval compute in zs "aggregate_probability".
  Definition directly_assigned := Eval compute in zs "directly_assigned".
  Definition runner_up_assignment := Eval compute in zs "runner_up_assignment".
  Definition runner_up_correlation := Eval compute in zs "runner_up_correlation".
  Definition runner_up_probability := Eval compute in zs "runner_up_probability".
  Definition true_ := Eval compute in zs "True".
  Definition false_ := Eval compute in zs "False".
  Definition metadata := Eval compute in zs " metadata = ".
  Definition hierarchy := Eval compute in zs " taxonomy hierarchy = ".
  Definition readable := Eval compute in zs " readable taxonomy hierarchy = ".
  Definition algo_corr := Eval compute in zs " algorithm: 'correlation';".
  Definition algo_hier := Eval compute in zs " algorithm: 'hierarchical';".
  Definition codebase := Eval compute in zs " codebase: ".
  Definition version := Eval compute in zs "; version: ".
  Definition hexdigits := Eval compute in zs "0123456789abcdef".
  (* the words of the substring tests of blob_to_df / blob_to_csv *)
  Definition w_name := Eval compute in zs "name".
  Definition w_label := Eval compute in zs "label".
  Definition w_alias := Eval compute in zs "alias".
  Definition w_assignment := Eval compute in zs "assignment".
End Lit.
Definition c_comma := 44.
Definition c_quote := 34.
Definition c_lf := 10.
Definition c_cr := 13.
Definition c_hash := 35.
Definition c_space := 32.
Definition c_tab := 9.

(* ---------------- the writer (csv.writer, QUOTE_MINIMAL) ---------------- *)
Definition needs_quote_char (c : Z) : bool := (c =? c_comma) || (c =? c_quote) || (c =? c_lf).
Definition needs_quote (f : str) : bool := existsb needs_quote_char f.
Fixpoint double_quotes (f : str) : str :=
  match f with
  | [] => []
  | c :: t => if c =? c_quote then c_quote :: c_quote :: double_quotes t else c :: double_quotes t
  end.
Definition csv_field (f : str) : str :=
  if needs_quote f then c_quote :: double_quotes f ++ [c_quote] else f.
Fixpoint join_fields (fs : list str) : str :=
  match fs with
  | [] => []
  | f :: t => match t with [] => csv_field f | _ :: _ => csv_field f ++ c_comma :: join_fields t end
  end.
(* writerow: a record that would be empty (one empty field) is written as two DQUOTEs *)
Definition csv_row (r : list str) : str :=
  match r with
  | [[]] => [c_quote; c_quote; c_lf]
  | _ => join_fields r ++ [c_lf]
  end.
Definition csv_text (rows : list (list str)) : str := concat (map csv_row rows).

(* dst.write(f'# ...\n') lines in front of the table: '#', the body, '\n' *)
Definition comment_line (body : str) : str := c_hash :: body ++ [c_lf].
Definition comment_text (bodies : list str) : str := concat (map comment_line bodies).
Definition csv_file (bodies : list str) (rows : list (list str)) : str :=
  comment_text bodies ++ csv_text rows.

(* ---------------- the reader (pandas C tokenizer) ---------------- *)
Inductive cls := KComma | KQuote | KLf | KCr | KCom | KWs | KOther.
(* cm = the reader was given comment='#' *)
Definition classify (cm : bool) (c : Z) : cls :=
  if c =? c_comma then KComma
  else if c =? c_quote then KQuote
  else if c =? c_lf then KLf
  else if c =? c_cr then KCr
  else if cm && (c =? c_hash) then KCom
  else if (c =? c_space) || (c =? c_tab) then KWs
  else KOther.

Inductive pstate :=
  | SR      (* START_RECORD *)
  | SF      (* START_FIELD *)
  | IF      (* IN_FIELD *)
  | IQ      (* IN_QUOTED_FIELD *)
  | QQ      (* QUOTE_IN_QUOTED_FIELD *)
  | CRNL    (* EAT_CRNL: a '\r' ended a record, a following '\n' belongs to it *)
  | CRNOP   (* EAT_CRNL_NOP: a '\r' ended a skipped line *)
  | WS      (* WHITESPACE_LINE: only blanks / tabs so far on this line *)
  | CML     (* EAT_LINE_COMMENT: the line started with the comment character *)
  | CMF.    (* EAT_COMMENT: comment character after some fields *)

(* field being read (reversed), fields of the record so far (reversed), finished records (reversed) *)
Record acc := mkAcc { a_fld : str; a_row : list str; a_done : list (list str) }.
Definition acc0 : acc := mkAcc [] [] [].
Definition push (c : Z) (a : acc) : acc := mkAcc (c :: a_fld a) (a_row a) (a_done a).
Definition end_field (a : acc) : acc := mkAcc [] (rev (a_fld a) :: a_row a) (a_done a).
Definition end_line (a : acc) : acc := mkAcc [] [] (rev (a_row a) :: a_done a).
Definition drop_fld (a : acc) : acc := mkAcc [] (a_row a) (a_done a).

Definition step_if (a : acc) (k : cls) (c : Z) : pstate * acc :=
  match k with
  | KLf => (SR, end_line (end_field a))
  | KCr => (CRNL, end_field a)
  | KComma => (SF, end_field a)
  | KCom => (CMF, end_field a)
  | _ => (IF, push c a)
  end.
Definition step_sf (a : acc) (k : cls) (c : Z) : pstate * acc :=
  match k with
  | KLf => (SR, end_line (end_field a))
  | KCr => (CRNL, end_field a)
  | KQuote => (IQ, a)
  | KComma => (SF, end_field a)
  | KCom => (CMF, end_field a)
  | _ => (IF, push c a)
  end.
(* blank lines are skipped (skip_blank_lines=True) *)
Definition step_sr (a : acc) (k : cls) (c : Z) : pstate * acc :=
  match k with
  | KLf => (SR, a)
  | KCr => (CRNOP, a)
  | KCom => (CML, a)
  | KWs => (WS, push c a)
  | _ => step_sf a k c
  end.
Definition step (cm : bool) (st : pstate) (a : acc) (c : Z) : pstate * acc :=
  let k := classify cm c in
  match st with
  | SR => step_sr a k c
  | SF => step_sf a k c
  | IF => step_if a k c
  | IQ => match k with KQuote => (QQ, a) | _ => (IQ, push c a) end
  | QQ => match k with
          | KQuote => (IQ, push c a)
          | KComma => (SF, end_field a)
          | KLf => (SR, end_line (end_field a))
          | KCr => (CRNL, end_field a)
          | _ => (IF, push c a)          (* not strict: text after the closing quote is kept *)
          end
  | CRNL => match k with KLf => (SR, end_line a) | _ => step_sr (end_line a) k c end
  | CRNOP => match k with KLf | KComma => (SR, a) | _ => step_sr a k c end
  | WS => match k with
          | KLf => (SR, drop_fld a)
          | KCr => (CRNOP, drop_fld a)
          | KWs => (WS, push c a)
          | _ => step_if a k c
          end
  | CML => match k with KLf => (SR, a) | KCr => (CRNOP, a) | _ => (CML, a) end
  | CMF => match k with KLf => (SR, end_line a) | KCr => (CRNL, a) | _ => (CMF, a) end
  end.
Fixpoint run (cm : bool) (st : pstate) (a : acc) (text : str) : pstate * acc :=
  match text with
  | [] => (st, a)
  | c :: t => let sa := step cm st a c in run cm (fst sa) (snd sa) t
  end.
(* parser_handle_eof: None = EOF-inside-string *)
Definition finish (st : pstate) (a : acc) : option (list (list str)) :=
  match st with
  | SR | WS | CRNOP | CML => Some (rev (a_done a))
  | IQ => None
  | IF | SF | QQ => Some (rev (a_done (end_line (end_field a))))
  | CRNL | CMF => Some (rev (a_done (end_line a)))
  end.
Definition csv_parse (cm : bool) (text : str) : option (list (list str)) :=
  let sa := run cm SR acc0 text in finish (fst sa) (snd sa).

(* ---------------- which tables survive the round trip ---------------- *)
Definition is_blank (c : Z) : bool := (c =? c_space) || (c =? c_tab).
(* an unquoted field must not contain '\r' (read as a line end) nor, for a reader with comment='#', '#' *)
Definition field_ok (cm : bool) (f : str) : bool :=
  needs_quote f || forallb (fun c => negb (c =? c_cr) && negb (cm && (c =? c_hash))) f.
(* what the tokenizer MODEL needs; a one-column row that consists of blanks / tabs only is a blank line
   to the reader *)
Definition row_tok (cm : bool) (r : list str) : bool :=
  forallb (field_ok cm) r &&
  match r with
  | [] => false
  | [f] => needs_quote f || match f with [] => true | _ :: _ => existsb (fun c => negb (is_blank c)) f end
  | _ :: _ :: _ => true
  end.
Definition well_tok (cm : bool) (rows : list (list str)) : bool := forallb (row_tok cm) rows.
(* what the real writer / reader need in addition:
   - a code point is a Unicode scalar value other than NUL: ASSUMING THE LOCALE'S ENCODING IS UTF-8 (see
     below) a surrogate code point makes the writer raise UnicodeEncodeError, every other code point is
     written; and the C reader cuts a field at NUL ('a\x00b' reads as 'a');
   - the first field of a row does not start with an unquoted blank / tab (chunk boundary, see top);
   - the TEXT does not start with U+FEFF (audit 4, A6): read_csv strips a leading byte order mark, so a table
     whose first row's first field starts with an unquoted U+FEFF reads back without it
     ([[[65279;105;100];[110]];[[99];[97]]] reads as [['id','n'],['c','a']]).  A field that needs quoting
     starts the text with DQUOTE; a file with comment lines - every file blob_to_csv writes - starts with '#':
     both unaffected.
   LOCALE ASSUMPTION (audit 4, A6).  blob_to_csv opens the file with `open(output_path, 'w')`, NO encoding
   argument: the text is encoded with locale.getpreferredencoding(False).  The model is the sequence of CODE
   POINTS; "the file" is their UTF-8 encoding only under a UTF-8 locale (any *.UTF-8 locale, or Python's UTF-8
   mode: PYTHONUTF8=1 / -X utf8, or the C-locale coercion of PEP 538, which is on by default).  Under
   LC_ALL=C PYTHONUTF8=0 PYTHONCOERCECLOCALE=0 the encoding is ASCII and a node name / cell id / metadata file
   name with a non-ASCII character makes blob_to_csv raise UnicodeEncodeError ('ascii' codec can't encode
   character) after the comment lines were written: observed, an environment dependence of the real code, not
   modelled.  The reader side (pd.read_csv) always decodes UTF-8. *)
Definition char_ok (c : Z) : bool :=
  (0 <? c) && (c <? 1114112) && negb ((55296 <=? c) && (c <=? 57343)).
Definition first_ok (r : list str) : bool :=
  match r with
  | f :: _ => needs_quote f || match f with c :: _ => negb (is_blank c) | [] => true end
  | [] => true
  end.
Definition row_ok (cm : bool) (r : list str) : bool :=
  row_tok cm r && first_ok r && forallb (forallb char_ok) r.
Definition c_bom := 65279.
Definition bom_ok (rows : list (list str)) : bool :=
  match rows with
  | (f :: _) :: _ => needs_quote f || match f with c :: _ => negb (c =? c_bom) | [] => true end
  | _ => true
  end.
Definition well_shaped (cm : bool) (rows : list (list str)) : bool := bom_ok rows && forallb (row_ok cm) rows.
Definition comment_ok (body : str) : bool :=
  forallb (fun c => negb (c =? c_lf) && negb (c =? c_cr) && char_ok c) body.

(* ---------------- '%.4f' ---------------- *)
(* the exact value m * 2^e as a fraction *)
Definition dyadic (m e : Z) : rat := if 0 <=? e then (m * 2 ^ e, 1) else (m, 2 ^ (- e)).
(* round(x * 10^4), ties to even, of x = m * 2^e *)
Definition fmt4k (m e : Z) : Z := fmt4 (dyadic m e).

(* decimal digits of k >= 0 without leading zeros ('0' for 0) *)
Fixpoint dig (fuel : nat) (k : Z) (l : str) : str :=
  match fuel with
  | O => l
  | S f => if k <? 10 then (48 + k) :: l else dig f (k / 10) ((48 + k mod 10) :: l)
  end.
Definition digits (k : Z) : str := dig (S (Z.to_nat (Z.log2 k))) k [].
(* exactly n digits, zero padded *)
Fixpoint digf (n : nat) (k : Z) (l : str) : str :=
  match n with
  | O => l
  | S n' => digf n' (k / 10) ((48 + k mod 10) :: l)
  end.
(* the text of k/10^4 with four decimals, k >= 0 *)
Definition fixed4 (k : Z) : str := digits (k / 10000) ++ [46] ++ digf 4 (k mod 10000) [].
(* '%.4f' % x for x = (-1)^neg * m * 2^e, m >= 0 *)
Definition fmt4_text (neg : bool) (m e : Z) : str :=
  (if neg then [45] else []) ++ fixed4 (fmt4k m e).

(* reading such a text back: digits '.' exactly four digits -> number of 1/10000 units *)
Fixpoint parse_digits (s : str) (a : Z) : option Z :=
  match s with
  | [] => Some a
  | c :: t => if (48 <=? c) && (c <=? 57) then parse_digits t (a * 10 + (c - 48)) else None
  end.
Fixpoint split_dot (s : str) : option (str * str) :=
  match s with
  | [] => None
  | c :: t => if c =? 46 then Some ([], t)
              else match split_dot t with Some (a, b) => Some (c :: a, b) | None => None end
  end.
Definition parse_fixed4u (s : str) : option Z :=
  match split_dot s with
  | None => None
  | Some (ip, fp) =>
      match ip with
      | [] => None
      | _ :: _ =>
          if Nat.eqb (length fp) 4 then
            match parse_digits ip 0, parse_digits fp 0 with
            | Some i, Some f => Some (i * 10000 + f)
            | _, _ => None
            end
          else None
      end
  end.
(* an optional '-' in front: the value is negated ('-0.0000' is 0) *)
Definition parse_fixed4 (s : str) : option Z :=
  match s with
  | [] => None
  | c :: t => if c =? 45 then option_map Z.opp (parse_fixed4u t) else parse_fixed4u s
  end.

(* ---------------- the CSV file of a blob: Output.blob_to_csv rendered as text ---------------- *)
(* '%.4f' % x of the exact value x = n/d (d > 0): sign, then the digits of the rounded magnitude.  A double
   is (-1)^neg * m * 2^e: fmt4_rat_text (dyadic (+-m) e) = fmt4_text neg m e (CsvTextP) -- except for the
   NEGATIVE ZERO, which a fraction cannot carry: '%.4f' % -0.0 = '-0.0000' = fmt4_text true 0 0, while
   fmt4_rat_text (0, 1) = '0.0000' (the harness leaves blobs with a -0.0 confidence out of the byte tie). *)
Definition fmt4_rat_text (x : rat) : str :=
  if fst x <? 0 then 45 :: fixed4 (fmt4 (- fst x, snd x)) else fixed4 (fmt4 x).

(* json.dumps(s) of a str with ensure_ascii=True: DQUOTE and backslash escaped, \n \r \t \b \f by letter,
   every other code point outside ' '..'~' as \uXXXX (lower-case hex; above 0xFFFF as a surrogate pair) *)
Definition hex1 (k : Z) : Z := nth (Z.to_nat k) Lit.hexdigits 48.
Definition hex4 (k : Z) : str := [hex1 (k / 4096 mod 16); hex1 (k / 256 mod 16); hex1 (k / 16 mod 16); hex1 (k mod 16)].
Definition u_escape (k : Z) : str := 92 :: 117 :: hex4 k.
Definition json_char (c : Z) : str :=
  if c =? 34 then [92; 34]
  else if c =? 92 then [92; 92]
  else if c =? 10 then [92; 110]
  else if c =? 13 then [92; 114]
  else if c =? 9 then [92; 116]
  else if c =? 8 then [92; 98]
  else if c =? 12 then [92; 102]
  else if (32 <=? c) && (c <=? 126) then [c]
  else if c <? 65536 then u_escape c
  else u_escape (55296 + (c - 65536) / 1024 mod 1024) ++ u_escape (56320 + (c - 65536) mod 1024).
Definition json_str (s : str) : str := 34 :: concat (map json_char s) ++ [34].
Fixpoint join_with (sep : str) (l : list str) : str :=
  match l with
  | [] => []
  | [x] => x
  | x :: t => x ++ sep ++ join_with sep t
  end.
(* json.dumps(list of str): '[' items separated by ', ' ']' *)
Definition json_list (l : list str) : str := 91 :: join_with [44; 32] (map json_str l) ++ [93].

(* names = the strings behind the integer names of the case (the inverse of the harness's renaming) *)
Definition name_str (names : list (Z * str)) (z : Z) : str :=
  match zassoc z names with Some s => s | None => [] end.

(* the body (after '#') of one comment line.  repo / version = cell_type_mapper.__repository__ / __version__ *)
Definition hline_text (names : list (Z * str)) (repo version : str) (h : hline) : str :=
  match h with
  | HMeta m => Lit.metadata ++ name_str names m
  | HHier l => Lit.hierarchy ++ json_list (map (name_str names) l)
  | HReadable l => Lit.readable ++ json_list (map (name_str names) l)
  | HVersion a =>
      (match a with O => [] | S O => Lit.algo_corr | _ => Lit.algo_hier end) ++
      Lit.codebase ++ repo ++ Lit.version ++ version
  end.

(* the column name f'{readable_level}_{element}' (after the renaming of the confidence column) *)
Definition nat_digits (n : nat) : str := digits (Z.of_nat n).
Definition field_name (conf f : nat) : str :=
  match f with
  | O => Lit.bootstrapping_probability
  | S O => if Nat.eqb conf 1 then Lit.correlation_coefficient else Lit.avg_correlation
  | S (S O) => Lit.aggregate_probability
  | _ => Lit.directly_assigned
  end.
Definition run_name (kind : nat) : str :=
  match kind with O => Lit.runner_up_assignment | S O => Lit.runner_up_correlation | _ => Lit.runner_up_probability end.
Definition col_name (names : list (Z * str)) (conf : nat) (k : colkey) : str :=
  match k with
  | KId => Lit.cell_id
  | KLabel rl => name_str names rl ++ Lit.label
  | KName rl => name_str names rl ++ Lit.name
  | KAlias rl => name_str names rl ++ Lit.alias
  | KField rl f => name_str names rl ++ 95 :: field_name conf f
  | KRun rl kind i => name_str names rl ++ 95 :: run_name kind ++ 95 :: nat_digits i
  end.

(* a cell: a name; a number through '%.4f' -- or, in a column blob_to_df turned into a pandas category
   (finding F12), the shortest repr of the double, which is NOT modelled: reprs is that function given as a
   table by whoever uses the model (the harness computes repr(x) for the numbers of the case); a boolean;
   the empty field of a NaN *)
Fixpoint rassoc (x : rat) (l : list (rat * str)) : option str :=
  match l with
  | [] => None
  | (y, s) :: t => if (fst x =? fst y) && (snd x =? snd y) then Some s else rassoc x t
  end.
Definition cell_text (names : list (Z * str)) (reprs : list (rat * str)) (cat : bool) (v : option dval) : str :=
  match v with
  | None => []
  | Some (DName z) => name_str names z
  | Some (DNum r) => if cat then match rassoc r reprs with Some s => s | None => [] end else fmt4_rat_text r
  | Some (DBool b) => if b then Lit.true_ else Lit.false_
  end.

(* the table of strings handed to the csv writer: header row, then one row per record *)
Definition blob_to_csv_table (names : list (Z * str)) (reprs : list (rat * str))
           (nm : naming) (hier : list Z) (conf : nat) (sticky categ : list Z) (b : blob) : res (list (list str)) :=
  bind (blob_to_table (fun k v => cell_text names reprs (col_categ categ k) v) nm hier conf sticky b) (fun t =>
  Ok (map (col_name names conf) (fst t) :: snd t)).
Definition csv_comment_bodies (names : list (Z * str)) (repo version : str)
           (nm : naming) (hier : list Z) (meta : option Z) (algo : nat) : list str :=
  map (hline_text names repo version) (csv_header nm hier meta algo).
(* the bytes (code points) of the file blob_to_csv writes *)
Definition blob_to_csv_text (names : list (Z * str)) (reprs : list (rat * str)) (repo version : str)
           (nm : naming) (hier : list Z) (meta : option Z) (algo : nat)
           (conf : nat) (sticky categ : list Z) (b : blob) : res str :=
  bind (blob_to_csv_table names reprs nm hier conf sticky categ b) (fun tb =>
  Ok (csv_file (csv_comment_bodies names repo version nm hier meta algo) tb)).

(* ---- sticky and categ DERIVED, as the real code derives them (audit 4, A4).
   blob_to_df:   for col in df.columns: category iff 'label' in col or 'name' in col or 'alias' in col
                                                      or 'assignment' in col
   blob_to_csv:  a column is kept iff col == 'cell_id' or 'name' in col or 'label' in col or 'alias' in col
                                      or confidence_label in col
   - Python substring tests on the COLUMN NAME f'{readable_level}_{element}'.  Here the tests are made on the
   readable level name; that is the same test, column by column: the words 'name', 'label', 'alias',
   'assignment' hold no '_', so an occurrence in rl ++ '_' ++ element lies inside rl or inside the element; the
   elements that are not label / name / alias themselves (bootstrapping_probability, avg_correlation /
   correlation_coefficient, aggregate_probability, directly_assigned, runner_up_assignment_i,
   runner_up_correlation_i, runner_up_probability_i) hold none of 'name', 'label', 'alias' - so such a column is
   kept iff it is the confidence column or rl holds a word -, and 'assignment' occurs only in
   runner_up_assignment_i, a column of strings on which the category conversion changes nothing in the text.
   The confidence label ('bootstrapping_probability' / 'correlation_coefficient') holds ONE '_': an occurrence
   across the separator would need an element that starts with 'probability' / 'coefficient' - there is none -,
   so it lies inside rl (sticky) or is the confidence column itself.  The tie (tag 1556) compares the text
   computed with these derived lists byte for byte with the file the real blob_to_csv writes, on level names
   that do hold the words. *)
Fixpoint prefix_b (w s : str) : bool :=
  match w, s with
  | [], _ => true
  | a :: w', b :: s' => (a =? b) && prefix_b w' s'
  | _ :: _, [] => false
  end.
(* Python's `w in s` *)
Fixpoint contains (w s : str) : bool :=
  prefix_b w s || match s with [] => false | _ :: t => contains w t end.
Definition conf_label (conf : nat) : str :=
  if Nat.eqb conf 1 then Lit.correlation_coefficient else Lit.bootstrapping_probability.
Definition sticky_word (conf : nat) (s : str) : bool :=
  contains Lit.w_name s || contains Lit.w_label s || contains Lit.w_alias s || contains (conf_label conf) s.
Definition categ_word (s : str) : bool :=
  contains Lit.w_label s || contains Lit.w_name s || contains Lit.w_alias s || contains Lit.w_assignment s.
Definition sticky_of (names : list (Z * str)) (conf : nat) (rls : list Z) : list Z :=
  filter (fun rl => sticky_word conf (name_str names rl)) rls.
Definition categ_of (names : list (Z * str)) (rls : list Z) : list Z :=
  filter (fun rl => categ_word (name_str names rl)) rls.
Definition blob_to_csv_table_auto (names : list (Z * str)) (reprs : list (rat * str))
           (nm : naming) (hier : list Z) (conf : nat) (b : blob) : res (list (list str)) :=
  let rls := map (level_to_name nm) hier in
  blob_to_csv_table names reprs nm hier conf (sticky_of names conf rls) (categ_of names rls) b.
Definition blob_to_csv_text_auto (names : list (Z * str)) (reprs : list (rat * str)) (repo version : str)
           (nm : naming) (hier : list Z) (meta : option Z) (algo : nat) (conf : nat) (b : blob) : res str :=
  let rls := map (level_to_name nm) hier in
  blob_to_csv_text names reprs repo version nm hier meta algo conf (sticky_of names conf rls) (categ_of names rls) b.

(* every integer name the file shows stands for a string: the metadata file name, the levels and their
   readable names, the cell ids, the assignments and their names / aliases.  (name_str gives '' for an
   integer outside `names`: a theorem about the text must not be instantiated there.) *)
Definition used_names (nm : naming) (hier : list Z) (meta : option Z) (b : blob) : list Z :=
  (match meta with Some m => [m] | None => [] end) ++ hier ++ map (level_to_name nm) hier ++
  flat_map (fun cl => c_id cl ::
              flat_map (fun ll => [l_assign (snd ll); label_to_name nm (fst ll) (l_assign (snd ll)) false;
                                   label_to_name nm (fst ll) (l_assign (snd ll)) true])
                       (combine hier (c_levels cl))) b.
Definition names_defined (names : list (Z * str)) (zs : list Z) : bool :=
  forallb (fun z => match zassoc z names with Some _ => true | None => false end) zs.

(* ---------------- wire ---------------- *)
Definition of_rows (rows : list (list str)) : sx := of_list (of_list of_LZ) rows.
Definition of_parse (r : option (list (list str))) : sx := of_option of_rows r.

(* tag 1550: (comment-bodies rows) -> the text of the file *)
Definition run_csv_file (x : sx) : sx :=
  match x with
  | L [b; r] => match sx_LLZ b, sx_LLLZ r with
                | Some b', Some r' => sx_ok (of_LZ (csv_file b' r'))
                | _, _ => sx_bad end
  | _ => sx_bad
  end.
(* tag 1551: (comment? text) -> rows, or () for EOF-inside-string *)
Definition run_csv_parse (x : sx) : sx :=
  match x with
  | L [c; t] => match sx_bool c, sx_LZ t with
                | Some c', Some t' => sx_ok (of_parse (csv_parse c' t'))
                | _, _ => sx_bad end
  | _ => sx_bad
  end.
(* tag 1552: (neg m e) -> (k text), m >= 0 *)
Definition run_fmt4 (x : sx) : sx :=
  match x with
  | L [n; m; e] => match sx_bool n, sx_Z m, sx_Z e with
                   | Some n', Some m', Some e' =>
                       if m' <? 0 then sx_bad
                       else sx_ok (L [I (fmt4k m' e'); of_LZ (fmt4_text n' m' e')])
                   | _, _, _ => sx_bad end
  | _ => sx_bad
  end.
(* tag 1553: (comment-bodies rows) -> (all comment bodies ok, well_shaped without / with comment='#',
   what the reader makes of the written file without / with comment='#') *)
Definition run_csv_roundtrip (x : sx) : sx :=
  match x with
  | L [b; r] => match sx_LLZ b, sx_LLLZ r with
                | Some b', Some r' =>
                    sx_ok (L [of_bool (forallb comment_ok b'); of_bool (well_shaped false r');
                              of_bool (well_shaped true r');
                              of_parse (csv_parse false (csv_file b' r'));
                              of_parse (csv_parse true (csv_file b' r'))])
                | _, _ => sx_bad end
  | _ => sx_bad
  end.
(* tag 1554: text of four decimals -> (k) or () *)
Definition run_parse_fixed4 (x : sx) : sx :=
  match sx_LZ x with
  | Some s => sx_ok (of_option I (parse_fixed4 s))
  | None => sx_bad
  end.

(* tag 1555: (names reprs (repo version) naming hierarchy meta? algo conf (sticky categ) blob)
   -> (text, comment bodies ok, table well_shaped for the reader with comment='#') or the error.
   names: ((z codepoints) ...); reprs: (((n d) codepoints) ...) *)
Definition sx_names : sx -> option (list (Z * str)) := sx_list (sx_pair sx_Z sx_LZ).
Definition sx_reprs : sx -> option (list (rat * str)) := sx_list (sx_pair sx_rat sx_LZ).
Definition run_blob_to_csv_text (x : sx) : sx :=
  match x with
  | L [ns; rp; L [repo; ver]; nm; h; m; a; c; L [s; g]; b] =>
      match sx_names ns, sx_reprs rp, sx_LZ repo, sx_LZ ver with
      | Some ns', Some rp', Some repo', Some ver' =>
          match sx_naming nm, sx_LZ h, sx_opt sx_Z m, sx_nat a, sx_nat c, sx_LZ s, sx_LZ g with
          | Some nm', Some h', Some m', Some a', Some c', Some s', Some g' =>
              match sx_blob b with
              | Some b' =>
                  match blob_to_csv_table ns' rp' nm' h' c' s' g' b' with
                  | Ok tb =>
                      let bodies := csv_comment_bodies ns' repo' ver' nm' h' m' a' in
                      sx_ok (L [of_LZ (csv_file bodies tb); of_bool (forallb comment_ok bodies);
                                of_bool (well_shaped true tb)])
                  | Err e => sx_err e
                  end
              | None => sx_bad end
          | _, _, _, _, _, _, _ => sx_bad end
      | _, _, _, _ => sx_bad end
  | _ => sx_bad
  end.

(* tag 1556: as 1555 without the (sticky categ) argument: the two lists are DERIVED by the model
   (sticky_of / categ_of).  (names reprs (repo version) naming hierarchy meta? algo conf blob)
   -> (text, comment bodies ok, table well_shaped, used names defined, readable level STRINGS distinct) *)
Fixpoint str_eqb (a b : str) : bool :=
  match a, b with
  | [], [] => true
  | x :: a', y :: b' => (x =? y) && str_eqb a' b'
  | _, _ => false
  end.
Fixpoint str_nodup_b (l : list str) : bool :=
  match l with [] => true | x :: t => negb (existsb (str_eqb x) t) && str_nodup_b t end.
Definition run_blob_to_csv_text_auto (x : sx) : sx :=
  match x with
  | L [ns; rp; L [repo; ver]; nm; h; m; a; c; b] =>
      match sx_names ns, sx_reprs rp, sx_LZ repo, sx_LZ ver with
      | Some ns', Some rp', Some repo', Some ver' =>
          match sx_naming nm, sx_LZ h, sx_opt sx_Z m, sx_nat a, sx_nat c with
          | Some nm', Some h', Some m', Some a', Some c' =>
              match sx_blob b with
              | Some b' =>
                  match blob_to_csv_table_auto ns' rp' nm' h' c' b' with
                  | Ok tb =>
                      let bodies := csv_comment_bodies ns' repo' ver' nm' h' m' a' in
                      sx_ok (L [of_LZ (csv_file bodies tb); of_bool (forallb comment_ok bodies);
                                of_bool (well_shaped true tb);
                                of_bool (names_defined ns' (used_names nm' h' m' b'));
                                of_bool (str_nodup_b (map (fun l => name_str ns' (level_to_name nm' l)) h'))])
                  | Err e => sx_err e
                  end
              | None => sx_bad end
          | _, _, _, _, _ => sx_bad end
      | _, _, _, _ => sx_bad end
  | _ => sx_bad
  end.
