(* The link between the query preparation (Model/Normalize.v, C07) and the vote
   (Model/Vote.v, Model/VoteDecide.v, C01-C03).

   prepare_query returns one matrix per parent (rows = cells, columns = that parent's markers
   in reference order).  The vote model receives the query ONLY through
       q_at : cell -> option (nat * node) -> vec          (vec = list Z)
   the row of cell c on the markers of parent p.  Here q_at is read out of the result of
   prepare_query instantiated at R := Z: the vote model works on exact integers ("all values
   of one case scaled by a common power of two"), so lg : frac -> Z stands for
   v |-> 2^s * log2(1 + v); it stays an abstract function, and the theorems assume of it only
   what the C07 theorems already assume (it depends only on the VALUE of the fraction).

   Cells are row indices (nat).  pidx gives, for a parent, the position of its marker list in
   `lists` (the order in which the caller enumerated the parents; any map will do).
   Definitions only. *)
From Coq Require Import ZArith List Bool.
From CTM Require Import Base.Sx Base.SortX Model.Tree Model.Vote Model.Election Model.VoteDecide.
Import ListNotations.
Open Scope Z_scope.

Definition parent := option (nat * node).

(* query_data.data[c, :] of assemble_query_data(parent_node = p): row c of the matrix of p.
   (A row or parent outside the prepared matrices reads as the empty row; the theorems of
   Props/C07.v compare two read-outs of EQUAL prepared matrices, so the default is never what
   makes them true.) *)
Definition q_of (pidx : parent -> nat) (mats : list (list vec)) (c : nat) (p : parent) : vec :=
  nth c (nth (pidx p) mats []) [].

(* avg_correlation of a cell at a parent is computed by the real code from the same row of the
   same matrix (and from reference data that does not depend on the query): as an oracle it is
   therefore a function of the ROW, not of the cell's identity. *)
Definition corr_row {cell : Type} (corr_of : vec -> parent -> Z -> Election.frac)
           (q_at : cell -> parent -> vec) : cell -> parent -> Z -> Election.frac :=
  fun c p w => corr_of (q_at c p) p w.

(* the record of one cell / the decision for a list of cells at one parent, with the query
   taken from prepared matrices *)
Definition vote_record_on (refs_at : parent -> list vec) (owners_at : parent -> list Z) (n_assign : nat)
           (corr_of : vec -> parent -> Z -> Election.frac) (pidx : parent -> nat) (mats : list (list vec))
           (p : parent) (kids : list node) (subsets : list (list nat)) (c : nat) : option rec :=
  vote_record nat refs_at owners_at (q_of pidx mats) n_assign (corr_row corr_of (q_of pidx mats)) p kids subsets c.

Definition decide_on (rng : Type) (refs_at : parent -> list vec) (owners_at : parent -> list Z)
           (draw : rng -> parent -> list (list nat) * rng) (n_assign : nat)
           (corr_of : vec -> parent -> Z -> Election.frac) (pidx : parent -> nat) (mats : list (list vec))
           (g : rng) (p : parent) (kids : list node) (cs : list nat) : list rec * rng :=
  decide_vote nat rng refs_at owners_at (q_of pidx mats) draw n_assign (corr_row corr_of (q_of pidx mats)) g p kids cs.

(* what "the mapping is unchanged" means for two prepared queries m1, m2: the same matrices,
   hence the same record for every cell and the same decision (records of all cells AND the
   generator state handed on) at every parent, for every reference side, every generator, every
   n_assign, every correlation oracle that reads the row, every enumeration of the parents *)
Definition same_votes (m1 m2 : list (list vec)) : Prop :=
  m1 = m2 /\
  (forall (refs_at : parent -> list vec) (owners_at : parent -> list Z) (n_assign : nat)
          (corr_of : vec -> parent -> Z -> Election.frac) (pidx : parent -> nat) p kids subsets c,
     vote_record_on refs_at owners_at n_assign corr_of pidx m1 p kids subsets c =
     vote_record_on refs_at owners_at n_assign corr_of pidx m2 p kids subsets c) /\
  (forall (rng : Type) (refs_at : parent -> list vec) (owners_at : parent -> list Z)
          (draw : rng -> parent -> list (list nat) * rng) (n_assign : nat)
          (corr_of : vec -> parent -> Z -> Election.frac) (pidx : parent -> nat) g p kids cs,
     decide_on rng refs_at owners_at draw n_assign corr_of pidx m1 g p kids cs =
     decide_on rng refs_at owners_at draw n_assign corr_of pidx m2 g p kids cs).

(* an integer-valued instance of lg used in the examples: floor(2^10 * v) -- a function of the
   value of the fraction (Proofs/NormalizeVoteP.v, lgz_ext); NOT log2(1 + .), about which
   nothing more than value-extensionality is ever used *)
Definition lgz (a : Z * Z) : Z := (fst a * 1024) / snd a.
