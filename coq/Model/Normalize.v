(* Model of the normalisation path of the mapper (C07).

   cell_by_gene/utils.py       convert_to_cpm          -> cpm_row
   cell_by_gene/cell_by_gene.py CellByGeneMatrix        -> cbg, make_cbg
                                to_log2CPM(_in_place)   -> to_log2cpm   (guard: _genes_downsampled)
                                downsample_genes(_in_place) -> downsample_genes (gene_to_col dict, fancy index)
   validation/utils.py          is_data_ge_zero         -> has_negative
   type_assignment/marker_cache_v2.py write_query_markers_to_h5 ("all_query_markers")
                                                        -> marker_cache
   type_assignment/election_runner.py + election.py (run_type_assignment_on_h5ad_cpu)
   + matching.py (assemble_query_data, query side)      -> prepare_query

   Exact arithmetic.  A raw row is a list of Z counts.  A CPM value is the exact fraction
   (x * 10^6, S) -- numerator and denominator, never a float; S = row sum, or 1 when the row
   sum is not positive (np.where(row_sums > 0, row_sums, 1)).  log2(1 + .) is the Section
   variable `lg`, about which the proofs assume only that it is a function of the VALUE of
   the fraction (Proofs/NormalizeP.v, hypothesis lg_ext).  Gene names are integers.
   Definitions only. *)
From Coq Require Import ZArith List Bool.
From CTM Require Import Base.Sx Base.SortX.
Import ListNotations.
Open Scope Z_scope.

Definition frac := (Z * Z)%type.                  (* numerator, denominator *)
(* equality of values, by cross-multiplication (used with positive denominators) *)
Definition feq (a b : frac) : Prop := fst a * snd b = fst b * snd a.

Definition million : Z := 1000000.

Definition rsum (row : list Z) : Z := fold_right Z.add 0 row.
(* denom = np.where(row_sums > 0.0, row_sums, 1.) *)
Definition denom (row : list Z) : Z := if 0 <? rsum row then rsum row else 1.
(* cpm = 1.0e6 * (data / denom), one row *)
Definition cpm_row (row : list Z) : list frac := map (fun x => (x * million, denom row)) row.

(* is_data_ge_zero(...)[0] is False  <->  has_negative = true *)
Definition has_negative (d : list (list Z)) : bool := existsb (existsb (fun x => x <? 0)) d.

Inductive err : Type :=
  | ENegative       (* raw input with a negative value (election_runner) *)
  | EShape          (* len(gene_identifiers) != data.shape[1] *)
  | EDupGenes       (* gene identifiers appear more than once *)
  | ENotRaw         (* to_log2CPM on a matrix that is not 'raw' *)
  | EDownsampled    (* to_log2CPM on a matrix already down-selected by gene *)
  | EDupSelected    (* gene occurs more than once in selected_genes *)
  | EUnknownGene    (* KeyError: selected gene not among the gene identifiers *)
  | EIndex          (* column index out of range (unreachable on a well-shaped matrix) *)
  | EBadNorm.       (* normalization string not in ('raw','log2CPM'); wire only *)

Inductive result (A : Type) : Type := Ok (a : A) | Err (e : err).
Arguments Ok {A} a.
Arguments Err {A} e.
Definition bind {A B} (r : result A) (f : A -> result B) : result B :=
  match r with Ok a => f a | Err e => Err e end.
Fixpoint res_all {A} (l : list (result A)) : result (list A) :=
  match l with
  | [] => Ok []
  | Err e :: _ => Err e
  | Ok a :: t => match res_all t with Ok t' => Ok (a :: t') | Err e => Err e end
  end.

Inductive norm_tag : Type := Raw | Log2CPM.

(* CellByGeneMatrix: gene identifiers, data (rows = cells), normalisation, _genes_downsampled *)
Record cbg (A : Type) : Type := mk_cbg {
  c_genes : list Z;
  c_data : list (list A);
  c_norm : norm_tag;
  c_down : bool }.
Arguments mk_cbg {A} _ _ _ _.
Arguments c_genes {A} _.
Arguments c_data {A} _.
Arguments c_norm {A} _.
Arguments c_down {A} _.

(* __init__: shape check, then uniqueness of the gene identifiers; flag starts False *)
Definition make_cbg {A} (genes : list Z) (data : list (list A)) (n : norm_tag) : result (cbg A) :=
  if negb (forallb (fun r => Nat.eqb (length r) (length genes)) data) then Err EShape
  else if negb (znodup_b genes) then Err EDupGenes
  else Ok (mk_cbg genes data n false).

(* gene_to_col = {n: ii for ii, n in enumerate(gene_identifiers)} (identifiers are unique) *)
Fixpoint gene_to_col (genes : list Z) (g : Z) : option nat :=
  match genes with
  | [] => None
  | h :: t => if g =? h then Some O else option_map S (gene_to_col t g)
  end.
(* idx_array = [gene_to_col[n] for n in selected_genes]; None = KeyError *)
Definition idx_array (genes sel : list Z) : option (list nat) := opt_all (map (gene_to_col genes) sel).
(* row[idx_array]; None = IndexError *)
Definition take_cols {A} (idx : list nat) (row : list A) : option (list A) :=
  opt_all (map (nth_error row) idx).

(* downsample_genes / downsample_genes_in_place: the result carries the flag *)
Definition downsample_genes {A} (m : cbg A) (sel : list Z) : result (cbg A) :=
  if negb (znodup_b sel) then Err EDupSelected
  else match idx_array (c_genes m) sel with
       | None => Err EUnknownGene
       | Some idx =>
           match opt_all (map (take_cols idx) (c_data m)) with
           | None => Err EIndex
           | Some d => Ok (mk_cbg sel d (c_norm m) true)
           end
       end.

(* downsample_cells(selected_cells) of a matrix WITHOUT cell identifiers (selected_cells = integer row
   indices, here non-negative): subset = data[idx, :] and then a NEW CellByGeneMatrix is built by the
   constructor -- shape and gene-identifier checks again, and _genes_downsampled starts False: the
   guard set by an earlier downsample_genes is LOST (audit 3, A13; observed on the real code:
   downsample_genes -> downsample_cells -> to_log2CPM is accepted and normalises over the gene
   subset; no caller in the mapping pipeline does this: election / matching down-select cells only on
   the reference side, whose matrix is already log2CPM).  None in the index list = IndexError. *)
Definition downsample_cells_idx {A} (m : cbg A) (idx : list nat) : result (cbg A) :=
  match opt_all (map (nth_error (c_data m)) idx) with
  | None => Err EIndex
  | Some d => make_cbg (c_genes m) d (c_norm m)
  end.

(* write_query_markers_to_h5: every marker is looked up in the query names (KeyError if
   absent); "all_query_markers" = sorted distinct query indices of all markers = the query
   genes that are markers, in QUERY order.  lists = the per-parent marker lists, each in
   REFERENCE order (that ordering is C08's subject; here it is an input). *)
Definition marker_cache (genes : list Z) (lists : list (list Z)) : result (list Z) :=
  if forallb (fun g => zmem g genes) (concat lists)
  then Ok (filter (fun g => zmem g (concat lists)) genes)
  else Err EUnknownGene.

Section Normalize.
Variable R : Type.                 (* type of normalised values *)
Variable lg : frac -> R.           (* v |-> log2(1 + v) *)

Definition log2cpm_row (row : list Z) : list R := map lg (cpm_row row).

(* to_log2CPM / to_log2CPM_in_place *)
Definition to_log2cpm (m : cbg Z) : result (cbg R) :=
  match c_norm m with
  | Log2CPM => Err ENotRaw
  | Raw =>
      if c_down m then Err EDownsampled
      else Ok (mk_cbg (c_genes m) (map log2cpm_row (c_data m)) Log2CPM (c_down m))
  end.

(* what the query file holds, with its declared normalisation *)
Inductive qinput : Type :=
  | DeclRaw (d : list (list Z))       (* normalization = 'raw' : integer counts *)
  | DeclNorm (d : list (list R)).     (* normalization = 'log2CPM' : used as is *)

(* assemble_query_data, query side, for every parent: full_query_data.downsample_genes(query_markers).
   (Its later test `query_data.normalization != "log2CPM"` cannot fire here: both branches of
   prepare_query hand over a matrix tagged Log2CPM, and downsample_genes keeps the tag.) *)
Definition node_matrices (m : cbg R) (lists : list (list Z)) : result (list (list (list R))) :=
  res_all (map (fun nm => bind (downsample_genes m nm) (fun r => Ok (c_data r))) lists).

(* marker cache; negative check (raw only); CellByGeneMatrix(...); to_log2CPM_in_place() on the
   FULL gene set (raw only); downsample_genes_in_place(all_query_markers); per-parent matrices.
   The result is everything the election sees of the query: one matrix per parent, columns in
   that parent's (reference-ordered) marker order. *)
Definition prepare_query (genes : list Z) (inp : qinput) (lists : list (list Z))
  : result (list (list (list R))) :=
  bind (marker_cache genes lists) (fun am =>
  bind (match inp with
        | DeclRaw d => if has_negative d then Err ENegative
                       else bind (make_cbg genes d Raw) to_log2cpm
        | DeclNorm d => make_cbg genes d Log2CPM
        end) (fun m1 =>
  bind (downsample_genes m1 am) (fun m2 =>
  node_matrices m2 lists))).

End Normalize.
Arguments DeclRaw {R} d.
Arguments DeclNorm {R} d.

(* column permutation: new column k is old column p[k] *)
Definition permute {A} (p : list nat) (l : list A) : list A :=
  flat_map (fun j => match nth_error l j with Some x => [x] | None => [] end) p.
(* dropping the columns whose gene name fails `keep` *)
Definition drop_cols {A} (keep : Z -> bool) (genes : list Z) (row : list A) : list A :=
  map snd (filter (fun gx => keep (fst gx)) (combine genes row)).
(* per-cell scaling *)
Definition scale_rows (ks : list Z) (d : list (list Z)) : list (list Z) :=
  map (fun kr => map (Z.mul (fst kr)) (snd kr)) (combine ks d).

(* ---- wire ----
   Instance used for extraction: R := frac, lg := the fraction in lowest terms (a canonical
   representative of the VALUE); the harness applies numpy's log2(1 + .) to it. *)
Definition fnorm (a : frac) : frac :=
  let g := Z.gcd (fst a) (snd a) in
  if g =? 0 then (0, 0) else (fst a / g, snd a / g).

Definition err_code (e : err) : Z :=
  match e with
  | ENegative => 1 | EShape => 2 | EDupGenes => 3 | ENotRaw => 4 | EDownsampled => 5
  | EDupSelected => 6 | EUnknownGene => 7 | EIndex => 8 | EBadNorm => 9
  end.
Definition of_frac (a : frac) : sx := L [I (fst a); I (snd a)].
Definition of_LLfrac (d : list (list frac)) : sx := of_list (of_list of_frac) d.
Definition sx_frac (x : sx) : option frac :=
  match x with L [I n; I d] => Some (n, d) | _ => None end.
Definition sx_LLfrac : sx -> option (list (list frac)) := sx_list (sx_list sx_frac).
Definition sx_norm (x : sx) : option (option norm_tag) :=
  match x with
  | I 0 => Some (Some Raw) | I 1 => Some (Some Log2CPM) | I _ => Some None | L _ => None
  end.
Definition of_norm (n : norm_tag) : sx := match n with Raw => I 0 | Log2CPM => I 1 end.
Definition of_cbg {A} (f : A -> sx) (m : cbg A) : sx :=
  L [of_LZ (c_genes m); of_list (of_list f) (c_data m); of_norm (c_norm m); of_bool (c_down m)].
Definition of_result {A} (f : A -> sx) (r : result A) : sx :=
  match r with Ok a => sx_ok (f a) | Err e => sx_err (err_code e) end.

(* tag 701: rows -> CPM fractions (x*10^6, denom), not reduced *)
Definition run_cpm (x : sx) : sx :=
  match sx_LLZ x with
  | Some d => sx_ok (of_LLfrac (map cpm_row d))
  | None => sx_bad
  end.

(* tag 702: (genes data norm) -> CellByGeneMatrix(...) *)
Definition run_make (x : sx) : sx :=
  match x with
  | L [g; d; n] =>
      match sx_LZ g, sx_LLZ d, sx_norm n with
      | Some genes, Some data, Some (Some nt) => of_result (of_cbg I) (make_cbg genes data nt)
      | Some _, Some _, Some None => sx_err (err_code EBadNorm)
      | _, _, _ => sx_bad
      end
  | _ => sx_bad
  end.

(* tag 703: (genes data norm sel_1 ... ) : CellByGeneMatrix(...) then the listed operations in
   order; an operation is (0) = to_log2CPM_in_place, (1 sel) = downsample_genes(sel),
   (2 idx) = downsample_cells(idx) (integer row indices).
   Counts are carried as fractions (n,1) so that one value type serves before and after
   normalisation; to_log2cpm reads the numerators.  Result: the final matrix. *)
Definition as_counts (m : cbg frac) : cbg Z :=
  mk_cbg (c_genes m) (map (map fst) (c_data m)) (c_norm m) (c_down m).
Inductive cbg_op : Type := OpLog | OpGenes (sel : list Z) | OpCells (idx : list nat).
Definition sx_op (x : sx) : option cbg_op :=
  match x with
  | L [I 0] => Some OpLog
  | L [I 1; s] => match sx_LZ s with Some sel => Some (OpGenes sel) | None => None end
  | L [I 2; s] => match sx_Lnat s with Some idx => Some (OpCells idx) | None => None end
  | _ => None
  end.
Fixpoint apply_ops (m : cbg frac) (ops : list cbg_op) : result (cbg frac) :=
  match ops with
  | [] => Ok m
  | OpLog :: t => bind (to_log2cpm frac fnorm (as_counts m)) (fun m' => apply_ops m' t)
  | OpGenes sel :: t => bind (downsample_genes m sel) (fun m' => apply_ops m' t)
  | OpCells idx :: t => bind (downsample_cells_idx m idx) (fun m' => apply_ops m' t)
  end.
Definition run_ops (x : sx) : sx :=
  match x with
  | L [g; d; n; o] =>
      match sx_LZ g, sx_LLZ d, sx_norm n, sx_list sx_op o with
      | Some genes, Some data, Some (Some nt), Some ops =>
          of_result (of_cbg of_frac)
            (bind (make_cbg genes (map (map (fun z => (z, 1))) data) nt) (fun m => apply_ops m ops))
      | Some _, Some _, Some None, Some _ => sx_err (err_code EBadNorm)
      | _, _, _, _ => sx_bad
      end
  | _ => sx_bad
  end.

(* tag 704: rows -> has_negative *)
Definition run_has_negative (x : sx) : sx :=
  match sx_LLZ x with
  | Some d => sx_ok (of_bool (has_negative d))
  | None => sx_bad
  end.

(* tag 705: (genes lists) -> all_query_markers *)
Definition run_marker_cache (x : sx) : sx :=
  match x with
  | L [g; l] =>
      match sx_LZ g, sx_LLZ l with
      | Some genes, Some lists => of_result of_LZ (marker_cache genes lists)
      | _, _ => sx_bad
      end
  | _ => sx_bad
  end.

(* tag 706: (genes decl data lists); decl 0 = raw (data: integer rows), 1 = log2CPM (data: rows
   of fractions (n d), taken as they are) -> per-parent matrices of fractions *)
Definition run_prepare (x : sx) : sx :=
  match x with
  | L [g; I decl; d; l] =>
      match sx_LZ g, sx_LLZ l with
      | Some genes, Some lists =>
          if decl =? 0 then
            match sx_LLZ d with
            | Some data => of_result (of_list of_LLfrac) (prepare_query frac fnorm genes (DeclRaw data) lists)
            | None => sx_bad
            end
          else if decl =? 1 then
            match sx_LLfrac d with
            | Some data => of_result (of_list of_LLfrac) (prepare_query frac fnorm genes (DeclNorm data) lists)
            | None => sx_bad
            end
          else sx_err (err_code EBadNorm)
      | _, _ => sx_bad
      end
  | _ => sx_bad
  end.
