(* Model of election.py:tally_votes / aggregate_votes / choose_node and of
   distance_utils.correlation_nearest_neighbors, over exact integers (all values of
   one case scaled by a common power of two).  Correlations are never formed:
   two leaves are compared for the same query through sign-aware cross
   multiplication of (covariance, variance) pairs.  Definitions only. *)
From Coq Require Import ZArith List Bool.
From CTM Require Import Base.Sx Base.SortX Model.IntDtype.
Import ListNotations.
Open Scope Z_scope.

Definition vec := list Z.
Definition zsum (l : vec) : Z := fold_right Z.add 0 l.
Fixpoint dot (a b : vec) : Z :=
  match a, b with
  | x :: a', y :: b' => x * y + dot a' b'
  | _, _ => 0
  end.
(* n * (centered cross product) = n * sum(a b) - sum a * sum b *)
Definition ccov (a b : vec) : Z := Z.of_nat (length a) * dot a b - zsum a * zsum b.
(* query_gene_data[:, chosen_idx] *)
Definition getcols (S : list nat) (v : vec) : vec := map (fun j => nth j v 0) S.

(* np.round(bootstrap_factor * n_markers), floored at 1 when there is a marker *)
Definition n_bootstrap (factor : Z * Z) (n_markers : nat) : Z :=
  let r := round_half_even (fst factor * Z.of_nat n_markers, snd factor) in
  if Nat.eqb n_markers 0 then r else Z.max r 1.

(* a drawn subset must be duplicate-free, within range, of the right size *)
Definition subset_ok (factor : Z * Z) (n_markers : nat) (S : list nat) : bool :=
  (Z.of_nat (length S) =? n_bootstrap factor n_markers) &&
  forallb (fun j => Nat.ltb j n_markers) S &&
  znodup_b (map Z.of_nat S).

(* comparison key of reference row r for query q: (covariance, variance), with the
   constant-row convention (norm 0 -> 1, hence correlation 0) written out *)
Definition ckey (q r : vec) : Z * Z :=
  let v := ccov r r in if v =? 0 then (0, 1) else (ccov q r, v).
(* c1/sqrt(v1) < c2/sqrt(v2) for v1, v2 > 0 *)
Definition key_lt (k1 k2 : Z * Z) : bool :=
  let (c1, v1) := k1 in let (c2, v2) := k2 in
  if c1 <? 0 then
    if c2 <? 0 then c2 * c2 * v1 <? c1 * c1 * v2 else true
  else
    if c2 <? 0 then false else c1 * c1 * v2 <? c2 * c2 * v1.

(* np.argmax: first index of a maximal key *)
Fixpoint argmax_from (best : nat) (bk : Z * Z) (i : nat) (ks : list (Z * Z)) : nat :=
  match ks with
  | [] => best
  | k :: t => if key_lt bk k then argmax_from i k (S i) t else argmax_from best bk (S i) t
  end.
Definition argmax (ks : list (Z * Z)) : option nat :=
  match ks with [] => None | k :: t => Some (argmax_from 0 k 1 t) end.

(* one bootstrap iteration: the nearest reference row *)
Definition nearest (q : vec) (refs : list vec) (S : list nat) : option nat :=
  let qs := getcols S q in
  argmax (map (fun r => ckey qs (getcols S r)) refs).

(* tally: the winning leaf (row index) of every iteration *)
Definition tally (q : vec) (refs : list vec) (subsets : list (list nat)) : option (list nat) :=
  opt_all (map (nearest q refs) subsets).

Definition count {A} (f : A -> bool) (l : list A) : nat := length (filter f l).
(* aggregate_votes: votes of a child = iterations won by one of its leaves *)
Definition votes_for (owners : list Z) (winners : list nat) (c : Z) : nat :=
  count (fun w => nth w owners (-1) =? c) winners.

Fixpoint zdistinct (l : list Z) : list Z :=
  match l with [] => [] | x :: t => x :: filter (fun y => negb (x =? y)) (zdistinct t) end.

Fixpoint sorted_desc (l : list nat) : bool :=
  match l with
  | x :: ((y :: _) as t) => Nat.leb y x && sorted_desc t
  | _ => true
  end.

(* The executable statement of C02/C03 for one cell at one parent: is the reported
   (winner, its votes, runners-up with their votes) a legitimate outcome of
   choose_node for the vote function vf?  Tie order is left open, as numpy leaves it. *)
Definition check_choice (kids : list Z) (vf : Z -> nat) (n_assign : nat)
           (w : Z) (wv : nat) (rs : list (Z * nat)) : bool :=
  let listed := w :: map fst rs in
  let low := last (map snd rs) wv in
  zmem w kids && Nat.eqb (vf w) wv &&
  forallb (fun c => Nat.leb (vf c) wv) kids &&
  znodup_b listed &&
  forallb (fun r => zmem (fst r) kids && Nat.eqb (vf (fst r)) (snd r) && Nat.ltb 0 (snd r)) rs &&
  sorted_desc (wv :: map snd rs) &&
  Nat.eqb (length rs) (Nat.min (n_assign - 1) (count (fun c => negb (c =? w) && Nat.ltb 0 (vf c)) kids)) &&
  forallb (fun c => zmem c listed || Nat.leb (vf c) low) kids.

(* choose_node with the argsort left abstract: any permutation of the children
   whose votes are non-increasing *)
Definition choose_with (order : list Z) (vf : Z -> nat) (n_assign : nat) : option (Z * nat * list (Z * nat)) :=
  match firstn (Nat.min n_assign (length order)) order with
  | [] => None
  | w :: rest => Some (w, vf w, filter (fun r => Nat.ltb 0 (snd r)) (map (fun c => (c, vf c)) rest))
  end.

(* ---- wire ---- *)
(* tag 201: (q refs owners subsets factor n_assign observed) with
   observed = (winner wv ((node votes) ...))
   -> (subsets_ok votes-per-child accepted)  *)
Definition run_check_cell (x : sx) : sx :=
  match x with
  | L [q; refs; owners; subsets; factor; na; L [w; wv; rs]] =>
      match sx_LZ q, sx_LLZ refs, sx_LZ owners, sx_LLnat subsets, sx_pair sx_Z sx_Z factor, sx_nat na,
            sx_Z w, sx_nat wv, sx_list (sx_pair sx_Z sx_nat) rs with
      | Some q', Some refs', Some owners', Some subsets', Some f', Some na', Some w', Some wv', Some rs' =>
          match tally q' refs' subsets' with
          | None => sx_err 1
          | Some winners =>
              let kids := zdistinct owners' in
              let vf := votes_for owners' winners in
              sx_ok (L [of_bool (forallb (subset_ok f' (length q')) subsets');
                        of_list (fun c => L [I c; of_nat (vf c)]) kids;
                        of_Lnat winners;
                        of_bool (check_choice kids vf na' w' wv' rs')])
          end
      | _, _, _, _, _, _, _, _, _ => sx_bad
      end
  | _ => sx_bad
  end.

(* tag 202: (factor n_markers) -> n_bootstrap *)
Definition run_n_bootstrap (x : sx) : sx :=
  match x with
  | L [f; n] => match sx_pair sx_Z sx_Z f, sx_nat n with
                | Some f', Some n' => sx_ok (I (n_bootstrap f' n')) | _, _ => sx_bad end
  | _ => sx_bad end.
