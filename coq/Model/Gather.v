(* Gather — what a parallel stage does with the results of its workers, with the
   completion order of the workers as an explicit input (C04).  Definitions only.

   mapping (type_assignment/election.py, election_runner.py, utils/output_utils.py):

     max_chunk_size = max(1, ceil(n_rows / n_processors)); chunk_size = min(max_chunk_size, chunk_size)
     for chunk in AnnDataRowIterator(row_chunk_size=chunk_size):            # (r0, r1) in row order
         p = Process(target=worker, kwargs={..., 'rng': default_rng(rng.integers(99, 2**32)), ...})
         p.start(); process_list.append(p)
         while len(process_list) >= n_processors: process_list = winnow_process_list(process_list)
     while len(process_list) > 0: ...
     # worker: `output_list += assignment` under a lock              (completion order), or
     #         json file `{r0}_{r1}_assignment.json` in buffer_dir;   parent: iterdir, sort, concatenate
     result = re_order_blob(result, query_path):
         d = {c['cell_id']: c for c in results_blob}; [d[c] for c in cell_order]

   Names of cells and of buffer files are order-preserving integers.  The parent
   generator is an abstract state machine (S, draw). *)
From Coq Require Import ZArith List Bool Lia.
From CTM Require Import Base.Sx Base.SortX Model.Pool.
Import ListNotations.

(* ---- chunking *)
Definition ceil_div (a b : nat) : nat := ((a + b - 1) / b)%nat.
Definition eff_chunk (n p c : nat) : nat := Nat.min (Nat.max 1 (ceil_div n p)) c.
(* the (r0, r1) pairs produced by the row iterator for chunk size cs >= 1 *)
Definition chunks (n cs : nat) : list (nat * nat) :=
  map (fun i => (i * cs, Nat.min n ((i + 1) * cs)))%nat (seq 0 (ceil_div n cs)).

(* ---- seeds: drawn from the parent stream in the body of the dispatch loop, right
   before the worker is created; `wait_below` (Model/Pool.v) does not touch the stream *)
Section Seeds.
  Variable S : Type.
  Variable draw : S -> Z * S.

  Fixpoint draws (k : nat) (s : S) : list Z :=
    match k with
    | O => []
    | Datatypes.S k' => let zs := draw s in fst zs :: draws k' (snd zs)
    end.

  Section WithWinnow.
    Variable winnow : world -> nat -> list job -> wres (list job).

    (* dispatch_loop of Model/Pool.v with the stream threaded through; returns the
       verdict and the (worker, seed) pairs in dispatch order *)
    Fixpoint dispatch_seeds (fuel : nat) (W : world) (n : nat) (todo : list nat)
             (running : list job) (t : nat) (s : S) (acc : list (nat * Z)) : pres * list (nat * Z) :=
      match todo with
      | [] =>
          match wait_below winnow fuel W 1 running t [] with
          | inl r => (fst r, acc)
          | inr _ => (POk, acc)
          end
      | w :: rest =>
          let zs := draw s in
          match wait_below winnow fuel W n (running ++ [(w, t)]) t [] with
          | inl r => (fst r, acc ++ [(w, fst zs)])
          | inr (r', t', _) => dispatch_seeds fuel W n rest r' t' (snd zs) (acc ++ [(w, fst zs)])
          end
      end.
  End WithWinnow.

  Definition run_seeds (W : world) (n k : nat) (s : S) : pres * list (nat * Z) :=
    dispatch_seeds winnow_list (pool_fuel W k) W n (seq 0 k) [] 0 s [].
End Seeds.

(* ---- gather and re-order *)
Section Gather.
  Variable A : Type.                       (* what is recorded for a cell *)
  Definition record := (Z * A)%type.       (* (cell id, payload) *)

  (* per-chunk result as a function of the chunk index and its seed *)
  Variable work : nat -> Z -> list record.

  (* shared list: appended in completion order sigma *)
  Definition gather_list (seeds : list Z) (sigma : list nat) : list record :=
    concat (map (fun i => work i (nth i seeds 0%Z)) sigma).

  (* buffer directory: one file per chunk, named name(i); the parent lists the directory
     (any order: sigma), sorts the names and concatenates *)
  Variable name : nat -> Z.
  Variable chunk_of_name : Z -> nat.
  Definition gather_files (seeds : list Z) (sigma : list nat) : list record :=
    concat (map (fun z => work (chunk_of_name z) (nth (chunk_of_name z) seeds 0%Z))
                (zsort (map name sigma))).

  (* re_order_blob: dict comprehension (the last record of a cell id wins), then one
     lookup per cell of the query in file order; a missing id is a KeyError *)
  Definition lookup_last (c : Z) (blob : list record) : option A := zassoc c (rev blob).

  Fixpoint re_order (cell_order : list Z) (blob : list record) : option (list record) :=
    match cell_order with
    | [] => Some []
    | c :: rest =>
        match lookup_last c blob, re_order rest blob with
        | Some v, Some r => Some ((c, v) :: r)
        | _, _ => None
        end
    end.

  Definition final_list (cell_order : list Z) (seeds : list Z) (sigma : list nat) :=
    re_order cell_order (gather_list seeds sigma).
  Definition final_files (cell_order : list Z) (seeds : list Z) (sigma : list nat) :=
    re_order cell_order (gather_files seeds sigma).
End Gather.

(* ---- the mapping stage (run_type_assignment_on_h5ad_cpu followed by re_order_blob) as a
   function of (n_rows, n_processors, chunk_size), of the world (exit code and termination time
   of every worker) and of the order sigma in which the workers appended to the shared list.
   n_processors enters TWICE, as in the code:
     - chunk_size = min(max(1, ceil(n_rows / n_processors)), chunk_size)     (eff_chunk), which
       fixes the chunks (the row iterator cuts 0..n_rows into consecutive pieces of that size;
       max_gb only bounds the memory of a CSC -> CSR conversion, not the chunk boundaries);
     - as the bound of the dispatch loop (`while len(process_list) >= n_processors`), hence in
       the interleaving of the seed draws with the polls (run_seeds).
   A worker that does not exit with code 0 makes the inspector raise: no result.
   `work_rows r0 r1 seed` = the records of rows r0..r1 computed with the generator of that seed *)
Section Mapping.
  Variable A : Type.
  Variable S : Type.
  Variable draw : S -> Z * S.
  Variable work_rows : nat -> nat -> Z -> list (record A).

  Definition chunk_work (n cs : nat) (i : nat) (seed : Z) : list (record A) :=
    let ch := nth i (chunks n cs) (O, O) in work_rows (fst ch) (snd ch) seed.

  Definition mapping_result (cell_order : list Z) (s : S) (n p c : nat) (W : world) (sigma : list nat)
    : option (list (record A)) :=
    let cs := eff_chunk n p c in
    let k := length (chunks n cs) in
    let r := run_seeds S draw W p k s in
    match fst r with
    | POk => final_list A (chunk_work n cs) cell_order (map snd (snd r)) sigma
    | _ => None
    end.
End Mapping.

(* ---- statistics (_precompute_summary_stats_from_h5ad_and_lookup): in the body of the dispatch
   loop, right before the worker is created and started, the path of its buffer file is appended
   to buffer_path_list; after the drain the parent opens the files of buffer_path_list one after
   the other and adds them up (float addition is not associative: `add` is an arbitrary
   operation).  The order of buffer_path_list is therefore the order of the EStart events of the
   parent's log -- `starts` reads it off the log; that it is 0, 1, ..., k-1 whatever the world is
   a theorem (Proofs/GatherP.v: starts_are_dispatch_order), not part of the definition *)
Definition starts (log : list pev) : list nat :=
  flat_map (fun e => match e with EStart w => [w] | EPop _ => [] end) log.

Section Stats.
  Variable A : Type.
  Variable add : A -> A -> A.
  Variable zero : A.
  Variable partial : nat -> A.
  Definition fold_stats (order : list nat) : A := fold_left add (map partial order) zero.
  (* the reference: the partial sums added in dispatch order *)
  Definition merge_stats (k : nat) : A := fold_stats (seq 0 k).
  Definition stats_result (W : world) (n k : nat) : option A :=
    let r := run_pool_list W n k in
    match fst r with POk => Some (fold_stats (starts (snd r))) | _ => None end.
End Stats.

(* ---- reference markers: tmp_path_dict[col0] filled at dispatch, merged over
   sorted(tmp_path_dict.keys()); keys_in is the order in which the keys are listed *)
Definition merge_markers {A} (chunk : Z -> list A) (keys_in : list Z) : list A :=
  concat (map chunk (zsort keys_in)).

(* ---- selection: output_dict[parent] set by the worker of `parent` (completion order);
   the caller reads it per parent in the order of its own parent list *)
Definition read_keyed {A} (parents : list Z) (filled : list (Z * A)) : list (option A) :=
  map (fun p => zassoc p (rev filled)) parents.

(* select_all_markers returns {parent: output_dict[parent] for parent in parent_list} (and the log
   the same way): the dict handed to the caller -- whose key order is the order of the entries of
   the query-marker JSON file -- lists the parents in the order of parent_list, whatever the order
   in which the workers filled output_dict; a parent nobody filled is a KeyError (None) *)
Fixpoint selection_result {A} (parents : list Z) (filled : list (Z * A)) : option (list (Z * A)) :=
  match parents with
  | [] => Some []
  | p :: ps =>
      match zassoc p (rev filled), selection_result ps filled with
      | Some v, Some l => Some ((p, v) :: l)
      | _, _ => None
      end
  end.

(* ------------------------------------------------------------------ wire *)
Definition of_record (r : Z * Z) : sx := L [I (fst r); I (snd r)].

(* work given as a table: chunk i -> list of (cell id, payload) *)
Definition table_work (tbl : list (list (Z * Z))) (i : nat) (_ : Z) : list (Z * Z) := nth i tbl [].

Definition sx_rec (x : sx) : option (Z * Z) :=
  match x with L [I a; I b] => Some (a, b) | _ => None end.

(* input: (mode cell_order (chunk tables) names sigma); mode 0 = shared list, 1 = buffer files
   output: option (list (id payload)) *)
Definition run_gather (x : sx) : sx :=
  match x with
  | L [m; co; tb; nm; sg] =>
      match sx_Z m, sx_LZ co, sx_list (sx_list sx_rec) tb, sx_LZ nm, sx_Lnat sg with
      | Some m, Some co, Some tb, Some nm, Some sg =>
          let name := fun i => nth i nm 0%Z in
          let chunk_of_name := fun z =>
            match find (fun i => (nth i nm 0 =? z)%Z) (seq 0 (length nm)) with Some i => i | None => O end in
          let seeds := map (fun _ => 0%Z) tb in      (* one (unused) seed per chunk *)
          let r := if (m =? 0)%Z then final_list Z (table_work tb) co seeds sg
                   else final_files Z (table_work tb) name chunk_of_name co seeds sg in
          sx_ok (of_option (of_list of_record) r)
      | _, _, _, _, _ => sx_bad
      end
  | _ => sx_bad
  end.

(* input: (n p c) -> (effective chunk size, ((r0 r1) ...)) *)
Definition run_chunks (x : sx) : sx :=
  match x with
  | L [n; p; c] =>
      match sx_nat n, sx_nat p, sx_nat c with
      | Some n, Some p, Some c =>
          if ((p =? 0) || (c =? 0))%nat then sx_bad else
          let cs := eff_chunk n p c in
          sx_ok (L [of_nat cs; of_list (fun ch => L [of_nat (fst ch); of_nat (snd ch)]) (chunks n cs)])
      | _, _, _ => sx_bad
      end
  | _ => sx_bad
  end.

(* input: (n k codes durs draws) with the stream given as the list of its draws
   output: (verdict, ((worker seed) ...)) *)
Definition list_draw (s : list Z) : Z * list Z :=
  match s with [] => (0%Z, []) | z :: r => (z, r) end.

Definition run_seeds_sx (x : sx) : sx :=
  match x with
  | L [n; k; cs; ds; st] =>
      match sx_nat n, sx_nat k, sx_LZ cs, sx_Lnat ds, sx_LZ st with
      | Some n, Some k, Some cs, Some ds, Some st =>
          if (negb (length cs =? k)%nat || negb (length ds =? k)%nat || (n =? 0)%nat)%bool then sx_bad else
          let W := {| code := nth_Z cs; dur := nth_N ds |} in
          let r := run_seeds (list Z) list_draw W n k st in
          sx_ok (L [of_pres (fst r); of_list (fun p => L [of_nat (fst p); I (snd p)]) (snd r)])
      | _, _, _, _, _ => sx_bad
      end
  | _ => sx_bad
  end.

(* input: (n p c cell_ids codes durs stream sigma) -> option ((cell id, seed of its chunk) ...) in
   the order of the final result: mapping_result with work_rows r0 r1 seed = the cells of rows
   r0..r1 each paired with the seed *)
Definition run_mapping_result_sx (x : sx) : sx :=
  match x with
  | L [n; p; c; ids; cs; ds; st; sg] =>
      match sx_nat n, sx_nat p, sx_nat c, sx_LZ ids, sx_LZ cs, sx_Lnat ds, sx_LZ st, sx_Lnat sg with
      | Some n, Some p, Some c, Some ids, Some cs, Some ds, Some st, Some sg =>
          let k := length (chunks n (eff_chunk n p c)) in
          if ((p =? 0) || (c =? 0) || negb (length ids =? n) || negb (length cs =? k)
              || negb (length ds =? k))%nat%bool then sx_bad else
          let W := {| code := nth_Z cs; dur := nth_N ds |} in
          let work_rows := fun (r0 r1 : nat) (seed : Z) =>
            map (fun r => (nth r ids (-1)%Z, seed)) (seq r0 (r1 - r0)) in
          sx_ok (of_option (of_list of_record)
                   (mapping_result Z (list Z) list_draw work_rows ids st n p c W sg))
      | _, _, _, _, _, _, _, _ => sx_bad
      end
  | _ => sx_bad
  end.

(* input: (keys_in) -> sorted keys (the merge order of the reference-marker chunks) *)
Definition run_merge_order (x : sx) : sx :=
  match sx_LZ x with
  | Some ks => sx_ok (of_LZ (merge_markers (fun z => [z]) ks))
  | None => sx_bad
  end.

(* input: (parent_list ((parent value) ... in the order in which output_dict was filled))
   output: option ((parent value) ... in the order of the returned dict) *)
Definition run_selection_result (x : sx) : sx :=
  match x with
  | L [ps; fl] =>
      match sx_LZ ps, sx_list sx_rec fl with
      | Some ps, Some fl => sx_ok (of_option (of_list of_record) (selection_result ps fl))
      | _, _ => sx_bad
      end
  | _ => sx_bad
  end.

(* input: (n k codes durs) -> option (the order in which the per-worker partial results are
   folded): stats_result with A = list Z, add = app, partial i = [i], on the world (codes, durs).
   The order is read off the event log of the pool (`starts`); by c04_stats_merge_order_fixed it
   is (0 1 ... k-1) for every clean world *)
Definition run_stats_merge (x : sx) : sx :=
  match x with
  | L [n; k; cs; ds] =>
      match sx_nat n, sx_nat k, sx_LZ cs, sx_Lnat ds with
      | Some n, Some k, Some cs, Some ds =>
          if (negb (length cs =? k)%nat || negb (length ds =? k)%nat || (n =? 0)%nat)%bool then sx_bad else
          let W := {| code := nth_Z cs; dur := nth_N ds |} in
          sx_ok (of_option of_LZ
                   (stats_result (list Z) (@app Z) [] (fun i => [Z.of_nat i]) W n k))
      | _, _, _, _ => sx_bad
      end
  | _ => sx_bad
  end.
