(* Model of the reference-statistics writers:
     utils/stats_utils.py:summary_stats_for_chunk
     diff_exp/precompute_from_anndata.py  (_process_chunk, _process_chunk_spec,
        the work split and buffer merge of _precompute_summary_stats_from_h5ad_and_lookup,
        precompute_summary_stats_from_h5ad_list_and_tree)
     diff_exp/truncate_precompute.py      (_convert_to_new_leaves, truncate_precomputed_stats_file)
     diff_exp/precompute_utils.py         (merge_precompute_files)
   A log2(CPM+1) value is the exact rational v/D (D > 0 a common denominator, the
   harness passes the dyadic value numpy computed); sums are therefore integers
   over D, sums of squares integers over D*D.  Names (cells, clusters, genes,
   paths) are order-preserving integers.  Definitions only. *)
From Coq Require Import ZArith List Bool Arith.
From CTM Require Import Base.Sx Base.SortX Model.Tree.
Import ListNotations.
Open Scope Z_scope.

(* ------------------------------------------------------------------ *)
(* vectors over the genes                                              *)
Fixpoint vadd (a b : list Z) : list Z :=
  match a, b with
  | x :: a', y :: b' => (x + y) :: vadd a' b'
  | _, _ => []
  end.
Definition vzero (ng : nat) : list Z := repeat 0 ng.

(* the dict returned by summary_stats_for_chunk, the six datasets of the file *)
Record summary := mk_summary {
  s_n : Z; s_sum : list Z; s_sumsq : list Z; s_gt0 : list Z; s_gt1 : list Z; s_ge1 : list Z }.

Definition szero (ng : nat) : summary :=
  mk_summary 0 (vzero ng) (vzero ng) (vzero ng) (vzero ng) (vzero ng).
Definition sadd (a b : summary) : summary :=
  mk_summary (s_n a + s_n b) (vadd (s_sum a) (s_sum b)) (vadd (s_sumsq a) (s_sumsq b))
             (vadd (s_gt0 a) (s_gt0 b)) (vadd (s_gt1 a) (s_gt1 b)) (vadd (s_ge1 a) (s_ge1 b)).

(* thresholds exactly as coded: zero_cutoff = 0.0, one_cutoff = 1.0,
   one_cutoff - eps = the binary64 number 1.0 - 1.0e-6 = GE_NUM / GE_DEN *)
Definition GE_NUM : Z := 9007190247541737.
Definition GE_DEN : Z := 9007199254740992.
Definition b2z (b : bool) : Z := if b then 1 else 0.
Definition ind_gt0 (v : Z) : Z := b2z (0 <? v).
Definition ind_gt1 (D v : Z) : Z := b2z (D <? v).
Definition ind_ge1 (D v : Z) : Z := b2z (GE_NUM * D <? v * GE_DEN).
Definition sq (v : Z) : Z := v * v.

(* data.sum(axis=0) *)
Definition colsum (ng : nat) (rows : list (list Z)) : list Z := fold_right vadd (vzero ng) rows.

Definition stats_of_rows (D : Z) (ng : nat) (rows : list (list Z)) : summary :=
  mk_summary (Z.of_nat (length rows))
             (colsum ng rows)
             (colsum ng (map (map sq) rows))
             (colsum ng (map (map ind_gt0) rows))
             (colsum ng (map (map (ind_gt1 D)) rows))
             (colsum ng (map (map (ind_ge1 D)) rows)).

(* ------------------------------------------------------------------ *)
(* tables: one summary per output row                                  *)
Definition table := list summary.
Definition tzero (nc ng : nat) : table := repeat (szero ng) nc.
Fixpoint tadd (a b : table) : table :=
  match a, b with
  | x :: a', y :: b' => sadd x y :: tadd a' b'
  | _, _ => []
  end.

(* errors *)
Inductive res (A : Type) := Ok (a : A) | Err (code : Z).
Arguments Ok {A}. Arguments Err {A}.
Definition E_INDEX := 1.      (* IndexError: work_load[i_worker] / buffer row out of range *)
Definition E_NOWORK := 2.     (* no file holds a cell of the taxonomy: final_output is None *)
Definition E_ROWS := 3.       (* rows_at_a_time = 0: range() step *)
Definition E_ZERODIV := 4.    (* n_processors = 0 *)
Definition E_GENES := 5.      (* files disagree on the gene names *)
Definition E_KEY := 6.        (* KeyError in a lookup *)
Definition E_SAME := 7.       (* truncation: already conforms *)
Definition E_BADLEVEL := 8.   (* truncation: level not in the hierarchy *)
Definition E_SHUFFLE := 9.    (* truncation: levels out of order *)
Definition E_NODROP := 10.    (* truncation: nothing to drop although the lists differ *)
Definition E_TREE := 20.      (* 20 + code of Tree.tres *)
Definition E_MERGE_TREE := 30.
Definition E_MERGE_C2R := 31.
Definition E_MERGE_COLS := 32.
Definition E_MERGE_EMPTY := 33.

Definition bind {A B} (r : res A) (f : A -> res B) : res B :=
  match r with Ok a => f a | Err c => Err c end.

(* ------------------------------------------------------------------ *)
(* cells, files, lookups                                               *)
Definition cell := (Z * list Z)%type.             (* name, expression row *)
Record h5ad := mk_h5ad { f_genes : list Z; f_cells : list cell }.

(* cluster_to_output_row = {c: i for i, c in enumerate(sorted(clusters))} *)
Definition cluster_to_row (clusters : list Z) : list (Z * nat) :=
  combine (zsort clusters) (seq 0 (length clusters)).

(* cell_name_to_cluster_name, in insertion order (a later entry overrides an earlier one) *)
Definition cell_to_cluster (leaf : level) : list (Z * Z) :=
  flat_map (fun nc => map (fun c => (c, fst nc)) (snd nc)) leaf.

(* python dict lookup on an insertion-ordered association list: last write wins *)
Definition dict_get {A} (k : Z) (d : list (Z * A)) : option A := zassoc k (rev d).

(* cell_name_to_output_row; None = KeyError *)
Fixpoint cell_to_row (c2r : list (Z * nat)) (c2c : list (Z * Z)) : option (list (Z * Z)) :=
  match c2c with
  | [] => Some []
  | (c, cl) :: t =>
      match zassoc cl c2r, cell_to_row c2r t with
      | Some r, Some t' => Some ((c, Z.of_nat r) :: t')
      | _, _ => None
      end
  end.

(* ------------------------------------------------------------------ *)
(* _process_chunk                                                      *)
Definition bad_row_idx : Z := -999.

Definition cluster_chunk (lookup : list (Z * Z)) (chunk : list cell) : list Z :=
  map (fun c => match dict_get (fst c) lookup with Some r => r | None => bad_row_idx end) chunk.

(* chunk[0][valid, :] with valid = np.where(cluster_chunk == u) *)
Fixpoint select (u : Z) (cc : list Z) (chunk : list cell) : list (list Z) :=
  match cc, chunk with
  | r :: cc', c :: ch' => if r =? u then snd c :: select u cc' ch' else select u cc' ch'
  | _, _ => []
  end.

(* buffer_dict[k][u] += summary[k] ; None = IndexError *)
Fixpoint upd_add (u : nat) (s : summary) (buf : table) : option table :=
  match buf, u with
  | [], _ => None
  | b :: t, O => Some (sadd b s :: t)
  | b :: t, S k => match upd_add k s t with Some t' => Some (b :: t') | None => None end
  end.

(* np.unique *)
Definition unique_sorted (l : list Z) : list Z := nodup Z.eq_dec (zsort l).

Fixpoint pc_loop (D : Z) (ng : nat) (us cc : list Z) (chunk : list cell) (buf : table) : option table :=
  match us with
  | [] => Some buf
  | u :: t =>
      if u =? bad_row_idx then pc_loop D ng t cc chunk buf
      else if u <? 0 then None
      else match upd_add (Z.to_nat u) (stats_of_rows D ng (select u cc chunk)) buf with
           | Some b' => pc_loop D ng t cc chunk b'
           | None => None
           end
  end.

Definition process_chunk (D : Z) (ng : nat) (lookup : list (Z * Z)) (buf : table) (chunk : list cell)
  : option table :=
  let cc := cluster_chunk lookup chunk in
  pc_loop D ng (unique_sorted cc) cc chunk buf.

(* ------------------------------------------------------------------ *)
(* work split                                                          *)
Definition chunk_spec := (nat * nat * nat)%type.          (* file index, r0, r1 *)
Definition spec_size (c : chunk_spec) : nat := snd c - snd (fst c).

(* for r0 in range(0, n_cells, rows_at_a_time): (path, r0, min(n_cells, r0+rows)) *)
Fixpoint file_chunks (fuel : nat) (fi r0 n rows : nat) : list chunk_spec :=
  match fuel with
  | O => []
  | S f => if (r0 <? n)%nat then (fi, r0, Nat.min n (r0 + rows)) :: file_chunks f fi (r0 + rows) n rows
           else []
  end.

(* files that hold at least one cell of the taxonomy keep their index *)
Definition overlaps (lookup : list (Z * Z)) (f : h5ad) : bool :=
  existsb (fun c => match dict_get (fst c) lookup with Some _ => true | None => false end) (f_cells f).

Fixpoint all_chunks (lookup : list (Z * Z)) (fi : nat) (files : list h5ad) (rows : nat) : list chunk_spec :=
  match files with
  | [] => []
  | f :: t =>
      (if overlaps lookup f then file_chunks (length (f_cells f)) fi 0 (length (f_cells f)) rows else [])
      ++ all_chunks lookup (S fi) t rows
  end.

Definition n_total_cells (lookup : list (Z * Z)) (files : list h5ad) : nat :=
  fold_right (fun f acc => ((if overlaps lookup f then length (f_cells f) else 0) + acc)%nat) 0%nat files.

(* work_load[i_worker].append(c) ; None = IndexError *)
Fixpoint append_at {A} (i : nat) (c : A) (wl : list (list A)) : option (list (list A)) :=
  match wl, i with
  | [], _ => None
  | w :: t, O => Some ((w ++ [c]) :: t)
  | w :: t, S k => match append_at k c t with Some t' => Some (w :: t') | None => None end
  end.

Fixpoint split_loop (n_per : nat) (chunks : list chunk_spec) (i_worker this_n : nat)
         (wl : list (list chunk_spec)) : option (list (list chunk_spec)) :=
  match chunks with
  | [] => Some wl
  | c :: t =>
      match append_at i_worker c wl with
      | None => None
      | Some wl' =>
          let this_n' := (this_n + spec_size c)%nat in
          if (n_per <? this_n')%nat then split_loop n_per t (S i_worker) 0 wl'
          else split_loop n_per t i_worker this_n' wl'
      end
  end.

(* np.ceil(n_total_cells / n_processors) *)
Definition ceil_div (n p : nat) : nat := ((n + p - 1) / p)%nat.

Definition work_split (n_total n_processors : nat) (chunks : list chunk_spec)
  : option (list (list chunk_spec)) :=
  split_loop (ceil_div n_total n_processors) chunks 0 0 (repeat [] n_processors).

Definition drop_empty {A} (wl : list (list A)) : list (list A) := filter (fun w => negb (is_nil w)) wl.

(* ------------------------------------------------------------------ *)
(* _process_chunk_spec: one worker                                     *)
Definition read_chunk (files : list h5ad) (c : chunk_spec) : list cell :=
  let '(fi, r0, r1) := c in
  match nth_error files fi with
  | Some f => firstn (r1 - r0) (skipn r0 (f_cells f))
  | None => []
  end.

Fixpoint worker (D : Z) (ng : nat) (lookup : list (Z * Z)) (files : list h5ad)
         (specs : list chunk_spec) (buf : table) : option table :=
  match specs with
  | [] => Some buf
  | c :: t => match process_chunk D ng lookup buf (read_chunk files c) with
              | Some b' => worker D ng lookup files t b'
              | None => None
              end
  end.

Fixpoint run_workers (D : Z) (nc ng : nat) (lookup : list (Z * Z)) (files : list h5ad)
         (wl : list (list chunk_spec)) : option (list table) :=
  match wl with
  | [] => Some []
  | w :: t => match worker D ng lookup files w (tzero nc ng), run_workers D nc ng lookup files t with
              | Some b, Some bs => Some (b :: bs)
              | _, _ => None
              end
  end.

(* final_output = zeros ; for each buffer: final_output += buffer *)
Definition merge_buffers (nc ng : nat) (bufs : list table) : table := fold_left tadd bufs (tzero nc ng).

Definition genes_agree (files : list h5ad) : bool :=
  match files with
  | [] => true
  | f :: t => forallb (fun g => if list_eq_dec Z.eq_dec (f_genes g) (f_genes f) then true else false) t
  end.

(* precompute_summary_stats_from_h5ad_list_and_tree, numerical part.
   leaf = the leaf level of the taxonomy: cluster |-> cell names *)
Definition precompute (D : Z) (leaf : level) (files : list h5ad) (rows_at_a_time n_processors : nat)
  : res (list (Z * nat) * table) :=
  let clusters := map fst leaf in
  let c2r := cluster_to_row clusters in
  let nc := length clusters in
  match cell_to_row c2r (cell_to_cluster leaf) with
  | None => Err E_KEY
  | Some lookup =>
      if negb (genes_agree files) then Err E_GENES
      else
        let ng := match files with f :: _ => length (f_genes f) | [] => 0%nat end in
        if Nat.eqb n_processors 0 then Err E_ZERODIV
        else if Nat.eqb rows_at_a_time 0 && negb (Nat.eqb (n_total_cells lookup files) 0) then Err E_ROWS
        else
          match work_split (n_total_cells lookup files) n_processors
                           (all_chunks lookup 0 files rows_at_a_time) with
          | None => Err E_INDEX
          | Some wl =>
              match run_workers D nc ng lookup files (drop_empty wl) with
              | None => Err E_INDEX
              | Some [] => Err E_NOWORK
              | Some bufs => Ok (c2r, merge_buffers nc ng bufs)
              end
          end
  end.

(* the property's "direct computation": per output row, the statistics of the
   rows of all cells whose name the lookup sends there *)
Definition members (lookup : list (Z * Z)) (r : Z) (cells : list cell) : list (list Z) :=
  map snd (filter (fun c => match dict_get (fst c) lookup with Some r' => r' =? r | None => false end) cells).
Definition direct (D : Z) (nc ng : nat) (lookup : list (Z * Z)) (cells : list cell) : table :=
  map (fun r => stats_of_rows D ng (members lookup (Z.of_nat r) cells)) (seq 0 nc).

(* ------------------------------------------------------------------ *)
(* _convert_to_new_leaves, on whole summaries (the code does it per dataset) *)
Fixpoint opt_map {A B} (f : A -> option B) (l : list A) : option (list B) :=
  match l with
  | [] => Some []
  | a :: t => match f a, opt_map f t with Some b, Some t' => Some (b :: t') | _, _ => None end
  end.

Fixpoint set_row (u : nat) (s : summary) (buf : table) : option table :=
  match buf, u with
  | [], _ => None
  | _ :: t, O => Some (s :: t)
  | b :: t, S k => match set_row k s t with Some t' => Some (b :: t') | None => None end
  end.

(* data_array[src_rows, :].sum(axis=0) *)
Definition sum_rows (ng : nat) (rows : list summary) : summary := fold_right sadd (szero ng) rows.

Fixpoint convert_loop (ng : nat) (data : table) (old_leaf_to_row new_leaf_to_row : list (Z * nat))
         (groups : list (Z * list Z)) (acc : table) : res table :=
  match groups with
  | [] => Ok acc
  | (new_leaf, olds) :: t =>
      match dict_get new_leaf new_leaf_to_row, opt_map (fun o => dict_get o old_leaf_to_row) olds with
      | Some dst, Some src =>
          match opt_map (fun r => nth_error data r) (map Z.to_nat (zsort (map Z.of_nat src))) with
          | Some rows =>
              match set_row dst (sum_rows ng rows) acc with
              | Some acc' => convert_loop ng data old_leaf_to_row new_leaf_to_row t acc'
              | None => Err E_INDEX
              end
          | None => Err E_INDEX
          end
      | _, _ => Err E_KEY
      end
  end.

Definition convert_to_new_leaves (ng : nat) (data : table) (old_leaf_to_row new_leaf_to_row : list (Z * nat))
           (groups : list (Z * list Z)) : res table :=
  convert_loop ng data old_leaf_to_row new_leaf_to_row groups (tzero (length new_leaf_to_row) ng).

(* new_leaf_to_old_leaves: group the old leaves by their new leaf, first-occurrence order *)
Fixpoint group_add (g : list (Z * list Z)) (k v : Z) : list (Z * list Z) :=
  match g with
  | [] => [(k, [v])]
  | (k', vs) :: t => if k' =? k then (k', vs ++ [v]) :: t else (k', vs) :: group_add t k v
  end.
Fixpoint group_by (anc : Z -> option Z) (olds : list Z) (g : list (Z * list Z)) : option (list (Z * list Z)) :=
  match olds with
  | [] => Some g
  | o :: t => match anc o with Some k => group_by anc t (group_add g k o) | None => None end
  end.

(* truncate_precomputed_stats_file.  Levels are named by their index in the old
   hierarchy; new_hier lists the wanted ones (an index >= the number of levels
   stands for a name that is not a level). *)
Fixpoint index_of (x : nat) (l : list nat) : option nat :=
  match l with
  | [] => None
  | y :: t => if Nat.eqb x y then Some 0%nat else option_map S (index_of x t)
  end.
Definition nat_mem (x : nat) (l : list nat) : bool := existsb (Nat.eqb x) l.
Fixpoint nat_sorted_b (l : list nat) : bool :=
  match l with
  | x :: ((y :: _) as t) => Nat.leb x y && nat_sorted_b t
  | _ => true
  end.

Fixpoint drop_levels (t : tree) (hier : list nat) (to_drop : list nat) : res (tree * list nat) :=
  match to_drop with
  | [] => Ok (t, hier)
  | lv :: rest =>
      match index_of lv hier with
      | None => Err E_BADLEVEL
      | Some pos =>
          let r := if Nat.eqb (S pos) (length hier) then drop_leaf_level t else drop_level t pos in
          match r with
          | TOk t' => drop_levels t' (remove_nth pos hier) rest
          | TErr c => Err (E_TREE + c)
          end
      end
  end.

Definition ancestor_at (t : tree) (lvl : nat) (leaf : Z) : option Z :=
  option_map snd (find (fun a => Nat.eqb (fst a) lvl) (ancestors t (length t - 1) leaf)).

Definition truncate (ng : nat) (old_tree : tree) (new_hier : list nat)
           (old_c2r : list (Z * nat)) (data : table)
  : res (tree * list (Z * nat) * table) :=
  let n := length old_tree in
  let old_hier := seq 0 n in
  if list_eq_dec Nat.eq_dec new_hier old_hier then Err E_SAME
  else if negb (forallb (fun l => nat_mem l old_hier) new_hier) then Err E_BADLEVEL
  else if negb (nat_sorted_b new_hier) then Err E_SHUFFLE
  else
    let to_drop := filter (fun l => negb (nat_mem l new_hier)) old_hier in
    match to_drop with
    | [] => Err E_NODROP
    | _ =>
      bind (drop_levels old_tree old_hier to_drop) (fun th =>
        let '(new_tree, hier') := th in
        let new_leaf_lvl := last hier' 0%nat in
        if Nat.eqb new_leaf_lvl (n - 1) then Ok (new_tree, old_c2r, data)
        else
          let new_leaves := nodes (leaf_level new_tree) in
          let new_c2r := combine new_leaves (seq 0 (length new_leaves)) in
          match group_by (ancestor_at old_tree new_leaf_lvl) (nodes (leaf_level old_tree)) [] with
          | None => Err E_KEY
          | Some groups =>
              bind (convert_to_new_leaves ng data old_c2r new_c2r groups) (fun d => Ok (new_tree, new_c2r, d))
          end)
    end.

(* ------------------------------------------------------------------ *)
(* merge_precompute_files                                              *)
Record pfile := mk_pfile {
  p_path : Z; p_tree : tree; p_c2r : list (Z * nat); p_cols : list Z; p_tab : table }.

Definition total_cells (f : pfile) : Z := fold_right Z.add 0 (map s_n (p_tab f)).

(* sort the files by path (insertion sort, stable) *)
Fixpoint pinsert (x : pfile) (l : list pfile) : list pfile :=
  match l with
  | [] => [x]
  | y :: t => if p_path x <=? p_path y then x :: y :: t else y :: pinsert x t
  end.
Definition psort (l : list pfile) : list pfile := fold_right pinsert [] l.

(* for pth in list: if ntot > most_cells or most_path is None: take it *)
Fixpoint pick_most (l : list pfile) (best : option pfile) : option pfile :=
  match l with
  | [] => best
  | f :: t =>
      match best with
      | None => pick_most t (Some f)
      | Some b => if total_cells b <? total_cells f then pick_most t (Some f) else pick_most t best
      end
  end.

(* rows of src whose n_cells exceed dst's replace them *)
Fixpoint replace_rows (dst src : table) : table :=
  match dst, src with
  | d :: dt, s :: st => (if s_n d <? s_n s then s else d) :: replace_rows dt st
  | _, _ => dst
  end.

Definition c2r_eqb (a b : list (Z * nat)) : bool :=
  if list_eq_dec Z.eq_dec (map fst a) (map fst b) then
    if list_eq_dec Nat.eq_dec (map snd a) (map snd b) then true else false
  else false.
Definition cols_eqb (a b : list Z) : bool := if list_eq_dec Z.eq_dec a b then true else false.

Fixpoint merge_loop (most : pfile) (l : list pfile) (dst : table) : res table :=
  match l with
  | [] => Ok dst
  | f :: t =>
      if p_path f =? p_path most then merge_loop most t dst
      else if negb (c2r_eqb (p_c2r f) (p_c2r most)) then Err E_MERGE_C2R
      else if negb (cols_eqb (p_cols f) (p_cols most)) then Err E_MERGE_COLS
      else if negb (Nat.eqb (length dst) (length (p_tab f))) then Err E_INDEX
      else merge_loop most t (replace_rows dst (p_tab f))
  end.

(* run_leaf_census: same taxonomy everywhere, every leaf has a row *)
Definition census_ok (first : pfile) (f : pfile) : res unit :=
  if negb (is_equal_to (p_tree first) (p_tree f)) then Err E_MERGE_TREE
  else if forallb (fun leaf => match dict_get leaf (p_c2r f) with Some _ => true | None => false end)
                  (nodes (leaf_level (p_tree first))) then Ok tt
  else Err E_KEY.
Fixpoint census (first : pfile) (l : list pfile) : res unit :=
  match l with
  | [] => Ok tt
  | f :: t => bind (census_ok first f) (fun _ => census first t)
  end.

Definition merge_precompute (files : list pfile) : res (pfile * table) :=
  let l := psort files in
  match l with
  | [] => Err E_MERGE_EMPTY
  | first :: _ =>
      bind (census first l) (fun _ =>
        match pick_most l None with
        | None => Err E_MERGE_EMPTY
        | Some most => bind (merge_loop most l (p_tab most)) (fun d => Ok (most, d))
        end)
  end.

(* ------------------------------------------------------------------ *)
(* wire                                                                *)
Definition sx_cell : sx -> option cell := sx_pair sx_Z sx_LZ.
Definition sx_h5ad (x : sx) : option h5ad :=
  match x with
  | L [g; c] => match sx_LZ g, sx_list sx_cell c with
                | Some g', Some c' => Some (mk_h5ad g' c')
                | _, _ => None end
  | _ => None
  end.
Definition of_summary (s : summary) : sx :=
  L [I (s_n s); of_LZ (s_sum s); of_LZ (s_sumsq s); of_LZ (s_gt0 s); of_LZ (s_gt1 s); of_LZ (s_ge1 s)].
Definition sx_summary (x : sx) : option summary :=
  match x with
  | L [n; a; b; c; d; e] =>
      match sx_Z n, sx_LZ a, sx_LZ b, sx_LZ c, sx_LZ d, sx_LZ e with
      | Some n', Some a', Some b', Some c', Some d', Some e' => Some (mk_summary n' a' b' c' d' e')
      | _, _, _, _, _, _ => None
      end
  | _ => None
  end.
Definition of_table (t : table) : sx := of_list of_summary t.
Definition sx_table : sx -> option table := sx_list sx_summary.
Definition of_c2r (l : list (Z * nat)) : sx := of_list (of_pair of_Z of_nat) l.
Definition sx_c2r : sx -> option (list (Z * nat)) := sx_list (sx_pair sx_Z sx_nat).
Definition of_res {A} (f : A -> sx) (r : res A) : sx :=
  match r with Ok a => sx_ok (f a) | Err c => sx_err c end.

(* tag 901: (D leaf files rows_at_a_time n_processors) -> (cluster_to_row table) *)
Definition run_precompute (x : sx) : sx :=
  match x with
  | L [d; lf; fs; r; p] =>
      match sx_Z d, sx_level lf, sx_list sx_h5ad fs, sx_nat r, sx_nat p with
      | Some D, Some leaf, Some files, Some rows, Some np =>
          of_res (fun ct => L [of_c2r (fst ct); of_table (snd ct)]) (precompute D leaf files rows np)
      | _, _, _, _, _ => sx_bad
      end
  | _ => sx_bad
  end.

(* tag 902: (D ng rows) -> stats_of_rows *)
Definition run_stats_of_rows (x : sx) : sx :=
  match x with
  | L [d; g; rows] =>
      match sx_Z d, sx_nat g, sx_LLZ rows with
      | Some D, Some ng, Some rs => sx_ok (of_summary (stats_of_rows D ng rs))
      | _, _, _ => sx_bad
      end
  | _ => sx_bad
  end.

(* tag 903: (n_total n_processors chunks) -> work loads | IndexError *)
Definition sx_spec (x : sx) : option chunk_spec :=
  match x with
  | L [a; b; c] => match sx_nat a, sx_nat b, sx_nat c with
                   | Some a', Some b', Some c' => Some (a', b', c')
                   | _, _, _ => None end
  | _ => None
  end.
Definition of_spec (c : chunk_spec) : sx := L [of_nat (fst (fst c)); of_nat (snd (fst c)); of_nat (snd c)].
Definition run_work_split (x : sx) : sx :=
  match x with
  | L [n; p; cs] =>
      match sx_nat n, sx_nat p, sx_list sx_spec cs with
      | Some n', Some p', Some cs' =>
          if Nat.eqb p' 0 then sx_err E_ZERODIV
          else match work_split n' p' cs' with
               | Some wl => sx_ok (of_list (of_list of_spec) wl)
               | None => sx_err E_INDEX
               end
      | _, _, _ => sx_bad
      end
  | _ => sx_bad
  end.

(* tag 904: (ng tree new_hier c2r table) -> (tree c2r table) *)
Definition run_truncate (x : sx) : sx :=
  match x with
  | L [g; t; h; c; d] =>
      match sx_nat g, sx_tree t, sx_Lnat h, sx_c2r c, sx_table d with
      | Some ng, Some tr, Some nh, Some c2r, Some data =>
          of_res (fun r => L [of_tree (fst (fst r)); of_c2r (snd (fst r)); of_table (snd r)])
                 (truncate ng tr nh c2r data)
      | _, _, _, _, _ => sx_bad
      end
  | _ => sx_bad
  end.

(* tag 905: list of (path tree c2r cols table) -> (path of the base file, table) *)
Definition sx_pfile (x : sx) : option pfile :=
  match x with
  | L [p; t; c; g; d] =>
      match sx_Z p, sx_tree t, sx_c2r c, sx_LZ g, sx_table d with
      | Some p', Some t', Some c', Some g', Some d' => Some (mk_pfile p' t' c' g' d')
      | _, _, _, _, _ => None
      end
  | _ => None
  end.
Definition run_merge (x : sx) : sx :=
  match sx_list sx_pfile x with
  | Some fs => of_res (fun r => L [I (p_path (fst r)); of_table (snd r)]) (merge_precompute fs)
  | None => sx_bad
  end.

(* tag 906: (ng data old_c2r new_c2r groups) -> _convert_to_new_leaves *)
Definition run_convert (x : sx) : sx :=
  match x with
  | L [g; d; o; n; gr] =>
      match sx_nat g, sx_table d, sx_c2r o, sx_c2r n, sx_level gr with
      | Some ng, Some data, Some oc, Some nc, Some groups =>
          of_res of_table (convert_to_new_leaves ng data oc nc groups)
      | _, _, _, _, _ => sx_bad
      end
  | _ => sx_bad
  end.
