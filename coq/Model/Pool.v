(* Pool — the dispatch / drain loop shared by every parallel stage and the two
   exit-code inspectors of utils/multiprocessing_utils.py, as a deterministic
   function of two oracles:

     code : worker -> Z      the exit code the worker will have once terminated
                             (0 normal; raise => 1; os._exit(k) => k mod 256; killed by
                             signal s => -s: see exit_code_of)
     dur  : worker -> nat    the number of polls (calls of winnow) after its start
                             at which the worker is still found running.

   Workers are numbered 0,1,2,... in dispatch order.  `dur` parametrises EVERY
   schedule in which every started worker eventually terminates: the parent only
   ever observes `p.exitcode is None` or not, once per worker per poll, and that
   observation is monotone.  The two `while` loops of the code are busy-wait
   polls; they recurse on explicit fuel and return PHang when it runs out; the
   theorems give a sufficient fuel and prove PHang unreachable.

   Python (election.py / precompute_from_anndata.py / csc_to_csr_parallel.py):

       process_list = []
       for chunk in chunks:
           p = Process(...); p.start(); process_list.append(p)
           while len(process_list) >= n_processors:
               process_list = winnow_process_list(process_list)
       while len(process_list) > 0:
           process_list = winnow_process_list(process_list)

   (markers.py / p_value_mask.py / p_value_markers.py use a dict keyed by the
   first pair index and winnow_process_dict.)  Definitions only. *)
From Coq Require Import ZArith List Bool Lia.
From CTM Require Import Base.Sx.
Import ListNotations.

(* ---- failure modes and their exit codes, as multiprocessing.Process.exitcode reports
   them on POSIX (popen_fork.Popen.poll: os.waitpid, then os.waitstatus_to_exitcode):
     the worker returns                    -> 0
     the target raises                     -> 1      (BaseProcess._bootstrap prints the traceback)
     the worker calls os._exit(k)          -> k mod 256: the kernel keeps the low 8 bits of the
                                              status, so os._exit(256) is reported as 0 and
                                              os._exit(-1) as 255
     the worker is killed by signal s      -> -s     (1 <= s <= 64)                              *)
Inductive fail_mode := NoFail | Raises | Exits (k : Z) | Killed (sig : Z).

Definition exit_code_of (m : fail_mode) : Z :=
  match m with
  | NoFail => 0
  | Raises => 1
  | Exits k => k mod 256
  | Killed s => (- s)
  end%Z.

Record world := { code : nat -> Z; dur : nat -> nat }.

(* a running job: worker id, clock (number of polls so far) at which it started *)
Definition job := (nat * nat)%type.

Definition finished (W : world) (t : nat) (j : job) : bool :=
  (snd j + dur W (fst j) <=? t)%nat.

Inductive wres (A : Type) := WOk (a : A) | WRaise (w : nat) (c : Z).
Arguments WOk {A} a.
Arguments WRaise {A} w c.

(* winnow_process_list:
     to_pop = []
     for ii in range(len(l)-1, -1, -1):
         if l[ii].exitcode is not None:
             to_pop.append(ii)
             if l[ii].exitcode != 0: raise RuntimeError(...)
     for ii in to_pop: l.pop(ii)
   `scan_back` walks the reversed list (= from the last index down), keeping the
   unfinished jobs in their original order. *)
Fixpoint scan_back (W : world) (t : nat) (rl : list job) (keep : list job) : wres (list job) :=
  match rl with
  | [] => WOk keep
  | j :: r =>
      if finished W t j
      then (if (code W (fst j) =? 0)%Z then scan_back W t r keep
            else WRaise (fst j) (code W (fst j)))
      else scan_back W t r (j :: keep)
  end.

Definition winnow_list (W : world) (t : nat) (l : list job) : wres (list job) :=
  scan_back W t (rev l) [].

(* winnow_process_dict:
     for k in list(d.keys()):            # insertion order = dispatch order
         if d[k].exitcode is not None:
             if d[k].exitcode != 0: raise RuntimeError(...)
             d.pop(k) *)
Fixpoint winnow_dict (W : world) (t : nat) (l : list job) : wres (list job) :=
  match l with
  | [] => WOk []
  | j :: r =>
      if finished W t j
      then (if (code W (fst j) =? 0)%Z then winnow_dict W t r
            else WRaise (fst j) (code W (fst j)))
      else match winnow_dict W t r with
           | WOk k => WOk (j :: k)
           | WRaise w c => WRaise w c
           end
  end.

Inductive pres := POk | PRaised (w : nat) (c : Z) | PHang.

(* event log of the parent: 0 = start, 1 = popped after its code was found 0 *)
Inductive pev := EStart (w : nat) | EPop (w : nat).

Definition popped (before after : list job) : list pev :=
  map (fun j => EPop (fst j))
      (filter (fun j => negb (existsb (fun j' => Nat.eqb (fst j) (fst j')) after)) before).

Section WithWinnow.
  Variable winnow : world -> nat -> list job -> wres (list job).

  (* while len(running) >= bound: running = winnow(running) *)
  Fixpoint wait_below (fuel : nat) (W : world) (bound : nat) (running : list job) (t : nat)
           (log : list pev) : (pres * list pev) + (list job * nat * list pev) :=
    if (length running <? bound)%nat then inr (running, t, log) else
    match fuel with
    | O => inl (PHang, log)
    | S f =>
        match winnow W t running with
        | WRaise w c => inl (PRaised w c, log)
        | WOk r' => wait_below f W bound r' (S t) (log ++ popped running r')
        end
    end.

  Fixpoint dispatch_loop (fuel : nat) (W : world) (n : nat) (todo : list nat)
           (running : list job) (t : nat) (log : list pev) : pres * list pev :=
    match todo with
    | [] =>
        (* final drain: while len(running) > 0 *)
        match wait_below fuel W 1 running t log with
        | inl r => r
        | inr (_, _, log') => (POk, log')
        end
    | w :: rest =>
        match wait_below fuel W n (running ++ [(w, t)]) t (log ++ [EStart w]) with
        | inl r => r
        | inr (r', t', log') => dispatch_loop fuel W n rest r' t' log'
        end
    end.
End WithWinnow.

Fixpoint list_max (l : list nat) : nat :=
  match l with [] => O | x :: r => Nat.max x (list_max r) end.

(* fuel sufficient for every single while loop: all durations + 1 *)
Definition pool_fuel (W : world) (k : nat) : nat := S (list_max (map (dur W) (seq 0 k))).

(* k workers, at most n at a time *)
Definition run_pool_list (W : world) (n k : nat) : pres * list pev :=
  dispatch_loop winnow_list (pool_fuel W k) W n (seq 0 k) [] 0 [].
Definition run_pool_dict (W : world) (n k : nat) : pres * list pev :=
  dispatch_loop winnow_dict (pool_fuel W k) W n (seq 0 k) [] 0 [].

(* largest number of workers simultaneously in the parent's list according to a log *)
Fixpoint max_running (log : list pev) (cur best : nat) : nat :=
  match log with
  | [] => best
  | EStart _ :: r => max_running r (S cur) (Nat.max best (S cur))
  | EPop _ :: r => max_running r (Nat.pred cur) best
  end.

(* ---- a stage = things done before the pool, the pool, things done only after a
   clean drain, things done in a `finally` (if the stage has one).  The effects
   are opaque integers chosen by the harness (e.g. "create output file",
   "write taxonomy_tree", "move into place", "remove scratch"). *)
Record stage := { st_pre : list Z; st_post : list Z; st_finally : list Z }.

Definition run_stage (s : stage) (pool : pres) : list Z * bool :=
  match pool with
  | POk => (st_pre s ++ st_post s ++ st_finally s, true)
  | _ => (st_pre s ++ st_finally s, false)
  end.

(* ---- the scheduler of marker_selection/selection_pipeline.py:select_all_markers.
   Parents are numbered; `behemoth p` says whether p is run alone among behemoths;
   `leafless p` parents are completed inline without a process.  One iteration of
   the outer `while len(started) < len(parent_list)` loop. *)
Record sel_state := {
  ss_started : list nat; ss_completed : list nat; ss_running : list job; ss_clock : nat }.

Definition mem (x : nat) (l : list nat) : bool := existsb (Nat.eqb x) l.

Definition first_unstarted (cands started : list nat) : option nat :=
  find (fun p => negb (mem p started)) cands.

Definition behemoth_running (behemoths : list nat) (s : sel_state) : bool :=
  existsb (fun p => mem p (ss_started s) && negb (mem p (ss_completed s))) behemoths.

Definition choose_parent (behemoths smaller : list nat) (s : sel_state) : option nat :=
  match (if behemoth_running behemoths s then None else first_unstarted behemoths (ss_started s)) with
  | Some p => Some p
  | None => first_unstarted smaller (ss_started s)
  end.

(* the two poll loops of select_all_markers.
   track = true:  the inner loop `while len(process_dict) >= n or not have_chosen_parent:`
                  winnow; completed_parents |= popped keys; a pop sets have_chosen_parent
   track = false: the final `while len(process_dict) > 0: process_dict = winnow_process_dict(...)`
                  (called with n = 1, have = true), which does NOT touch completed_parents: the
                  parents popped there are never recorded as completed *)
Fixpoint sel_wait (track : bool) (fuel : nat) (W : world) (n : nat) (have : bool) (s : sel_state)
  : pres + sel_state :=
  if ((length (ss_running s) <? n)%nat && have)%bool then inr s else
  match fuel with
  | O => inl PHang
  | S f =>
      match winnow_dict W (ss_clock s) (ss_running s) with
      | WRaise w c => inl (PRaised w c)
      | WOk r' =>
          let gone := filter (fun p => negb (mem p (map fst r'))) (map fst (ss_running s)) in
          sel_wait track f W n (have || negb (length r' =? length (ss_running s))%nat)
                   {| ss_started := ss_started s;
                      ss_completed := if track then ss_completed s ++ gone else ss_completed s;
                      ss_running := r'; ss_clock := S (ss_clock s) |}
      end
  end.

(* `outer` bounds the iterations of the outer loop, `fuel` the polls of each inner loop, `dfuel`
   the polls of the final drain (dfuel = 0 hands back the state at the exit of the outer loop
   untouched: used to state the pool invariant at every state of the outer loop) *)
Fixpoint sel_loop (outer fuel dfuel : nat) (W : world) (n n_parents : nat) (behemoths smaller leafless : list nat)
         (s : sel_state) : pres * sel_state :=
  if (n_parents <=? length (ss_started s))%nat then
    (* final drain: completed_parents is not updated *)
    match sel_wait false dfuel W 1 true s with
    | inl r => (r, s)
    | inr s' => (POk, s')
    end
  else
  match outer with
  | O => (PHang, s)
  | S o =>
      let s1 :=
        match choose_parent behemoths smaller s with
        | None => (false, s)
        | Some p =>
            if mem p leafless
            then (true, {| ss_started := ss_started s ++ [p]; ss_completed := ss_completed s ++ [p];
                           ss_running := ss_running s; ss_clock := ss_clock s |})
            else (true, {| ss_started := ss_started s ++ [p]; ss_completed := ss_completed s;
                           ss_running := ss_running s ++ [(p, ss_clock s)]; ss_clock := ss_clock s |})
        end in
      match sel_wait true fuel W n (fst s1) (snd s1) with
      | inl r => (r, snd s1)
      | inr s' => sel_loop o fuel dfuel W n n_parents behemoths smaller leafless s'
      end
  end.

Definition run_selection_pool (W : world) (n : nat) (behemoths smaller leafless : list nat) : pres * sel_state :=
  let np := length behemoths + length smaller in
  let f := pool_fuel W (S (list_max (behemoths ++ smaller))) in
  sel_loop (S (2 * np)) f f W n np behemoths smaller leafless
           {| ss_started := []; ss_completed := []; ss_running := []; ss_clock := 0 |}.

(* ---- the six parallel stages as sequences of phases.  A phase = effects done by the
   parent before a pool, then the pool.  A stage continues with the next phase only
   after a clean drain (the inspector raised otherwise and nothing catches it inside
   the stage).  `SComplete` is the one effect after which a LATER STAGE ACCEPTS what is
   at the requested output location (or, for the stages that return an object, the
   return itself):

     statistics   precompute_summary_stats_from_h5ad_and_tree:
                    mkdtemp; [pool]; create output + merged sums (SPayload);
                    finally: _clean_up(tmp_dir); then the `taxonomy_tree` dataset (SComplete)
     markers      find_markers_for_all_taxonomy_pairs:
                    mkdtemp, scratch output file; [pool of pair chunks]; merge (scratch);
                    [transposition pool `up`]; [transposition pool `down`];
                    shutil.move into place (SComplete); _clean_up (not in a finally)
     p-value mask create_p_value_mask_file:
                    mkdtemp; _prep_output_file(dst_path) (SSkeleton: no data/indices/indptr);
                    [pool]; _merge_masks writes data/indices/indptr (SComplete); finally clean
     selection    select_all_markers: [pool]; return dict(output_dict) (SComplete)
     transposition transpose_sparse_matrix_on_disk_v2:
                    mkdtemp; [pool]; create + fill the datasets at output_path (SComplete);
                    finally clean
     mapping      run_type_assignment_on_h5ad_cpu:
                    mkdtemp buffer; [pool]; gather, clean buffer, return (SComplete)  *)
Inductive seff := SScratch | SSkeleton | SPayload | SComplete | SCleanScratch.

Definition seff_eqb (a b : seff) : bool :=
  match a, b with
  | SScratch, SScratch | SSkeleton, SSkeleton | SPayload, SPayload
  | SComplete, SComplete | SCleanScratch, SCleanScratch => true
  | _, _ => false
  end.

Record stage_desc := {
  sd_phases : list (list seff);    (* effects before each pool *)
  sd_post : list seff;             (* after the last clean drain, inside the try *)
  sd_finally : list seff;          (* always *)
  sd_after : list seff             (* after the finally, only when nothing raised *)
}.

Fixpoint run_phases (phs : list (list seff)) (pools : list pres) : list seff * bool :=
  match phs with
  | [] => ([], true)
  | pre :: rest =>
      match pools with
      | POk :: rs => let x := run_phases rest rs in (pre ++ fst x, snd x)
      | _ => (pre, false)          (* raised / hung / no verdict: the stage does not go on *)
      end
  end.

(* `clean_ok` is an oracle: when the inspector raised, the sibling workers are still
   running and still write into the scratch directory that the `finally` block removes
   (utils._clean_up: iterdir, unlink, rmdir); the removal can therefore fail, and the
   exception of the finally block then replaces the inspector's RuntimeError. *)
Inductive raised_by := ENone | EInspector | ECleanup.

Definition run_stage_desc_c (s : stage_desc) (pools : list pres) (clean_ok : bool)
  : list seff * bool * raised_by :=
  let x := run_phases (sd_phases s) pools in
  if snd x then (fst x ++ sd_post s ++ sd_finally s ++ sd_after s, true, ENone)
  else if clean_ok then (fst x ++ sd_finally s, false, EInspector)
  else (fst x ++ filter (fun e => negb (seff_eqb SCleanScratch e)) (sd_finally s), false,
        if existsb (seff_eqb SCleanScratch) (sd_finally s) then ECleanup else EInspector).

Definition run_stage_desc (s : stage_desc) (pools : list pres) : list seff * bool :=
  fst (run_stage_desc_c s pools true).

Definition stats_stage : stage_desc :=
  {| sd_phases := [[SScratch]]; sd_post := [SPayload]; sd_finally := [SCleanScratch]; sd_after := [SComplete] |}.
Definition markers_stage : stage_desc :=
  {| sd_phases := [[SScratch]; [SScratch]; [SScratch]]; sd_post := [SComplete; SCleanScratch];
     sd_finally := []; sd_after := [] |}.
Definition pmask_stage : stage_desc :=
  {| sd_phases := [[SScratch; SSkeleton]]; sd_post := [SComplete]; sd_finally := [SCleanScratch]; sd_after := [] |}.
Definition selection_stage : stage_desc :=
  {| sd_phases := [[]]; sd_post := [SComplete]; sd_finally := []; sd_after := [] |}.
Definition transpose_stage : stage_desc :=
  {| sd_phases := [[SScratch]]; sd_post := [SComplete]; sd_finally := [SCleanScratch]; sd_after := [] |}.
Definition mapping_stage : stage_desc :=
  {| sd_phases := [[SScratch]]; sd_post := [SCleanScratch; SComplete]; sd_finally := []; sd_after := [] |}.

Definition all_stages : list stage_desc :=
  [mapping_stage; stats_stage; markers_stage; pmask_stage; selection_stage; transpose_stage].

(* a pool of a phase: which inspector, the world, the bound, the number of workers *)
Definition pool_spec := (bool * world * nat * nat)%type.
Definition pool_result (p : pool_spec) : pres :=
  let '(variant, W, n, k) := p in
  fst (if variant then run_pool_dict W n k else run_pool_list W n k).

(* ------------------------------------------------------------------ wire *)
Definition nth_Z (l : list Z) (i : nat) : Z := nth i l 0%Z.
Definition nth_N (l : list nat) (i : nat) : nat := nth i l O.

Definition of_pres (r : pres) : sx :=
  match r with
  | POk => L [I 0]
  | PRaised w c => L [I 1; of_nat w; I c]
  | PHang => L [I 2]
  end%Z.
Definition of_pev (e : pev) : sx :=
  match e with EStart w => L [I 0; of_nat w] | EPop w => L [I 1; of_nat w] end%Z.

(* input: (variant n k codes durs); variant 0 = list, 1 = dict.
   output: (result log max_running) *)
Definition run_pool (x : sx) : sx :=
  match x with
  | L [v; n; k; cs; ds] =>
      match sx_Z v, sx_nat n, sx_nat k, sx_LZ cs, sx_Lnat ds with
      | Some v, Some n, Some k, Some cs, Some ds =>
          if (negb (length cs =? k)%nat || negb (length ds =? k)%nat || (n =? 0)%nat)%bool then sx_bad else
          let W := {| code := nth_Z cs; dur := nth_N ds |} in
          let r := if (v =? 0)%Z then run_pool_list W n k else run_pool_dict W n k in
          sx_ok (L [of_pres (fst r); of_list of_pev (snd r); of_nat (max_running (snd r) 0 0)])
      | _, _, _, _, _ => sx_bad
      end
  | _ => sx_bad
  end.

(* input: (pre post finally pool_result_tag) -> (effects completed) *)
Definition run_stage_sx (x : sx) : sx :=
  match x with
  | L [a; b; c; r] =>
      match sx_LZ a, sx_LZ b, sx_LZ c, sx_Z r with
      | Some a, Some b, Some c, Some r =>
          let pr := if (r =? 0)%Z then POk else PRaised 0 r in
          let o := run_stage {| st_pre := a; st_post := b; st_finally := c |} pr in
          sx_ok (L [of_LZ (fst o); of_bool (snd o)])
      | _, _, _, _ => sx_bad
      end
  | _ => sx_bad
  end.

(* input: (n behemoths smaller leafless codes durs) -> (result started completed) *)
Definition run_selection_sx (x : sx) : sx :=
  match x with
  | L [n; bs; ss; ls; cs; ds] =>
      match sx_nat n, sx_Lnat bs, sx_Lnat ss, sx_Lnat ls, sx_LZ cs, sx_Lnat ds with
      | Some n, Some bs, Some ss, Some ls, Some cs, Some ds =>
          if (n =? 0)%nat then sx_bad else
          let W := {| code := nth_Z cs; dur := nth_N ds |} in
          let r := run_selection_pool W n bs ss ls in
          sx_ok (L [of_pres (fst r); of_Lnat (ss_started (snd r)); of_Lnat (ss_completed (snd r))])
      | _, _, _, _, _, _ => sx_bad
      end
  | _ => sx_bad
  end.

(* input: (mode arg) with mode 0 = returns, 1 = raises, 2 = os._exit(arg), 3 = killed by signal arg
   output: the exit code multiprocessing reports *)
Definition run_exit_code_sx (x : sx) : sx :=
  match x with
  | L [m; a] =>
      match sx_Z m, sx_Z a with
      | Some 0%Z, Some _ => sx_ok (I (exit_code_of NoFail))
      | Some 1%Z, Some _ => sx_ok (I (exit_code_of Raises))
      | Some 2%Z, Some a => sx_ok (I (exit_code_of (Exits a)))
      | Some 3%Z, Some a => if ((1 <=? a) && (a <=? 64))%Z then sx_ok (I (exit_code_of (Killed a))) else sx_bad
      | _, _ => sx_bad
      end
  | _ => sx_bad
  end.

Definition seff_tag (e : seff) : Z :=
  match e with SScratch => 0 | SSkeleton => 1 | SPayload => 2 | SComplete => 3 | SCleanScratch => 4 end%Z.

(* input: (stage index in all_stages, (pool verdict ...), clean_ok) with verdict 0 = clean
   drain, anything else = raised.  output: (effect tags, completed, 0 none | 1 inspector | 2 cleanup) *)
Definition run_stage_desc_sx (x : sx) : sx :=
  match x with
  | L [i; rs; ck] =>
      match sx_nat i, sx_LZ rs, sx_bool ck with
      | Some i, Some rs, Some ck =>
          match nth_error all_stages i with
          | Some s =>
              let o := run_stage_desc_c s (map (fun r => if (r =? 0)%Z then POk else PRaised 0 r) rs) ck in
              sx_ok (L [of_LZ (map seff_tag (fst (fst o))); of_bool (snd (fst o));
                        I (match snd o with ENone => 0 | EInspector => 1 | ECleanup => 2 end)%Z])
          | None => sx_bad
          end
      | _, _, _ => sx_bad
      end
  | _ => sx_bad
  end.
