(* RunEffects — cli/from_specified_markers.py:run_mapping as an effect trace.
   The control flow (what is inside `try`, what is in `except`, what is in
   `finally`, where the output dict gets its keys) is transcribed; the work done
   by each step is opaque.  The only nondeterminism is WHERE the run fails: a PAIR
   (`bf : option point`, the step of the body of `try` that raises, if any;
    `ff : option fpoint`, the step of the `finally` block that raises, if any) - audit 4, A2:
   the two are independent (a worker fails AND the log path is a directory) or correlated (a
   missing query file fails the copy step of the body AND read_uns_from_h5ad in `finally`), and
   with a single fail point "the exception of `finally` replaces the one of the body" could not
   be expressed.  A worker failure of the mapping stage is bf = `Some PAssign` (the pool of
   Model/Pool.v raised inside run_type_assignment_on_h5ad).  Definitions only.

   WHAT `raises` MEANS (audit 4, A6): a step that fails raises an instance of a subclass of
   `Exception`.  The clause is `except Exception`: a KeyboardInterrupt or SystemExit raised in the
   body of `try` (BaseException, not Exception) skips the clause - no "an ERROR occurred" in the
   log (no tag 13) - and goes through `finally` all the same.  That case is NOT modelled (the
   harness raises RuntimeError in its faulted workers and drives OSError / RuntimeError at the
   other points); likewise Pool.exit_code_of Raises = 1 is the exit code of a worker that raises
   an Exception subclass (Model/ExitCode.v raise_exit_code: SystemExit(0) gives 0).

     tmp_dir = mkdtemp(dir=config['tmp_dir'], prefix='cell_type_mapper_..')   # if tmp_dir given
     probe output_path / log_path (write 'junk', unlink) when absent
     try:
         tmp_result_dir = mkdtemp(prefix='result_buffer_')
         output = _run_mapping(...)       # copies inputs, marker cache, assignment (pool),
                                          # CSV, obsm; returns dict with `results`
         if summary_metadata_path: output.pop('n_unmapped_genes'); write summary
         log.info("MAPPING FROM SPECIFIED MARKERS RAN SUCCESSFULLY")
     except Exception:
         log.add_msg(traceback); raise
     finally:
         _clean_up_result_buffer(tmp_result_dir)    # on EVERY path (since the repair of F9: before
                                                    # it, the last step of the success path only)
         _clean_up(tmp_dir); log.info("CLEANING UP"); log.write_log(log_path)
         output["config"], output["log"], output["metadata"]
         uns = read_uns_from_h5ad(config["query_path"])      # opens the QUERY file again
         output["gene_identifier_mapping"] when uns has AIBS_CDM_gene_mapping
         write JSON; blob_to_hdf5 (metadata only unless results and taxonomy_tree present)

   EVERY statement of the `finally` block, in order, and whether it can raise
   (from_specified_markers.py:196-228, read again for audit 4, A2):
     196 _clean_up_result_buffer(tmp_result_dir)   ten attempts, OSError swallowed: does not raise
                                                   (anything but OSError is not expected of
                                                   unlink / rmdir / iterdir)
     197 _clean_up(tmp_dir)                        unlink / rmdir of the run's own tmp directory: an
                                                   OSError here propagates (a worker still writing into
                                                   it; not driven: every worker has exited when the
                                                   inspector raises, and the run's files are its own) -
                                                   NOT a fail point of the model (assumption, harness)
     198 log.info("CLEANING UP")                   list append + print: does not raise
     200 log.write_log(log_path)                   open(log_path, 'a'): OSError    -> PLogFile
     202-210 output["config"/"log"/"metadata"]     deepcopy, sanitize_paths, get_execution_metadata
                                                   (time, path arithmetic, no file access): do not raise
     213 read_uns_from_h5ad(config["query_path"])  h5py open of the QUERY file: OSError when it is
                                                   absent / a directory / not HDF5 -> PReadUns
                                                   (UNCONDITIONAL: not guarded by any option)
     217 open(output_path, "w"); json.dumps(clean_for_json(output))            -> PJson
     225 blob_to_hdf5(output, hdf5_output_path)                                -> PHdf5
   Fail points inside `finally` (audit 3, item 13; PReadUns added by audit 4): PLogFile, PReadUns,
   PJson, PHdf5.  output_path and log_path are probed before `try` - but only when they do NOT
   exist: an existing DIRECTORY passes -, hdf5_output_path is not probed at all, the query file is
   validated inside the body (PCopy).  An exception raised in `finally` propagates from there: the
   remaining steps of the block are skipped, nothing more is added to the log, there is no re-raise
   of an earlier exception (FailFinally, tag 20, ends the trace); if the body had raised, that
   exception is replaced by the one of `finally` and survives only as its __context__
   (`propagated` below: ExFin p (Some q)).
   With a query file that is absent or a directory the copy step raises (bf = Some PCopy) AND
   read_uns_from_h5ad raises (ff = Some PReadUns): the real run writes the log file only. *)
From Coq Require Import ZArith List Bool.
From CTM Require Import Base.Sx Model.Pool.
Import ListNotations.

Inductive key := KResults | KMarkerGenes | KTaxonomyTree | KNUnmapped
               | KConfig | KLog | KMetadata | KGeneMapping.

Definition key_eqb (a b : key) : bool :=
  match a, b with
  | KResults, KResults | KMarkerGenes, KMarkerGenes | KTaxonomyTree, KTaxonomyTree
  | KNUnmapped, KNUnmapped | KConfig, KConfig | KLog, KLog | KMetadata, KMetadata
  | KGeneMapping, KGeneMapping => true
  | _, _ => false
  end.
Definition has_key (k : key) (l : list key) : bool := existsb (key_eqb k) l.

(* points at which the run can fail, in program order *)
Inductive point := PCopy | PMarkerCache | PAssign | PCsv | PObsm | PSummary.    (* body of `try` *)
Inductive fpoint := PLogFile | PReadUns | PJson | PHdf5.                        (* inside `finally` *)

Definition point_eqb (a b : point) : bool :=
  match a, b with
  | PCopy, PCopy | PMarkerCache, PMarkerCache | PAssign, PAssign | PCsv, PCsv
  | PObsm, PObsm | PSummary, PSummary => true
  | _, _ => false
  end.
Definition fpoint_eqb (a b : fpoint) : bool :=
  match a, b with
  | PLogFile, PLogFile | PReadUns, PReadUns | PJson, PJson | PHdf5, PHdf5 => true
  | _, _ => false
  end.

Inductive eff :=
| MkTmp | ProbeOutputs | MkResultBuf
| CopyInputs | MarkerCache | Assign | WriteCsv | AppendObsm       (* inside _run_mapping *)
| WriteSummary | CleanResultBuf | LogSuccess
| Fail (p : point)                                                 (* the step at p raised *)
| FailFinally (p : fpoint)                                         (* the step at p, inside `finally`, raised *)
| LogTraceback
| CleanTmp | LogCleaning | WriteLogFile
| ReadUns                                                          (* read_uns_from_h5ad(query_path) in `finally` *)
| WriteJson (keys : list key)
| WriteHdf5 (meta_keys : list key) (with_results : bool)
| Reraise.

Record cfg := {
  has_tmp : bool;        (* config['tmp_dir'] is not None *)
  has_csv : bool;        (* csv_result_path is not None *)
  has_obsm : bool;       (* obsm_key *)
  has_summary : bool;    (* summary_metadata_path is not None *)
  has_log_path : bool;
  has_json : bool;       (* output_path is not None *)
  has_hdf5 : bool;
  has_gene_map : bool    (* query uns has AIBS_CDM_gene_mapping *)
}.

Definition fails_at (fail : option point) (p : point) : bool :=
  match fail with Some q => point_eqb p q | None => false end.
Definition ffails_at (fail : option fpoint) (p : fpoint) : bool :=
  match fail with Some q => fpoint_eqb p q | None => false end.

(* run the steps in order; a step that is enabled and is the failing point raises *)
Fixpoint run_steps (fail : option point) (steps : list (point * bool * eff)) : list eff * bool :=
  match steps with
  | [] => ([], true)
  | (p, enabled, e) :: rest =>
      if enabled then
        if fails_at fail p then ([Fail p], false)
        else let r := run_steps fail rest in (e :: fst r, snd r)
      else run_steps fail rest
  end.

(* _run_mapping: returns the effects and the dict it returns (None when it raised) *)
Definition inner (c : cfg) (fail : option point) : list eff * option (list key) :=
  let r := run_steps fail
             [ (PCopy, true, CopyInputs); (PMarkerCache, true, MarkerCache); (PAssign, true, Assign);
               (PCsv, has_csv c, WriteCsv); (PObsm, has_obsm c, AppendObsm) ] in
  (fst r, if snd r then Some [KResults; KMarkerGenes; KTaxonomyTree; KNUnmapped] else None).

Definition remove_key (k : key) (l : list key) : list key := filter (fun x => negb (key_eqb k x)) l.

(* the body of `try`: effects, the value of `output` afterwards, raised? *)
Definition try_body (c : cfg) (fail : option point) : list eff * list key * bool :=
  let i := inner c fail in
  match snd i with
  | None => (MkResultBuf :: fst i, [], true)            (* output stays the empty dict *)
  | Some out =>
      if has_summary c then
        if fails_at fail PSummary
        then (MkResultBuf :: fst i ++ [Fail PSummary], remove_key KNUnmapped out, true)
        else (MkResultBuf :: fst i ++ [WriteSummary; LogSuccess],
              remove_key KNUnmapped out, false)
      else (MkResultBuf :: fst i ++ [LogSuccess], out, false)
  end.

Definition opt (b : bool) (e : eff) : list eff := if b then [e] else [].

(* the steps of `finally` that can raise, in order; a step that is enabled and is the failing
   point raises and the rest of the block is skipped *)
Fixpoint run_fin_steps (fail : option fpoint) (steps : list (fpoint * bool * eff)) : list eff * bool :=
  match steps with
  | [] => ([], true)
  | (p, enabled, e) :: rest =>
      if enabled then
        if ffails_at fail p then ([FailFinally p], false)
        else let r := run_fin_steps fail rest in (e :: fst r, snd r)
      else run_fin_steps fail rest
  end.

(* the `finally` block: effects, completed? *)
Definition finally_part (c : cfg) (fail : option fpoint) (output : list key) : list eff * bool :=
  let keys := output ++ [KConfig; KLog; KMetadata] ++ (if has_gene_map c then [KGeneMapping] else []) in
  let r := run_fin_steps fail
             [ (PLogFile, has_log_path c, WriteLogFile);
               (PReadUns, true, ReadUns);
               (PJson, has_json c, WriteJson keys);
               (PHdf5, has_hdf5 c, WriteHdf5 (remove_key KResults keys)
                                             (has_key KTaxonomyTree keys && has_key KResults keys)) ] in
  ([CleanResultBuf] ++ opt (has_tmp c) CleanTmp ++ [LogCleaning] ++ fst r, snd r).

(* the step of `finally` at p is executed under configuration c *)
Definition fin_enabled (c : cfg) (p : fpoint) : bool :=
  match p with PLogFile => has_log_path c | PReadUns => true | PJson => has_json c | PHdf5 => has_hdf5 c end.
(* no step of `finally` raises: ff is None or names a step that is not executed under c *)
Definition fin_quiet (c : cfg) (ff : option fpoint) : bool :=
  match ff with None => true | Some p => negb (fin_enabled c p) end.

(* the body of `try` raised (the `except` clause ran) *)
Definition body_raised (c : cfg) (fail : option point) : bool := snd (try_body c fail).

Definition run_mapping (c : cfg) (fail : option point) (ff : option fpoint) : list eff * bool :=
  let '(body, output, raised) := try_body c fail in
  let f := finally_part c ff output in
  (opt (has_tmp c) MkTmp ++ [ProbeOutputs] ++ body ++
   (if raised then [LogTraceback] else []) ++
   fst f ++
   (if raised && snd f then [Reraise] else []),
   raised || negb (snd f)).

(* what the harness can observe of a trace *)
Definition eff_tag (e : eff) : Z :=
  match e with
  | MkTmp => 1 | ProbeOutputs => 2 | MkResultBuf => 3 | CopyInputs => 4 | MarkerCache => 5
  | Assign => 6 | WriteCsv => 7 | AppendObsm => 8 | WriteSummary => 9 | CleanResultBuf => 10
  | LogSuccess => 11 | Fail _ => 12 | LogTraceback => 13 | CleanTmp => 14 | LogCleaning => 15
  | WriteLogFile => 16 | WriteJson _ => 17 | WriteHdf5 _ _ => 18 | Reraise => 19
  | FailFinally _ => 20 | ReadUns => 21
  end%Z.
Definition has_eff (t : Z) (tr : list eff) : bool := existsb (fun e => (eff_tag e =? t)%Z) tr.

Definition key_tag (k : key) : Z :=
  match k with
  | KResults => 0 | KMarkerGenes => 1 | KTaxonomyTree => 2 | KNUnmapped => 3
  | KConfig => 4 | KLog => 5 | KMetadata => 6 | KGeneMapping => 7
  end%Z.

Definition json_keys (tr : list eff) : option (list key) :=
  match find (fun e => (eff_tag e =? 17)%Z) tr with Some (WriteJson ks) => Some ks | _ => None end.
Definition hdf5_obs (tr : list eff) : option (list key * bool) :=
  match find (fun e => (eff_tag e =? 18)%Z) tr with Some (WriteHdf5 ks b) => Some (ks, b) | _ => None end.

(* the exception the caller of run_mapping sees.  ExBody p: the exception of the step p of the
   body, logged by the `except` clause and re-raised AFTER `finally` completed.  ExFin p ctx: the
   exception of the step p of `finally`; when the body had raised at q (ctx = Some q) that
   exception is REPLACED: it is no longer what the caller sees and survives only as the
   __context__ of the new one (Python sets __context__ when an exception is raised while another
   is being handled / propagated) *)
Inductive exc := ExNone | ExBody (p : point) | ExFin (p : fpoint) (ctx : option point).
Definition failed_body (tr : list eff) : option point :=
  match find (fun e => (eff_tag e =? 12)%Z) tr with Some (Fail p) => Some p | _ => None end.
Definition failed_fin (tr : list eff) : option fpoint :=
  match find (fun e => (eff_tag e =? 20)%Z) tr with Some (FailFinally p) => Some p | _ => None end.
Definition propagated_trace (tr : list eff) : exc :=
  match failed_fin tr with
  | Some p => ExFin p (failed_body tr)
  | None => match failed_body tr with Some q => ExBody q | None => ExNone end
  end.
Definition propagated (c : cfg) (bf : option point) (ff : option fpoint) : exc :=
  propagated_trace (fst (run_mapping c bf ff)).

(* position of the first effect with a given tag *)
Fixpoint index_of (t : Z) (tr : list eff) : option nat :=
  match tr with
  | [] => None
  | e :: r => if (eff_tag e =? t)%Z then Some O
              else match index_of t r with Some i => Some (S i) | None => None end
  end.

(* a worker failure of the mapping stage: the pool of Model/Pool.v did not drain cleanly,
   the inspector raised inside run_type_assignment_on_h5ad, i.e. the step `Assign` raised *)
Definition assign_fail (r : pres) : option point :=
  match r with POk => None | _ => Some PAssign end.

(* the keys the finally block adds *)
Definition finally_keys (c : cfg) : list key :=
  [KConfig; KLog; KMetadata] ++ (if has_gene_map c then [KGeneMapping] else []).

(* does the first effect tagged a come strictly before the first effect tagged b (both present)? *)
Definition before (a b : Z) (tr : list eff) : bool :=
  match index_of a tr, index_of b tr with Some i, Some j => (i <? j)%nat | _, _ => false end.

(* the result buffer directory made at the top of `try` is removed again, in the `finally`
   block: after whatever failed (Fail) and after the traceback went to the log, before the
   run's own tmp directory is removed and before anything is written at the outputs *)
Definition buffer_cleaned_trace (c : cfg) (tr : list eff) : bool :=
  before 3 10 tr &&
  implb (has_eff 12 tr) (before 12 10 tr && before 13 10 tr) &&
  implb (has_tmp c) (before 10 14 tr) &&
  before 10 15 tr &&
  implb (has_eff 16 tr) (before 10 16 tr) && implb (has_eff 17 tr) (before 10 17 tr) &&
  implb (has_eff 18 tr) (before 10 18 tr) && implb (has_eff 19 tr) (before 10 19 tr).
Definition buffer_cleaned (c : cfg) (fail : option point) (ff : option fpoint) : bool :=
  buffer_cleaned_trace c (fst (run_mapping c fail ff)).

(* ---- executable statements of C14 on an effect trace (also evaluated by the harness on
   the effects OBSERVED on the real run_mapping) *)
(* the clauses of the property itself: the call raises; no success message; no result
   records (JSON / HDF5 hold only what the finally block adds); the log file is written (when
   a path was given) and holds the traceback, i.e. it is written after the traceback was added *)
Definition prop_trace_ok (c : cfg) (tr : list eff) (raised : bool) : bool :=
  raised &&
  negb (has_eff 11 tr) &&
  (implb (has_log_path c) (has_eff 16 tr)) &&
  (match index_of 13 tr, index_of 16 tr with
   | Some i, Some j => (i <? j)%nat | _, None => true | None, Some _ => false end) &&
  (match json_keys tr with
   | Some ks => negb (has_key KResults ks) && forallb (fun k => has_key k (finally_keys c)) ks
   | None => true end) &&
  (match hdf5_obs tr with
   | Some (ks, b) => negb b && negb (has_key KResults ks) && forallb (fun k => has_key k (finally_keys c)) ks
   | None => true end).

(* what holds whenever _run_mapping raised, wherever it did: the property's clauses and the
   rest of the shape of a failed run *)
Definition failed_trace_ok (c : cfg) (tr : list eff) (raised : bool) : bool :=
  prop_trace_ok c tr raised &&
  has_eff 19 tr &&                                      (* Reraise is the last thing *)
  buffer_cleaned_trace c tr &&                          (* result buffer removed, in `finally` (C19) *)
  has_eff 13 tr &&                                      (* traceback added to the log *)
  (match json_keys tr with                              (* JSON written iff requested, all keys *)
   | Some ks => has_json c && forallb (fun k => has_key k ks) (finally_keys c)
   | None => negb (has_json c) end) &&
  (match hdf5_obs tr with                               (* HDF5 written iff requested *)
   | Some (ks, b) => has_hdf5 c && forallb (fun k => has_key k ks) (finally_keys c)
   | None => negb (has_hdf5 c) end) &&
  (implb (has_tmp c) (has_eff 14 tr)).                  (* tmp dir removed *)

Definition failed_run_ok (c : cfg) (fail : option point) (ff : option fpoint) : bool :=
  let r := run_mapping c fail ff in failed_trace_ok c (fst r) (snd r).

(* the CSV is not written when the run fails at or before the assignment *)
Definition no_csv_trace (tr : list eff) : bool := negb (has_eff 7 tr).
Definition no_csv (c : cfg) (fail : option point) (ff : option fpoint) : bool :=
  no_csv_trace (fst (run_mapping c fail ff)).

(* success path, for contrast (and so that the statement above is not vacuous) *)
Definition clean_trace_ok (c : cfg) (tr : list eff) (raised : bool) : bool :=
  negb raised && has_eff 11 tr && negb (has_eff 13 tr) && negb (has_eff 19 tr) &&
  buffer_cleaned_trace c tr && before 11 10 tr &&
  implb (has_csv c) (has_eff 7 tr) &&
  (match json_keys tr with Some ks => has_key KResults ks | None => negb (has_json c) end) &&
  (match hdf5_obs tr with Some (_, b) => b | None => negb (has_hdf5 c) end).
Definition clean_run_ok (c : cfg) : bool :=
  let r := run_mapping c None None in clean_trace_ok c (fst r) (snd r).

(* a failure inside `finally` after the body of `try` succeeded: the call raises although the
   success message is in the log; no traceback is added to the log, nothing is re-raised; the
   result buffer and the tmp directory were removed before; everything the body does - CSV,
   obsm, summary - was done *)
Definition finally_failed_trace (c : cfg) (tr : list eff) (raised : bool) : bool :=
  raised && has_eff 20 tr && has_eff 11 tr && before 11 20 tr &&
  negb (has_eff 12 tr) && negb (has_eff 13 tr) && negb (has_eff 19 tr) &&
  before 10 20 tr && implb (has_tmp c) (before 14 20 tr) && before 15 20 tr &&
  implb (has_csv c) (has_eff 7 tr) && implb (has_obsm c) (has_eff 8 tr) &&
  implb (has_summary c) (has_eff 9 tr).

(* a failure of the body AND a failure inside `finally` (audit 4, A2b): the call raises; the
   `except` clause ran (traceback added to the in-memory log, tag 13) but nothing is re-raised (no
   19): the trace ends at the failing step of `finally` (20); no success message; buffer and tmp
   directory removed before.  What reaches the disk depends on WHICH step of `finally` failed:
   the log file is written iff a log path was given and the failing step comes after it
   (ff <> PLogFile); the JSON iff requested and the failing step is the HDF5 write; never an HDF5.
   (The JSON holds no `results` when _run_mapping raised; after a failure of the summary step,
   bf = PSummary, `output` had been assigned and the JSON does hold them - as without ff.) *)
Definition double_failed_trace (c : cfg) (ff : fpoint) (tr : list eff) (raised : bool) : bool :=
  raised && has_eff 12 tr && has_eff 13 tr && has_eff 20 tr && negb (has_eff 19 tr) && negb (has_eff 11 tr) &&
  before 12 13 tr && before 13 10 tr && before 10 20 tr && implb (has_tmp c) (before 14 20 tr) &&
  Bool.eqb (has_eff 16 tr) (has_log_path c && negb (fpoint_eqb ff PLogFile)) &&
  Bool.eqb (has_eff 17 tr) (has_json c && fpoint_eqb ff PHdf5) &&
  negb (has_eff 18 tr).

(* ------------------------------------------------------------------ wire *)
Definition point_of (z : Z) : option point :=
  match z with
  | 1 => Some PCopy | 2 => Some PMarkerCache | 3 => Some PAssign | 4 => Some PCsv
  | 5 => Some PObsm | 6 => Some PSummary | _ => None
  end%Z.
Definition fpoint_of (z : Z) : option fpoint :=
  match z with
  | 7 => Some PLogFile | 8 => Some PJson | 9 => Some PHdf5 | 10 => Some PReadUns | _ => None
  end%Z.
Definition point_tag (p : point) : Z :=
  match p with PCopy => 1 | PMarkerCache => 2 | PAssign => 3 | PCsv => 4 | PObsm => 5 | PSummary => 6 end%Z.
Definition fpoint_tag (p : fpoint) : Z :=
  match p with PLogFile => 7 | PJson => 8 | PHdf5 => 9 | PReadUns => 10 end%Z.
(* (kind, point, context): kind 0 none / 1 body re-raised / 2 raised in `finally`; 0 = no point *)
Definition exc_sx (e : exc) : sx :=
  match e with
  | ExNone => of_LZ [0; 0; 0]
  | ExBody p => of_LZ [1; point_tag p; 0]
  | ExFin p ctx => of_LZ [2; fpoint_tag p; match ctx with Some q => point_tag q | None => 0 end]
  end%Z.

(* input: ((tmp csv obsm summary log json hdf5 genemap) bf ff) with bf = 0 / ff = 0 for none
   (bf in 1..6, ff in 7..10).
   output: (raised, effect tags, json keys | (), hdf5 (meta keys, with_results) | (),
            (kind point context) of the propagated exception) *)
Definition run_mapping_sx (x : sx) : sx :=
  match x with
  | L [L [a; b; c; d; e; f; g; h]; fl; ffl] =>
      match sx_bool a, sx_bool b, sx_bool c, sx_bool d, sx_bool e, sx_bool f, sx_bool g, sx_bool h, sx_Z fl, sx_Z ffl with
      | Some a, Some b, Some c, Some d, Some e, Some f, Some g, Some h, Some fl, Some ffl =>
          let cf := {| has_tmp := a; has_csv := b; has_obsm := c; has_summary := d; has_log_path := e;
                       has_json := f; has_hdf5 := g; has_gene_map := h |} in
          let r := run_mapping cf (point_of fl) (fpoint_of ffl) in
          sx_ok (L [of_bool (snd r); of_LZ (map eff_tag (fst r));
                    of_option (fun ks => of_LZ (map key_tag ks)) (json_keys (fst r));
                    of_option (fun p => L [of_LZ (map key_tag (fst p)); of_bool (snd p)]) (hdf5_obs (fst r));
                    exc_sx (propagated_trace (fst r))])
      | _, _, _, _, _, _, _, _, _, _ => sx_bad
      end
  | _ => sx_bad
  end.

(* the property's own statement evaluated on an OBSERVED trace.
   input: ((tmp csv obsm summary log json hdf5 genemap) raised (effect tags)
           (json key tags) | ()  ((hdf5 key tags) with_results) | ())
   output: (prop_trace_ok, failed_trace_ok, no_csv_trace, clean_trace_ok,
            finally_failed_trace, (double_failed_trace for ff = PLogFile, PJson, PHdf5, PReadUns)) *)
Definition key_of (z : Z) : option key :=
  match z with
  | 0 => Some KResults | 1 => Some KMarkerGenes | 2 => Some KTaxonomyTree | 3 => Some KNUnmapped
  | 4 => Some KConfig | 5 => Some KLog | 6 => Some KMetadata | 7 => Some KGeneMapping | _ => None
  end%Z.
Definition keys_of (l : list Z) : option (list key) := opt_all (map key_of l).

Definition eff_of (jk : list key) (hk : list key * bool) (t : Z) : option eff :=
  match t with
  | 1 => Some MkTmp | 2 => Some ProbeOutputs | 3 => Some MkResultBuf | 4 => Some CopyInputs
  | 5 => Some MarkerCache | 6 => Some Assign | 7 => Some WriteCsv | 8 => Some AppendObsm
  | 9 => Some WriteSummary | 10 => Some CleanResultBuf | 11 => Some LogSuccess
  | 12 => Some (Fail PAssign) | 13 => Some LogTraceback | 14 => Some CleanTmp | 15 => Some LogCleaning
  | 16 => Some WriteLogFile | 17 => Some (WriteJson jk) | 18 => Some (WriteHdf5 (fst hk) (snd hk))
  | 19 => Some Reraise | 20 => Some (FailFinally PHdf5) | 21 => Some ReadUns | _ => None
  end%Z.

Definition check_trace_sx (x : sx) : sx :=
  match x with
  | L [L [a; b; c; d; e; f; g; h]; rs; tags; jk; hk] =>
      match sx_bool a, sx_bool b, sx_bool c, sx_bool d, sx_bool e, sx_bool f, sx_bool g, sx_bool h with
      | Some a, Some b, Some c, Some d, Some e, Some f, Some g, Some h =>
          let cf := {| has_tmp := a; has_csv := b; has_obsm := c; has_summary := d; has_log_path := e;
                       has_json := f; has_hdf5 := g; has_gene_map := h |} in
          let jk' := match sx_LZ jk with Some l => keys_of l | None => None end in
          let hk' := match hk with
                     | L [ks; bb] => match sx_LZ ks, sx_bool bb with
                                     | Some l, Some bb => match keys_of l with Some ks => Some (ks, bb) | None => None end
                                     | _, _ => None end
                     | _ => Some ([], false) end in
          match sx_bool rs, sx_LZ tags, jk', hk' with
          | Some rs, Some tags, Some jk', Some hk' =>
              match opt_all (map (eff_of jk' hk') tags) with
              | Some tr => sx_ok (L [of_bool (prop_trace_ok cf tr rs); of_bool (failed_trace_ok cf tr rs); of_bool (no_csv_trace tr);
                                     of_bool (clean_trace_ok cf tr rs); of_bool (finally_failed_trace cf tr rs);
                                     L (map (fun p => of_bool (double_failed_trace cf p tr rs)) [PLogFile; PJson; PHdf5; PReadUns])])
              | None => sx_bad
              end
          | _, _, _, _ => sx_bad
          end
      | _, _, _, _, _, _, _, _ => sx_bad
      end
  | _ => sx_bad
  end.
