(* RunEffects — cli/from_specified_markers.py:run_mapping as an effect trace.
   The control flow (what is inside `try`, what is in `except`, what is in
   `finally`, where the output dict gets its keys) is transcribed; the work done
   by each step is opaque.  The only nondeterminism is WHERE the run fails
   (`fail : option point`); a worker failure of the mapping stage is
   `Some PAssign` (the pool of Model/Pool.v raised inside
   run_type_assignment_on_h5ad).  Definitions only.

     tmp_dir = mkdtemp(dir=config['tmp_dir'], prefix='cell_type_mapper_..')   # if tmp_dir given
     probe output_path / log_path (write 'junk', unlink) when absent
     try:
         tmp_result_dir = mkdtemp(prefix='result_buffer_')
         output = _run_mapping(...)       # copies inputs, marker cache, assignment (pool),
                                          # CSV, obsm; returns dict with `results`
         if summary_metadata_path: output.pop('n_unmapped_genes'); write summary
         _clean_up(tmp_result_dir)
         log.info("MAPPING FROM SPECIFIED MARKERS RAN SUCCESSFULLY")
     except Exception:
         log.add_msg(traceback); raise
     finally:
         _clean_up(tmp_dir); log.info("CLEANING UP"); log.write_log(log_path)
         output["config"], output["log"], output["metadata"] (, gene_identifier_mapping)
         write JSON; blob_to_hdf5 (metadata only unless results and taxonomy_tree present) *)
From Coq Require Import ZArith List Bool.
From CTM Require Import Base.Sx.
Import ListNotations.

Inductive key := KResults | KMarkerGenes | KTaxonomyTree | KNUnmapped
               | KConfig | KLog | KMetadata | KGeneMapping.

Definition key_eqb (a b : key) : bool :=
  match a, b with
  | KResults, KResults | KMarkerGenes, KMarkerGenes | KTaxonomyTree, KTaxonomyTree
  | KNUnmapped, KNUnmapped | KConfig, KConfig | KLog, KLog | KMetadata, KMetadata
  | KGeneMapping, KGeneMapping => true
  | _, _ => false
  end.
Definition has_key (k : key) (l : list key) : bool := existsb (key_eqb k) l.

(* points at which the run can fail, in program order *)
Inductive point := PCopy | PMarkerCache | PAssign | PCsv | PObsm | PSummary.

Definition point_eqb (a b : point) : bool :=
  match a, b with
  | PCopy, PCopy | PMarkerCache, PMarkerCache | PAssign, PAssign | PCsv, PCsv
  | PObsm, PObsm | PSummary, PSummary => true
  | _, _ => false
  end.

Inductive eff :=
| MkTmp | ProbeOutputs | MkResultBuf
| CopyInputs | MarkerCache | Assign | WriteCsv | AppendObsm       (* inside _run_mapping *)
| WriteSummary | CleanResultBuf | LogSuccess
| Fail (p : point)                                                 (* the step at p raised *)
| LogTraceback
| CleanTmp | LogCleaning | WriteLogFile
| WriteJson (keys : list key)
| WriteHdf5 (meta_keys : list key) (with_results : bool)
| Reraise.

Record cfg := {
  has_tmp : bool;        (* config['tmp_dir'] is not None *)
  has_csv : bool;        (* csv_result_path is not None *)
  has_obsm : bool;       (* obsm_key *)
  has_summary : bool;    (* summary_metadata_path is not None *)
  has_log_path : bool;
  has_json : bool;       (* output_path is not None *)
  has_hdf5 : bool;
  has_gene_map : bool    (* query uns has AIBS_CDM_gene_mapping *)
}.

Definition fails_at (fail : option point) (p : point) : bool :=
  match fail with Some q => point_eqb p q | None => false end.

(* run the steps in order; a step that is enabled and is the failing point raises *)
Fixpoint run_steps (fail : option point) (steps : list (point * bool * eff)) : list eff * bool :=
  match steps with
  | [] => ([], true)
  | (p, enabled, e) :: rest =>
      if enabled then
        if fails_at fail p then ([Fail p], false)
        else let r := run_steps fail rest in (e :: fst r, snd r)
      else run_steps fail rest
  end.

(* _run_mapping: returns the effects and the dict it returns (None when it raised) *)
Definition inner (c : cfg) (fail : option point) : list eff * option (list key) :=
  let r := run_steps fail
             [ (PCopy, true, CopyInputs); (PMarkerCache, true, MarkerCache); (PAssign, true, Assign);
               (PCsv, has_csv c, WriteCsv); (PObsm, has_obsm c, AppendObsm) ] in
  (fst r, if snd r then Some [KResults; KMarkerGenes; KTaxonomyTree; KNUnmapped] else None).

Definition remove_key (k : key) (l : list key) : list key := filter (fun x => negb (key_eqb k x)) l.

(* the body of `try`: effects, the value of `output` afterwards, raised? *)
Definition try_body (c : cfg) (fail : option point) : list eff * list key * bool :=
  let i := inner c fail in
  match snd i with
  | None => (MkResultBuf :: fst i, [], true)            (* output stays the empty dict *)
  | Some out =>
      if has_summary c then
        if fails_at fail PSummary
        then (MkResultBuf :: fst i ++ [Fail PSummary], remove_key KNUnmapped out, true)
        else (MkResultBuf :: fst i ++ [WriteSummary; CleanResultBuf; LogSuccess],
              remove_key KNUnmapped out, false)
      else (MkResultBuf :: fst i ++ [CleanResultBuf; LogSuccess], out, false)
  end.

Definition opt (b : bool) (e : eff) : list eff := if b then [e] else [].

Definition finally_part (c : cfg) (output : list key) : list eff :=
  let keys := output ++ [KConfig; KLog; KMetadata] ++ (if has_gene_map c then [KGeneMapping] else []) in
  opt (has_tmp c) CleanTmp ++ [LogCleaning] ++ opt (has_log_path c) WriteLogFile ++
  opt (has_json c) (WriteJson keys) ++
  opt (has_hdf5 c) (WriteHdf5 (remove_key KResults keys)
                              (has_key KTaxonomyTree keys && has_key KResults keys)).

Definition run_mapping (c : cfg) (fail : option point) : list eff * bool :=
  let '(body, output, raised) := try_body c fail in
  (opt (has_tmp c) MkTmp ++ [ProbeOutputs] ++ body ++
   (if raised then [LogTraceback] else []) ++
   finally_part c output ++
   (if raised then [Reraise] else []),
   raised).

(* what the harness can observe of a trace *)
Definition eff_tag (e : eff) : Z :=
  match e with
  | MkTmp => 1 | ProbeOutputs => 2 | MkResultBuf => 3 | CopyInputs => 4 | MarkerCache => 5
  | Assign => 6 | WriteCsv => 7 | AppendObsm => 8 | WriteSummary => 9 | CleanResultBuf => 10
  | LogSuccess => 11 | Fail _ => 12 | LogTraceback => 13 | CleanTmp => 14 | LogCleaning => 15
  | WriteLogFile => 16 | WriteJson _ => 17 | WriteHdf5 _ _ => 18 | Reraise => 19
  end%Z.
Definition has_eff (t : Z) (tr : list eff) : bool := existsb (fun e => (eff_tag e =? t)%Z) tr.

Definition key_tag (k : key) : Z :=
  match k with
  | KResults => 0 | KMarkerGenes => 1 | KTaxonomyTree => 2 | KNUnmapped => 3
  | KConfig => 4 | KLog => 5 | KMetadata => 6 | KGeneMapping => 7
  end%Z.

Definition json_keys (tr : list eff) : option (list key) :=
  match find (fun e => (eff_tag e =? 17)%Z) tr with Some (WriteJson ks) => Some ks | _ => None end.
Definition hdf5_obs (tr : list eff) : option (list key * bool) :=
  match find (fun e => (eff_tag e =? 18)%Z) tr with Some (WriteHdf5 ks b) => Some (ks, b) | _ => None end.

(* ------------------------------------------------------------------ wire *)
Definition point_of (z : Z) : option point :=
  match z with
  | 1 => Some PCopy | 2 => Some PMarkerCache | 3 => Some PAssign | 4 => Some PCsv
  | 5 => Some PObsm | 6 => Some PSummary | _ => None
  end%Z.

(* input: ((tmp csv obsm summary log json hdf5 genemap) fail) with fail = 0 for none.
   output: (raised, effect tags, json keys | (), hdf5 (meta keys, with_results) | ()) *)
Definition run_mapping_sx (x : sx) : sx :=
  match x with
  | L [L [a; b; c; d; e; f; g; h]; fl] =>
      match sx_bool a, sx_bool b, sx_bool c, sx_bool d, sx_bool e, sx_bool f, sx_bool g, sx_bool h, sx_Z fl with
      | Some a, Some b, Some c, Some d, Some e, Some f, Some g, Some h, Some fl =>
          let cf := {| has_tmp := a; has_csv := b; has_obsm := c; has_summary := d; has_log_path := e;
                       has_json := f; has_hdf5 := g; has_gene_map := h |} in
          let r := run_mapping cf (point_of fl) in
          sx_ok (L [of_bool (snd r); of_LZ (map eff_tag (fst r));
                    of_option (fun ks => of_LZ (map key_tag ks)) (json_keys (fst r));
                    of_option (fun p => L [of_LZ (map key_tag (fst p)); of_bool (snd p)]) (hdf5_obs (fst r))])
      | _, _, _, _, _, _, _, _, _ => sx_bad
      end
  | _ => sx_bad
  end.
