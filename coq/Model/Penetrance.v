(* Model of diff_exp/scores.py (penetrance_parameter_distance, exact_penetrance_test,
   approx_penetrance_test, penetrance_tests, score_differential_genes),
   diff_exp/markers.py (_lookup_to_sparse, the chunking of the pairs, _merge_sparse_by_pair_files)
   and diff_exp/p_value_markers.py:_get_validity_mask.
   Scores (q1, qdiff, log2 fold, thresholds, means) are exact rationals x/S over one
   common denominator S > 0; squared distances are therefore integers over S*S and,
   because of the weights 1.5, all distances are carried TWICE (over 2*S*S).
   Raw p-values are inputs (P/SP, threshold T/SP).  Definitions only. *)
From Coq Require Import ZArith List Bool Arith.
From CTM Require Import Base.Sx Base.SortX Model.Holm.
Import ListNotations.
Open Scope Z_scope.

Inductive pres (A : Type) := POk (a : A) | PErr (code : Z).
Arguments POk {A}. Arguments PErr {A}.
Definition E_SHAPE := 1.      (* arrays of different length *)
Definition E_Q1 := 2.         (* q1_th <= q1_min_th *)
Definition E_QDIFF := 3.
Definition E_FOLD := 4.
Definition E_EMPTY := 5.      (* .max() of an empty array *)
Definition E_INDEX := 6.      (* sorted[n_valid-1] out of range *)
Definition E_NOGENES := 7.    (* gene list without overlap *)
(* codes 8 and 9 (no up- / down-regulated marker in the whole table: h5py refused chunks=(0,))
   are retired: since the repair of F17 an empty direction is written as an empty array *)
Definition E_INPUT := 10.     (* per-pair inputs do not match the number of pairs *)
Definition pbind {A B} (r : pres A) (f : A -> pres B) : pres B :=
  match r with POk a => f a | PErr c => PErr c end.

Record thresholds := mk_th {
  q1_th : Z; q1_min : Z; qdiff_th : Z; qdiff_min : Z; fold_th : Z; fold_min : Z }.

Definition score := (Z * Z * Z)%type.          (* q1_score, qdiff_score, log2_fold of one gene *)

(* (score - th)**2, set to 0 where score > th *)
Definition term (x th : Z) : Z := if th <? x then 0 else (x - th) * (x - th).

(* twice the distances: (true, q1_dist, qdiff_dist, fold_dist) *)
Definition raw_dists (th : thresholds) (g : score) : Z * Z * Z * Z :=
  let '(q1, qd, f) := g in
  let a := term q1 (q1_th th) in
  let b := term qd (qdiff_th th) in
  let c := term f (fold_th th) in
  (2 * (b + a + c), 2 * b + 3 * a + 2 * c, 3 * b + 2 * a + 2 * c, 2 * b + 2 * a + 3 * c).

Definition is_invalid (th : thresholds) (g : score) : bool :=
  let '(q1, qd, f) := g in
  (q1 <? q1_min th) || ((qd <? qdiff_min th) || (f <? fold_min th)).

Definition zmax_list (x : Z) (l : list Z) : Z := fold_right Z.max x l.

Record gdist := mk_gdist {
  g_true : Z; g_q1 : Z; g_qdiff : Z; g_fold : Z; g_wgt : Z; g_invalid : bool }.

Definition d_q1 (d : Z * Z * Z * Z) : Z := snd (fst (fst d)).
Definition d_true (d : Z * Z * Z * Z) : Z := fst (fst (fst d)).
Definition d_qdiff (d : Z * Z * Z * Z) : Z := snd (fst d).
Definition d_fold (d : Z * Z * Z * Z) : Z := snd d.

(* penetrance_parameter_distance *)
Definition penetrance_parameter_distance (S : Z) (th : thresholds) (scores : list score)
  : pres (list gdist) :=
  if q1_th th <=? q1_min th then PErr E_Q1
  else if qdiff_th th <=? qdiff_min th then PErr E_QDIFF
  else if fold_th th <=? fold_min th then PErr E_FOLD
  else
    match map (raw_dists th) scores with
    | [] => PErr E_EMPTY
    | (d0 :: _) as ds =>
        let all := map d_qdiff ds ++ map d_q1 ds ++ map d_fold ds in
        let bad := zmax_list (d_qdiff d0) all + 200 * S * S in
        POk (map (fun gd =>
                    let '(g, d) := gd in
                    let inv := is_invalid th g in
                    let q1d := if inv then bad else d_q1 d in
                    let qdd := if inv then bad else d_qdiff d in
                    let fd := if inv then bad else d_fold d in
                    let w0 := if qdd <? q1d then qdd else q1d in
                    let w := if w0 <? fd then w0 else fd in
                    mk_gdist (d_true d) q1d qdd fd w inv)
                 (combine scores ds))
    end.

(* eps = 1.0e-10 as a binary64 number = EPS_NUM / EPS_DEN *)
Definition EPS_NUM : Z := 7737125245533627.
Definition EPS_DEN : Z := 77371252455336267181195264.
(* distance_sq < eps, distance_sq = g_true / (2 S S) *)
Definition within_eps (S : Z) (d : gdist) : bool := g_true d * EPS_DEN <? EPS_NUM * (2 * S * S).
(* absolutely_valid = logical_and(distance_sq < eps, logical_not(invalid)) *)
Definition absolutely_valid (S : Z) (d : gdist) : bool := within_eps S d && negb (g_invalid d).

Definition count_true (l : list bool) : nat := length (filter (fun b => b) l).

(* the k-th smallest (0-based) *)
Definition kth (k : nat) (l : list Z) : option Z := nth_error (zsort l) k.
Definition zmin3 (a b c : Z) : Z := Z.min (Z.min a b) c.

Definition approx_penetrance_test (S : Z) (th : thresholds) (n_valid : nat) (scores : list score)
  : pres (list bool) :=
  let nv := Nat.min n_valid (length scores) in
  pbind (penetrance_parameter_distance S th scores) (fun ds =>
    let av := map (absolutely_valid S) ds in
    if (nv <=? count_true av)%nat then POk av
    else
      match kth (nv - 1) (map g_q1 ds), kth (nv - 1) (map g_qdiff ds), kth (nv - 1) (map g_fold ds) with
      | Some a, Some b, Some c =>
          let cutoff := zmin3 a b c in
          POk (map (fun d => ((g_qdiff d <=? cutoff) || ((g_q1 d <=? cutoff) || (g_fold d <=? cutoff)))
                             && negb (g_invalid d)) ds)
      | _, _, _ => PErr E_INDEX
      end).

Definition exact_test (th : thresholds) (g : score) : bool :=
  let '(q1, qd, f) := g in (f >? fold_th th) && ((q1 >? q1_th th) && (qd >? qdiff_th th)).

Definition penetrance_tests (S : Z) (th : thresholds) (exact : bool) (n_valid : nat) (scores : list score)
  : pres (list bool) :=
  if exact then POk (map (exact_test th) scores)
  else approx_penetrance_test S th n_valid scores.

(* pij[invalid] = -1, log2_fold[invalid] = -1  ==>  q1 = -1, qdiff = 0, fold = -1 *)
Definition mask_scores (S : Z) (mask : option (list bool)) (scores : list score) : list score :=
  match mask with
  | None => scores
  | Some m => map (fun bs : bool * score => if fst bs then snd bs else ((- S, 0, - S) : score)) (combine m scores)
  end.

Fixpoint andb_list (a b : list bool) : list bool :=
  match a, b with
  | x :: a', y :: b' => (x && y) :: andb_list a' b'
  | _, _ => []
  end.

Record pair_in := mk_pair_in {
  pi_n1 : Z; pi_n2 : Z;                 (* cells in the two clusters *)
  pi_SP : Z; pi_T : Z; pi_p : list Z;   (* raw p-values and p_th over SP *)
  pi_scores : list score;               (* over S *)
  pi_mean1 : list Z; pi_mean2 : list Z  (* over S *) }.

Record settings := mk_settings {
  st_S : Z; st_th : thresholds;
  st_n_min : Z; st_exact : bool; st_n_valid : nat; st_n_valid_min : nat }.

(* score_differential_genes: (validity_mask, up_mask) *)
Definition score_differential_genes (st : settings) (mask : option (list bool)) (x : pair_in)
  : pres (list bool * list bool) :=
  let ng := length (pi_mean1 x) in
  if (pi_n1 x <? st_n_min st) || (pi_n2 x <? st_n_min st)
  then POk (repeat false ng, repeat false ng)
  else
    let T := pi_T x in
    let pvalues := approx_correct_ttest (pi_SP x) T (pi_p x) in
    let pvalue_valid := map (fun v => v <? T) pvalues in
    let pass (m : option (list bool)) :=
        pbind (penetrance_tests (st_S st) (st_th st) (st_exact st) (st_n_valid st)
                                (mask_scores (st_S st) m (pi_scores x)))
              (fun pen => POk (andb_list pvalue_valid pen)) in
    let up := map (fun ab => snd ab >? fst ab) (combine (pi_mean1 x) (pi_mean2 x)) in
    pbind (pass mask) (fun v1 =>
      if (st_n_valid_min st <=? count_true v1)%nat || st_exact st then POk (v1, up)
      else
        let gene_mask := match mask with None => repeat true ng | Some m => m end in
        pbind (pass (Some (andb_list gene_mask pvalue_valid))) (fun v2 => POk (v2, up))).

(* up_reg_lookup[idx], down_reg_lookup[idx] *)
Fixpoint where_true (k : nat) (l : list bool) : list nat :=
  match l with
  | [] => []
  | b :: t => if b then k :: where_true (S k) t else where_true (S k) t
  end.
Definition up_down (vu : list bool * list bool) : list nat * list nat :=
  (where_true 0 (andb_list (fst vu) (snd vu)), where_true 0 (andb_list (fst vu) (map negb (snd vu)))).

(* ---- sparse by-pair tables ---- *)
Fixpoint indptr_of (rows : list (list nat)) (acc : nat) : list nat :=
  match rows with
  | [] => [acc]
  | r :: t => acc :: indptr_of t (acc + length r)
  end.
(* _lookup_to_sparse *)
Definition lookup_to_sparse (rows : list (list nat)) : list nat * list nat := (indptr_of rows 0, concat rows).

(* for col0 in range(0, n_pairs, n_per): idx_values[col0:col0+n_per] *)
Fixpoint chunk_list {A} (fuel n_per : nat) (l : list A) : list (list A) :=
  match fuel with
  | O => []
  | S f => match l with
           | [] => []
           | _ => firstn n_per l :: chunk_list f n_per (skipn n_per l)
           end
  end.

(* _merge_sparse_by_pair_files, chunks in col0 order *)
Fixpoint merge_sparse (chunks : list (list nat * list nat)) (offset : nat) : list nat * list nat :=
  match chunks with
  | [] => ([offset], [])
  | (ptr, idx) :: t =>
      let r := merge_sparse t (offset + length idx) in
      (map (Nat.add offset) (removelast ptr) ++ fst r, idx ++ snd r)
  end.

(* n_per = max(8, m - m % 8) with m = min(1000000, n_pairs // (2 n_processors)) *)
Definition n_per_of (n_pairs n_processors : nat) : nat :=
  let m := Z.min 1000000 (Z.of_nat n_pairs / (2 * Z.of_nat n_processors)) in
  Z.to_nat (Z.max 8 (m - m mod 8)).

Fixpoint pmap {A B} (f : A -> pres B) (l : list A) : pres (list B) :=
  match l with
  | [] => POk []
  | a :: t => pbind (f a) (fun b => pbind (pmap f t) (fun t' => POk (b :: t')))
  end.

(* valid_gene_idx from gene_list *)
Definition gene_mask_of (gene_names : list Z) (gene_list : option (list Z)) : pres (option (list bool)) :=
  match gene_list with
  | None => POk None
  | Some gl =>
      let m := map (fun g => zmem g gl) gene_names in
      if (count_true m =? 0)%nat then PErr E_NOGENES else POk (Some m)
  end.

(* create_sparse_by_pair_marker_file: per pair (in idx order) the up and the down genes,
   written per chunk and merged.  Result: (up_pair_idx, up_gene_idx, down_pair_idx, down_gene_idx).
   A direction without any marker gives an empty gene_idx array and an all-zero pair_idx. *)
Definition find_markers (st : settings) (gene_names : list Z) (gene_list : option (list Z))
           (n_processors : nat) (pairs : list pair_in)
  : pres ((list nat * list nat) * (list nat * list nat)) :=
  pbind (gene_mask_of gene_names gene_list) (fun mask =>
    pbind (pmap (fun x => pbind (score_differential_genes st mask x) (fun vu => POk (up_down vu))) pairs)
          (fun uds =>
             let n_per := n_per_of (length pairs) n_processors in
             let chunks := chunk_list (length uds) n_per uds in
             let ups := merge_sparse (map (fun ch => lookup_to_sparse (map fst ch)) chunks) 0 in
             let downs := merge_sparse (map (fun ch => lookup_to_sparse (map snd ch)) chunks) 0 in
             POk (ups, downs))).

(* ------------------------------------------------------------------ *)
(* the p-value-mask route                                              *)

(* _p_values_worker, one pair: the genes kept in the mask (corrected p < p_th and not
   below a floor) with twice their weighted distance; 0 means strictly valid (stored as -1).
   No n_cells_min test and no gene list at this stage, as coded. *)
Fixpoint mask_entries (k : nat) (T : Z) (pv : list Z) (ds : list gdist) : list (nat * Z) :=
  match pv, ds with
  | v :: pv', d :: ds' =>
      if (v <? T) && negb (g_invalid d) then (k, g_wgt d) :: mask_entries (S k) T pv' ds'
      else mask_entries (S k) T pv' ds'
  | _, _ => []
  end.
Definition p_mask_row (st : settings) (x : pair_in) : pres (list (nat * Z)) :=
  let T := pi_T x in
  let pvalues := approx_correct_ttest (pi_SP x) T (pi_p x) in
  pbind (penetrance_parameter_distance (st_S st) (st_th st) (pi_scores x))
        (fun ds => POk (mask_entries 0 T pvalues ds)).

(* eps = 1.0e-6 as a binary64 number *)
Definition EPS6_NUM : Z := 4722366482869645.
Definition EPS6_DEN : Z := 4722366482869645213696.

Fixpoint nat_assoc (k : nat) (l : list (nat * Z)) : option Z :=
  match l with
  | [] => None
  | (k', v) :: t => if Nat.eqb k k' then Some v else nat_assoc k t
  end.

(* _get_validity_mask; distances are x/SD (binary16 numbers, exact) *)
Definition get_validity_mask (SD : Z) (n_valid n_genes : nat) (entries : list (nat * Z))
           (mask : option (list bool)) : pres (list bool) :=
  let genes := seq 0 n_genes in
  let p_mask := map (fun g => match nat_assoc g (rev entries) with Some _ => true | None => false end) genes in
  let dist0 := map (fun g => match nat_assoc g (rev entries) with Some v => Z.max v 0 | None => 0 end) genes in
  match dist0 with
  | [] => PErr E_EMPTY
  | d0 :: _ =>
      let good := zmax_list d0 dist0 in
      let bad := 2 * (good + SD) in
      let off := 3 * (good + SD) in
      let prior_ok := match mask with None => repeat true n_genes | Some m => m end in
      let dist := map (fun x : bool * bool * Z => let '(pm, ok, d) := x in if negb pm then off else if negb ok then off else d)
                      (combine (combine p_mask prior_ok) dist0) in
      if negb (Nat.eqb (length dist) n_genes) then PErr E_SHAPE
      else
        let invalid := map (fun d => bad <=? d) dist in
        let abs_valid := map (fun d => d * EPS6_DEN <? EPS6_NUM * SD) dist in
        let v1 := andb_list p_mask abs_valid in
        if (count_true v1 <? n_valid)%nat then
          match kth (n_valid - 1) dist with
          | None => PErr E_INDEX
          | Some cutoff =>
              let pm := map (fun x : Z * bool * bool => let '(d, inv, av) := x in if av then true else if inv then false else d <=? cutoff)
                            (combine (combine dist invalid) abs_valid) in
              POk (andb_list p_mask pm)
          end
        else POk v1
  end.

Record mask_pair := mk_mask_pair { mp_entries : list (nat * Z); mp_mean1 : list Z; mp_mean2 : list Z }.

(* create_sparse_by_pair_marker_file_from_p_mask *)
Definition find_markers_from_mask (SD : Z) (n_valid : nat) (gene_names : list Z) (gene_list : option (list Z))
           (n_per : nat) (pairs : list mask_pair)
  : pres ((list nat * list nat) * (list nat * list nat)) :=
  let mask := match gene_list with
              | None => None
              | Some gl => Some (map (fun g => zmem g gl) gene_names)
              end in
  pbind (pmap (fun x =>
                 pbind (get_validity_mask SD n_valid (length gene_names) (mp_entries x) mask) (fun v =>
                   let up := map (fun ab => snd ab >? fst ab) (combine (mp_mean1 x) (mp_mean2 x)) in
                   POk (up_down (v, up)))) pairs)
        (fun uds =>
           let chunks := chunk_list (length uds) n_per uds in
           let ups := merge_sparse (map (fun ch => lookup_to_sparse (map fst ch)) chunks) 0 in
           let downs := merge_sparse (map (fun ch => lookup_to_sparse (map snd ch)) chunks) 0 in
           POk (ups, downs)).

(* ------------------------------------------------------------------ *)
(* wire                                                                *)
Definition sx_option {A} (f : sx -> option A) (x : sx) : option (option A) :=
  match x with
  | L [] => Some None
  | L [a] => match f a with Some a' => Some (Some a') | None => None end
  | _ => None
  end.
Definition sx_Lbool : sx -> option (list bool) := sx_list sx_bool.
Definition of_Lbool (l : list bool) : sx := of_list of_bool l.
Definition sx_score (x : sx) : option score :=
  match x with
  | L [I a; I b; I c] => Some (a, b, c)
  | _ => None
  end.
Definition sx_th (x : sx) : option thresholds :=
  match x with
  | L [I a; I b; I c; I d; I e; I f] => Some (mk_th a b c d e f)
  | _ => None
  end.
Definition sx_settings (x : sx) : option settings :=
  match x with
  | L [s; t; nm; ex; nv; nvm] =>
      match sx_Z s, sx_th t, sx_Z nm, sx_bool ex, sx_nat nv, sx_nat nvm with
      | Some s', Some t', Some nm', Some ex', Some nv', Some nvm' => Some (mk_settings s' t' nm' ex' nv' nvm')
      | _, _, _, _, _, _ => None
      end
  | _ => None
  end.
Definition sx_pair_in (x : sx) : option pair_in :=
  match x with
  | L [a; b; sp; t; p; sc; m1; m2] =>
      match sx_Z a, sx_Z b, sx_Z sp, sx_Z t, sx_LZ p, sx_list sx_score sc, sx_LZ m1, sx_LZ m2 with
      | Some a', Some b', Some sp', Some t', Some p', Some sc', Some m1', Some m2' =>
          Some (mk_pair_in a' b' sp' t' p' sc' m1' m2')
      | _, _, _, _, _, _, _, _ => None
      end
  | _ => None
  end.
Definition of_pres {A} (f : A -> sx) (r : pres A) : sx :=
  match r with POk a => sx_ok (f a) | PErr c => sx_err c end.
Definition of_gdist (d : gdist) : sx :=
  L [I (g_true d); I (g_q1 d); I (g_qdiff d); I (g_fold d); I (g_wgt d); of_bool (g_invalid d)].
Definition of_tables (r : (list nat * list nat) * (list nat * list nat)) : sx :=
  L [of_Lnat (fst (fst r)); of_Lnat (snd (fst r)); of_Lnat (fst (snd r)); of_Lnat (snd (snd r))].

(* tag 1103: (S th scores) -> per gene (true q1 qdiff fold wgt invalid), all distances doubled *)
Definition run_distance (x : sx) : sx :=
  match x with
  | L [s; t; sc] =>
      match sx_Z s, sx_th t, sx_list sx_score sc with
      | Some s', Some th, Some scores => of_pres (of_list of_gdist) (penetrance_parameter_distance s' th scores)
      | _, _, _ => sx_bad
      end
  | _ => sx_bad
  end.
(* tag 1104: (S th exact n_valid scores) -> penetrance_tests *)
Definition run_penetrance (x : sx) : sx :=
  match x with
  | L [s; t; ex; nv; sc] =>
      match sx_Z s, sx_th t, sx_bool ex, sx_nat nv, sx_list sx_score sc with
      | Some s', Some th, Some exact, Some n_valid, Some scores =>
          of_pres of_Lbool (penetrance_tests s' th exact n_valid scores)
      | _, _, _, _, _ => sx_bad
      end
  | _ => sx_bad
  end.
(* tag 1105: (settings mask pair) -> (validity up_mask) *)
Definition run_sdg (x : sx) : sx :=
  match x with
  | L [st; m; p] =>
      match sx_settings st, sx_option sx_Lbool m, sx_pair_in p with
      | Some st', Some m', Some p' =>
          of_pres (fun vu => L [of_Lbool (fst vu); of_Lbool (snd vu)]) (score_differential_genes st' m' p')
      | _, _, _ => sx_bad
      end
  | _ => sx_bad
  end.
(* tag 1106: (settings gene_names gene_list n_processors pairs) -> the four sparse_by_pair arrays *)
Definition run_find_markers (x : sx) : sx :=
  match x with
  | L [st; gn; gl; np; ps] =>
      match sx_settings st, sx_LZ gn, sx_option sx_LZ gl, sx_nat np, sx_list sx_pair_in ps with
      | Some st', Some gn', Some gl', Some np', Some ps' => of_pres of_tables (find_markers st' gn' gl' np' ps')
      | _, _, _, _, _ => sx_bad
      end
  | _ => sx_bad
  end.
Definition sx_entries : sx -> option (list (nat * Z)) := sx_list (sx_pair sx_nat sx_Z).
(* tag 1107: (SD n_valid n_genes entries mask) -> _get_validity_mask *)
Definition run_validity_mask (x : sx) : sx :=
  match x with
  | L [sd; nv; ng; en; m] =>
      match sx_Z sd, sx_nat nv, sx_nat ng, sx_entries en, sx_option sx_Lbool m with
      | Some sd', Some nv', Some ng', Some en', Some m' => of_pres of_Lbool (get_validity_mask sd' nv' ng' en' m')
      | _, _, _, _, _ => sx_bad
      end
  | _ => sx_bad
  end.
(* tag 1108: (settings pair) -> mask row: (gene, doubled weighted distance) *)
Definition run_p_mask_row (x : sx) : sx :=
  match x with
  | L [st; p] =>
      match sx_settings st, sx_pair_in p with
      | Some st', Some p' => of_pres (of_list (of_pair of_nat of_Z)) (p_mask_row st' p')
      | _, _ => sx_bad
      end
  | _ => sx_bad
  end.
(* tag 1109: (SD n_valid gene_names gene_list n_per pairs) -> the four arrays, mask route *)
Definition sx_mask_pair (x : sx) : option mask_pair :=
  match x with
  | L [en; m1; m2] =>
      match sx_entries en, sx_LZ m1, sx_LZ m2 with
      | Some en', Some m1', Some m2' => Some (mk_mask_pair en' m1' m2')
      | _, _, _ => None
      end
  | _ => None
  end.
Definition run_find_markers_from_mask (x : sx) : sx :=
  match x with
  | L [sd; nv; gn; gl; np; ps] =>
      match sx_Z sd, sx_nat nv, sx_LZ gn, sx_option sx_LZ gl, sx_nat np, sx_list sx_mask_pair ps with
      | Some sd', Some nv', Some gn', Some gl', Some np', Some ps' =>
          of_pres of_tables (find_markers_from_mask sd' nv' gn' gl' np' ps')
      | _, _, _, _, _, _ => sx_bad
      end
  | _ => sx_bad
  end.
(* tag 1110: (n_per rows) -> merge of the per-chunk sparse tables ; tag 1111: rows -> _lookup_to_sparse *)
Definition run_chunk_merge (x : sx) : sx :=
  match x with
  | L [np; rows] =>
      match sx_nat np, sx_LLnat rows with
      | Some n_per, Some rs =>
          let r := merge_sparse (map lookup_to_sparse (chunk_list (length rs) n_per rs)) 0 in
          sx_ok (L [of_Lnat (fst r); of_Lnat (snd r)])
      | _, _ => sx_bad
      end
  | _ => sx_bad
  end.
Definition run_lookup_to_sparse (x : sx) : sx :=
  match sx_LLnat x with
  | Some rs => let r := lookup_to_sparse rs in sx_ok (L [of_Lnat (fst r); of_Lnat (snd r)])
  | None => sx_bad
  end.
