(* Model of utils/stats_utils.py:correct_ttest and approx_correct_ttest
   (Holm-Bonferroni step-down as a running maximum, and its restricted variant).
   A p-value is the exact rational P/S (S > 0 one common denominator, chosen by
   the harness as a power of two); the threshold p_th is T/S.  No division is
   needed, so everything stays in Z.  np.argsort's order among equal p-values
   is unspecified: the model sorts stably, the theorems quantify over every
   sorted order.  Definitions only. *)
From Coq Require Import ZArith List Bool Arith.
From CTM Require Import Base.Sx.
Import ListNotations.
Open Scope Z_scope.

Definition ipair := (nat * Z)%type.            (* (position in the input array, value) *)

(* enumerate(p) *)
Fixpoint index_from (k : nat) (p : list Z) : list ipair :=
  match p with
  | [] => []
  | x :: t => (k, x) :: index_from (S k) t
  end.
Definition index (p : list Z) : list ipair := index_from 0 p.

(* stable insertion sort by value: np.argsort(p) (one of its possible results) *)
Fixpoint insp (x : ipair) (l : list ipair) : list ipair :=
  match l with
  | [] => [x]
  | y :: t => if snd x <=? snd y then x :: y :: t else y :: insp x t
  end.
Definition sortp (l : list ipair) : list ipair := fold_right insp [] l.

(* insertion sort by position: ordered_p[sorted_t] = corrected_p *)
Fixpoint insi (x : ipair) (l : list ipair) : list ipair :=
  match l with
  | [] => [x]
  | y :: t => if (fst x <=? fst y)%nat then x :: y :: t else y :: insi x t
  end.
Definition sorti (l : list ipair) : list ipair := fold_right insi [] l.
Definition by_index (l : list ipair) : list Z := map snd (sorti l).

(* np.maximum.accumulate(sorted_p * t_denom), t_denom = m, m-1, ... *)
Fixpoint runmax_from (acc m : Z) (l : list ipair) : list ipair :=
  match l with
  | [] => []
  | (i, p) :: t => let v := Z.max acc (p * m) in (i, v) :: runmax_from v (m - 1) t
  end.
Definition runmax (m : Z) (l : list ipair) : list ipair :=
  match l with
  | [] => []
  | (i, p) :: t => (i, p * m) :: runmax_from (p * m) (m - 1) t
  end.

(* np.where(ordered_p < 1.0, ordered_p, 1.0) *)
Definition clip (S v : Z) : Z := if v <? S then v else S.

(* the corrected values of an indexed sub-array, multipliers n+padding, n+padding-1, ... *)
Definition holm_pairs (S : Z) (padding : nat) (ip : list ipair) : list ipair :=
  map (fun x => (fst x, clip S (snd x))) (runmax (Z.of_nat (length ip + padding)) (sortp ip)).

Definition correct_ttest (S : Z) (padding : nat) (p : list Z) : list Z :=
  by_index (holm_pairs S padding (index p)).

Definition below (T : Z) (x : ipair) : bool := snd x <? T.

(* result = p ; idx = where(result < p_th) ; result[idx] = correct_ttest(result[idx], padding = n - len(idx)) *)
Definition approx_correct_ttest (S T : Z) (p : list Z) : list Z :=
  let ip := index p in
  let sel := filter (below T) ip in
  let rest := filter (fun x => negb (below T x)) ip in
  by_index (holm_pairs S (length p - length sel) sel ++ rest).

(* ---- wire ---- *)
(* tag 1101: (S padding p) -> correct_ttest ; tag 1102: (S T p) -> approx_correct_ttest *)
Definition run_correct (x : sx) : sx :=
  match x with
  | L [s; pad; p] =>
      match sx_Z s, sx_nat pad, sx_LZ p with
      | Some s', Some padding, Some p' => sx_ok (of_LZ (correct_ttest s' padding p'))
      | _, _, _ => sx_bad
      end
  | _ => sx_bad
  end.
Definition run_approx (x : sx) : sx :=
  match x with
  | L [s; t; p] =>
      match sx_Z s, sx_Z t, sx_LZ p with
      | Some s', Some t', Some p' => sx_ok (of_LZ (approx_correct_ttest s' t' p'))
      | _, _, _ => sx_bad
      end
  | _ => sx_bad
  end.
