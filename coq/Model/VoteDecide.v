(* The decision procedure of the election, built from the vote model: what
   _run_type_assignment does for the cells routed to one parent.  One list of bootstrap
   subsets is drawn per call (tally_votes draws once per iteration for ALL cells of the
   call), every cell is tallied against the leaves below the parent, the children are sorted
   by votes and choose_node keeps the first n_assign.  This instantiates the abstract
   `decide` of Model/Election.v.  Definitions only. *)
From Coq Require Import ZArith List Bool.
From CTM Require Import Base.Sx Base.SortX Model.Tree Model.Vote Model.Election.
Import ListNotations.
Open Scope Z_scope.

(* np.argsort of the votes, descending; ties keep list order (any tie rule would do: the
   property theorems hold for every permutation with non-increasing votes) *)
Fixpoint vinsert (vf : Z -> nat) (x : Z) (l : list Z) : list Z :=
  match l with
  | [] => [x]
  | y :: t => if Nat.leb (vf y) (vf x) then x :: y :: t else y :: vinsert vf x t
  end.
Definition vsort (vf : Z -> nat) (l : list Z) : list Z := fold_right (vinsert vf) [] l.

Section VoteDecide.
Variable cell rng : Type.
(* per parent: the reference rows (leaf means on the parent's markers, leaves sorted) and the
   child owning each row; per cell and parent: the query row on the same markers *)
Variable refs_at : option (nat * node) -> list vec.
Variable owners_at : option (nat * node) -> list Z.
Variable q_at : cell -> option (nat * node) -> vec.
(* the draws of one call: bootstrap_iteration subsets of the parent's marker positions *)
Variable draw : rng -> option (nat * node) -> list (list nat) * rng.
Variable n_assign : nat.
(* avg_correlation is a float mean of square roots: not modelled, carried as an oracle *)
Variable corr_at : cell -> option (nat * node) -> Z -> frac.

Definition vote_record (p : option (nat * node)) (kids : list node) (subsets : list (list nat)) (c : cell)
  : option rec :=
  match tally (q_at c p) (refs_at p) subsets with
  | None => None
  | Some winners =>
      let vf := votes_for (owners_at p) winners in
      match choose_with (vsort vf kids) vf n_assign with
      | None => None
      | Some (w, wv, rs) =>
          let iters := Z.of_nat (length subsets) in
          Some {| asg := w; prob := (Z.of_nat wv, iters); corr := Some (corr_at c p w);
                  runners := map (fun r => (fst r, (Z.of_nat (snd r), iters), corr_at c p (fst r))) rs;
                  agg := one |}
      end
  end.

Definition decide_vote (g : rng) (p : option (nat * node)) (kids : list node) (cs : list cell) : list rec * rng :=
  let '(subsets, g') := draw g p in
  (flat_map (fun c => match vote_record p kids subsets c with Some r => [r] | None => [] end) cs, g').
End VoteDecide.
