(* Model of _run_selection (marker_selection/selection.py) for EVERY genes_at_a_time = k >= 1.
   Extends Model/Selection.v (which fixes k = 1) without changing it.

   What the real loop does (one iteration of `while True`):
     1. _update_been_filled: the newly full slots are flagged, the utility array is decremented,
        and - ONLY IF at least one slot was newly filled - sorted_utility_idx is recomputed as
        list(np.argsort(utility_array)): it then holds EVERY gene index again, the already chosen
        ones included (their utility is negative, they sit at the low end).  Otherwise the list
        is kept; the genes chosen since the last argsort have been popped from it.
     2. the two `break`s (utility_array.max() <= 0, all slots filled) - evaluated only here,
        i.e. BETWEEN batches, never inside one.
     3. _choose_gene (chosen_idx = None): `for ii in range(genes_at_a_time)`:
          if len(sorted_utility_idx) == 0: break
          if utility_array[sorted_utility_idx[-1]] <= 0: break
          _choose_one_gene(...)
        i.e. the batch STOPS EARLY as soon as the list is empty or the candidate about to be popped
        has utility <= 0 (it marks no unfilled slot, or - utility -1 - it was already chosen).
        Otherwise _choose_one_gene does sorted_utility_idx.pop(-1), appends the gene, raises
        RuntimeError("chose gene twice") if it is already in marker_gene_idx_set, sets its utility
        to -1 and updates marker_counts.  Nothing is recomputed inside the batch: the genes of a
        batch are the last elements of the list as it stood when the batch started, as long as
        their utility is positive and at most k of them.
        (Before the repair of F23/F24/F25 the two tests were missing: a batch always popped k
        entries, whatever their utility, and raised IndexError on an empty list.)
   pop(-1) is only reached on a non-empty list, so IndexError is not an outcome of the model; the
   `raise RuntimeError` statement is still in the code: its outcome (KTwice) is kept and PROVED
   unreachable (Proofs/SelectionKP.v batch_never_raises).
   sorted_utility_idx is modelled by the list of its members (`pool`); its order among equal
   utilities (np.argsort tie order) is NOT modelled: the genes popped, grouped per iteration,
   are an input (the recorded trace) and a pop is legal only if the gene is a member of the
   pool whose utility is maximal among the members.  The early stop does not depend on the tie
   order: every candidate for the last place has the same (maximal) utility.  Definitions only. *)
From Coq Require Import ZArith List Bool Arith.
From CTM Require Import Base.Sx Base.SortX Model.Tree Model.Selection.
Import ListNotations.
Local Open Scope nat_scope.

Section SelK.
Variable n_genes : nat.
Variable pairs : list nat.
Variable marks : nat -> slot -> bool.
Variable n : nat.                          (* n_per_utility *)
Variable k : nat.                          (* genes_at_a_time *)

Notation genes := (genes n_genes).
Notation slots := (slots pairs).
Notation update_filled := (update_filled n_genes pairs marks n).
Notation newly := (newly n_genes marks n).
Notation choose := (choose marks).
Notation finished := (finished n_genes pairs).
Notation start := (start n_genes pairs marks n).

(* the exception a batch can end in (statement `raise RuntimeError` of _choose_one_gene) *)
Inductive kerr :=
| KTwice (g : nat).     (* RuntimeError: Something is wrong; chose gene g twice *)

(* sorted_utility_idx.pop(to_pop) / .pop(-1): the member leaves the list *)
Definition pool_remove (g : nat) (pool : list nat) : list nat :=
  filter (fun h => negb (Nat.eqb h g)) pool.

(* g can be the last element of the sorted list: a member of maximal utility among the members *)
Definition is_top (st : state) (pool : list nat) (g : nat) : bool :=
  nmem g pool && forallb (fun h => (utility st h <=? utility st g)%Z) pool.

(* _update_been_filled: `if len(newly_full[0]) > 0 or sorted_utility_idx is None: argsort` *)
Definition refresh (st : state) (pool : list nat) : list nat :=
  if existsb (newly st) slots then genes else pool.

Inductive pres := POk (st : state) (pool : list nat) | PErr (e : kerr) | PIllegal.

(* `utility_array[sorted_utility_idx[-1]] <= 0` on a non-empty list: the last element carries the
   maximal utility of the members, so the test says that NO member has a positive utility *)
Definition exhausted (st : state) (pool : list nat) : bool :=
  forallb (fun h => (utility st h <=? 0)%Z) pool.

(* _choose_gene(chosen_idx=None, genes_at_a_time=j): at most j pops; `batch` = the genes popped in
   this call, in order (on the exception: up to and including the pop that raised).  The call
   returns when j genes have been popped, or earlier when the list is empty or its last element has
   utility <= 0 *)
Fixpoint popk (j : nat) (st : state) (pool : list nat) (batch : list nat) : pres :=
  match j with
  | O => match batch with [] => POk st pool | _ :: _ => PIllegal end
  | S j' =>
      match pool with
      | [] => (* len(sorted_utility_idx) == 0: break *)
              match batch with [] => POk st pool | _ :: _ => PIllegal end
      | _ :: _ =>
          match batch with
          | [] => (* the call returned here: legal iff the candidate had utility <= 0 *)
                  if exhausted st pool then POk st pool else PIllegal
          | g :: b' =>
              if is_top st pool g then
                if (utility st g <=? 0)%Z then PIllegal       (* the code breaks instead of popping g *)
                else if nmem g (chosen st)
                then match b' with [] => PErr (KTwice g) | _ :: _ => PIllegal end
                else popk j' (choose st g) (pool_remove g pool) b'
              else PIllegal
          end
      end
  end.

(* one iteration of `while True` with the batch popped in it *)
Inductive kstep := SNext (st : state) (pool : list nat) | SRaise (e : kerr) | SNone.
Definition stepk (st : state) (pool : list nat) (batch : list nat) : kstep :=
  let st1 := update_filled st in
  if finished st1 then SNone
  else match popk k st1 (refresh st pool) batch with
       | POk st2 pool2 => SNext st2 pool2
       | PErr e => SRaise e
       | PIllegal => SNone
       end.

(* the loop against the recorded batches.  KDone: `break` exactly after the last batch;
   KRaise: the last batch ended in the exception; KIllegal i: batch number i is not a batch the
   loop can pop (or the loop had already stopped / raised before) *)
Inductive kres :=
| KDone (st : state) | KRaise (e : kerr) | KBadPrefix | KIllegal (i : nat) | KNotFinished.
Fixpoint runk (st : state) (pool : list nat) (trace : list (list nat)) (i : nat) : kres :=
  match trace with
  | [] => let st1 := update_filled st in if finished st1 then KDone st1 else KNotFinished
  | b :: t =>
      match stepk st pool b with
      | SNext st' pool' => runk st' pool' t (S i)
      | SRaise e => match t with [] => KRaise e | _ :: _ => KIllegal i end
      | SNone => KIllegal i
      end
  end.

(* the list when `while True` is entered: the first _update_been_filled (sorted_utility_idx is
   None) sorts all genes, the desperate phase pops every gene it takes *)
Definition pool0 : list nat := filter (fun g => negb (nmem g (chosen start))) genes.

(* the whole of _run_selection against what was observed: the desperate genes, then the batches *)
Definition replayk (prefix : list nat) (batches : list (list nat)) : kres :=
  if list_eqb prefix (chosen start) then runk start pool0 batches 0 else KBadPrefix.

(* ---------------- a deterministic instance (first member of maximal utility), with fuel ---------------- *)
Definition first_top (st : state) (pool : list nat) : option nat :=
  find (fun g => forallb (fun h => (utility st h <=? utility st g)%Z) pool) pool.
Inductive gpop := GP (st : state) (pool : list nat) | GPErr (e : kerr).
Fixpoint popg (j : nat) (st : state) (pool : list nat) : gpop :=
  match j with
  | O => GP st pool
  | S j' =>
      match first_top st pool with
      | None => GP st pool                                   (* empty list: break *)
      | Some g => if (utility st g <=? 0)%Z then GP st pool  (* candidate of utility <= 0: break *)
                  else if nmem g (chosen st) then GPErr (KTwice g)
                  else popg j' (choose st g) (pool_remove g pool)
      end
  end.
Inductive gres := GDone (st : state) | GRaise (e : kerr) | GOutOfFuel.
Fixpoint greedyk (fuel : nat) (st : state) (pool : list nat) : gres :=
  match fuel with
  | O => GOutOfFuel
  | S f => let st1 := update_filled st in
           if finished st1 then GDone st1
           else match popg k st1 (refresh st pool) with
                | GP st2 pool2 => greedyk f st2 pool2
                | GPErr e => GRaise e
                end
  end.

(* ---------------- C12's statement without its "marker of a pair of the parent" clause ---------------- *)
(* no duplicates, every gene a gene of the thinned array (= in the query), coverage.  Implied by
   spec_c12 (Model/Selection.v), which holds on every completed run for every k
   (Props/C12.v c12_batch_full_spec); kept because the harness reports the two separately *)
Definition spec_c12_batch (sel : list nat) : bool :=
  nodup_b sel &&
  forallb (fun g => g <? n_genes) sel &&
  forallb (fun p => Nat.min (2 * n) (available n_genes marks p) <=? covered marks sel p) pairs.
End SelK.

(* views of a result used by the statements *)
Definition kres_opt (r : kres) : option state := match r with KDone st => Some st | _ => None end.
Definition kres_chosen (r : kres) : option (list nat) := option_map (fun st => chosen st) (kres_opt r).

(* ---------------- wire ---------------- *)
Definition of_kerr (e : kerr) : sx :=
  match e with
  | KTwice g => L [I 1%Z; I 11%Z; of_nat g]
  end.

(* tag 1250: (n_genes pd idx n k prefix batches) -> replayk; also n_desperate and the size of the
   list when the loop is entered *)
Definition run_replayk (x : sx) : sx :=
  match x with
  | L [a; b; e; c; kk; d; f] =>
      match sx_nat a, sx_pd b, sx_Lnat e, sx_nat c, sx_nat kk, sx_Lnat d, sx_LLnat f with
      | Some ng, Some pd, Some ps, Some n, Some k, Some pre, Some bs =>
          let m := marks_of pd in
          L [match replayk ng ps m n k pre bs with
             | KDone st => sx_ok (of_state_at ng ps st)
             | KRaise er => of_kerr er
             | KBadPrefix => sx_err 1
             | KIllegal j => L [I 1%Z; I 2%Z; of_nat j]
             | KNotFinished => sx_err 3
             end;
             of_nat (length (chosen (start ng ps m n)));
             of_nat (length (pool0 ng ps m n))]
      | _, _, _, _, _, _, _ => sx_bad end
  | _ => sx_bad end.

(* tag 1251: (n_genes pd idx n k) -> the deterministic run with fuel n_genes + 1 *)
Definition run_greedyk (x : sx) : sx :=
  match x with
  | L [a; b; e; c; kk] =>
      match sx_nat a, sx_pd b, sx_Lnat e, sx_nat c, sx_nat kk with
      | Some ng, Some pd, Some ps, Some n, Some k =>
          let m := marks_of pd in
          match greedyk ng ps m n k (S ng) (start ng ps m n) (pool0 ng ps m n) with
          | GDone st => sx_ok (of_Lnat (chosen st))
          | GRaise er => of_kerr er
          | GOutOfFuel => sx_err 1
          end
      | _, _, _, _, _ => sx_bad end
  | _ => sx_bad end.

(* tag 1252: (n_genes pd idx n selected) -> (spec_c12_batch, spec_c12, both_ways_free) *)
Definition run_spec_c12_batch (x : sx) : sx :=
  match x with
  | L [a; b; e; c; d] =>
      match sx_nat a, sx_pd b, sx_Lnat e, sx_nat c, sx_Lnat d with
      | Some ng, Some pd, Some ps, Some n, Some sel =>
          sx_ok (L [of_bool (spec_c12_batch ng ps (marks_of pd) n sel);
                    of_bool (spec_c12 ng ps (marks_of pd) n sel);
                    of_bool (both_ways_free pd)])
      | _, _, _, _, _ => sx_bad end
  | _ => sx_bad end.

(* ====================================================================================================
   Additions (audit 3, defect A10).  Nothing above this line was changed.
   The loop for EVERY genes_at_a_time = k with each pop named by a deterministic rule `pick`
   (Model/Selection.v pick_fn: the rule sees, for every call of _update_been_filled so far, whether
   sorted_utility_idx was recomputed, the utility array after the call and marker_gene_name_list at the
   call, plus marker_gene_name_list now).  Inside a batch nothing is recomputed: the rule is asked again
   with the SAME history and the grown marker_gene_name_list - for pick_pop that is exactly the next
   pop(-1) of the same list.  Every pop is checked as in popk (a member of the list of maximal utility
   among the members; the two early-stop tests are the code's, evaluated before the rule is asked).
   ==================================================================================================== *)
Section PickK.
Variable n_genes : nat.
Variable pairs : list nat.
Variable marks : nat -> slot -> bool.
Variable n : nat.
Variable k : nat.                          (* genes_at_a_time *)

Inductive bres :=
| BOk (st : state) (pool : list nat)   (* _choose_gene returned *)
| BIllegal (g : nat)                   (* the rule named a gene that cannot be the last element of the list *)
| BStuck                               (* the rule named no gene *)
| BRaise (e : kerr).                   (* RuntimeError: chose gene twice *)

(* _choose_gene(chosen_idx=None, genes_at_a_time=j) *)
Fixpoint pop_with (pick : pick_fn) (hist : list hentry) (j : nat) (st : state) (pool : list nat) : bres :=
  match j with
  | O => BOk st pool
  | S j' =>
      match pool with
      | [] => BOk st pool                                   (* len(sorted_utility_idx) == 0: break *)
      | _ :: _ =>
          if exhausted st pool then BOk st pool             (* utility_array[sorted_utility_idx[-1]] <= 0: break *)
          else match pick hist (chosen st) with
               | None => BStuck
               | Some g =>
                   if is_top st pool g then
                     if nmem g (chosen st) then BRaise (KTwice g)
                     else pop_with pick hist j' (choose marks st g) (pool_remove g pool)
                   else BIllegal g
               end
      end
  end.

Inductive wkres :=
| WKDone (st : state) | WKIllegal (g : nat) | WKStuck | WKOutOfFuel | WKRaise (e : kerr).

(* `while True`, k pops per pass *)
Fixpoint run_with_k (pick : pick_fn) (fuel : nat) (hist : list hentry) (st : state) (pool : list nat) : wkres :=
  match fuel with
  | O => WKOutOfFuel
  | S f =>
      let hist1 := observe n_genes pairs marks n st hist in
      let st1 := update_filled n_genes pairs marks n st in
      if finished n_genes pairs st1 then WKDone st1
      else match pop_with pick hist1 k st1 (refresh n_genes pairs marks n st pool) with
           | BOk st2 pool2 => run_with_k pick f hist1 st2 pool2
           | BIllegal g => WKIllegal g
           | BStuck => WKStuck
           | BRaise e => WKRaise e
           end
  end.

(* the whole of _run_selection(genes_at_a_time = k) with the rule `pick`; for k >= 1 fuel n_genes + 1
   always suffices (every pass that does not break pops at least one gene) *)
Definition select_with_k (pick : pick_fn) : wkres :=
  run_with_k pick (S n_genes) (hist0_sorted n_genes pairs marks n)
             (start n_genes pairs marks n) (pool0 n_genes pairs marks n).

(* the history a rule has seen when a recorded run (batches) ends *)
Fixpoint hist_along_k (hist : list hentry) (st : state) (pool : list nat) (batches : list (list nat))
  : option (list hentry) :=
  match batches with
  | [] => Some (observe n_genes pairs marks n st hist)
  | b :: t => match stepk n_genes pairs marks n k st pool b with
              | SNext st' pool' => hist_along_k (observe n_genes pairs marks n st hist) st' pool' t
              | _ => None
              end
  end.
End PickK.

(* the k = 1 loop of Model/Selection.v seen as a result of the batched one *)
Definition wk_of_wres (r : wres) : wkres :=
  match r with
  | WDone st => WKDone st
  | WIllegal g => WKIllegal g
  | WStuck => WKStuck
  | WOutOfFuel => WKOutOfFuel
  end.

(* ---------------- select_all_markers / _marker_selection_worker, one parent, every k ---------------- *)
Inductive parent_res_k :=
| PKSkip
| PKRun (ng : nat) (r : wkres)
| PKErrOverlap
| PKErrPair.

(* Selection.select_parent with genes_at_a_time = k handed down to _run_selection *)
Definition select_parent_k (k : nat) (pick : pick_fn) (rm : refmarkers) (query : list Z) (t : tree)
                           (parent : option (nat * node)) (behemoth : bool) (n : nat) : parent_res_k :=
  match keep_idx rm query with
  | [] => PKErrOverlap
  | _ :: _ =>
      let rm' := thin_genes rm query in
      match leaf_pairs t parent with
      | [] => PKSkip
      | _ :: _ =>
          match (if behemoth then Some rm' else downsample_pairs rm' (leaf_pairs t parent)) with
          | None => PKErrPair
          | Some arr =>
              match parent_idx arr t parent true with
              | None => PKErrPair
              | Some idx => PKRun (length (rm_genes arr))
                                  (select_with_k (length (rm_genes arr)) idx (marks_of (pair_tables arr)) n k pick)
              end
          end
      end
  end.

Definition pk_of_parent_res (r : parent_res) : parent_res_k :=
  match r with
  | PSkip => PKSkip
  | PRun ng w => PKRun ng (wk_of_wres w)
  | PErrOverlap => PKErrOverlap
  | PErrPair => PKErrPair
  end.

(* ---------------- wire (dispatch.d/c12_downsample.txt) ---------------- *)
Definition of_wkres (r : wkres) : sx :=
  match r with
  | WKDone st => sx_ok (of_Lnat (chosen st))
  | WKIllegal g => L [I 1%Z; I 1%Z; of_nat g]
  | WKStuck => sx_err 2
  | WKOutOfFuel => sx_err 3
  | WKRaise e => of_kerr e
  end.
Definition of_parent_res_k (r : parent_res_k) : sx :=
  match r with
  | PKSkip => L [I 0%Z; L []]
  | PKRun ng w => L [I 1%Z; of_nat ng; of_wkres w]
  | PKErrOverlap => L [I 2%Z; L []]
  | PKErrPair => L [I 3%Z; L []]
  end.

(* tag 1264: (n_genes pd idx n k prefix batches) -> the history (flag, utility array, chosen) along the
   recorded batched run *)
Definition run_history_k (x : sx) : sx :=
  match x with
  | L [a; b; e; c; kk; d; f] =>
      match sx_nat a, sx_pd b, sx_Lnat e, sx_nat c, sx_nat kk, sx_Lnat d, sx_LLnat f with
      | Some ng, Some pd, Some ps, Some n, Some k, Some pre, Some bs =>
          let m := marks_of pd in
          if list_eqb pre (chosen (start ng ps m n)) then
            match hist_along_k ng ps m n k (hist0_sorted ng ps m n) (start ng ps m n) (pool0 ng ps m n) bs with
            | Some h => sx_ok (of_list of_hentry h)
            | None => sx_err 1
            end
          else sx_err 2
      | _, _, _, _, _, _, _ => sx_bad end
  | _ => sx_bad end.

(* tag 1265: (n_genes pd idx n k table) -> _run_selection(genes_at_a_time = k) with the rule pick_pop
   (np.argsort given as a table) *)
Definition run_select_pop_k (x : sx) : sx :=
  match x with
  | L [a; b; e; c; kk; d] =>
      match sx_nat a, sx_pd b, sx_Lnat e, sx_nat c, sx_nat kk, sx_list (sx_pair sx_LZ sx_Lnat) d with
      | Some ng, Some pd, Some ps, Some n, Some k, Some tbl =>
          of_wkres (select_with_k ng ps (marks_of pd) n k (pick_pop (table_sorter tbl)))
      | _, _, _, _, _, _ => sx_bad end
  | _ => sx_bad end.

(* tag 1266: (refmarkers query tree parent n k table) -> select_parent_k with the rule pick_pop, the
   parent treated as a behemoth and not *)
Definition run_select_parent_k (x : sx) : sx :=
  match x with
  | L [a; b; c; d; f; kk; g] =>
      match sx_refmarkers a, sx_LZ b, sx_tree c, sx_parent d, sx_nat f, sx_nat kk, sx_list (sx_pair sx_LZ sx_Lnat) g with
      | Some rm, Some q, Some t, Some p, Some n, Some k, Some tbl =>
          let pick := pick_pop (table_sorter tbl) in
          L [of_parent_res_k (select_parent_k k pick rm q t p true n);
             of_parent_res_k (select_parent_k k pick rm q t p false n)]
      | _, _, _, _, _, _, _ => sx_bad end
  | _ => sx_bad end.
