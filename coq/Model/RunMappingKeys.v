(* The key convention of the marker table around the reduction of the tree (C17).

   In the code a key of the marker table is the STRING 'level_name/node' ('None' for the
   root) and TaxonomyTree.drop_level keeps the names of the surviving levels: after dropping
   'class' from ['class','subclass','cluster'] the parent ('subclass','a1') of the reduced tree
   is still looked up under 'subclass/a1', and the entries 'class/...' stay in the dict under
   names that are no longer levels of the tree (marker_cache_v2.validate_marker_lookup iterates
   the parents of the tree it is given and builds the key from (level name, node)).

   In Model/Markers.v and Model/Tree.v a level name is a POSITION in the hierarchy of the
   tree that is queried.  Model/RunMapping.v hands its table argument unchanged to
   cache_ok / mk_decide together with the REDUCED tree, so that argument is keyed by the
   positions of the reduced tree.  `rekey m` is the translation from a table keyed by the
   stored positions (the JSON file as written for the stored tree) to that convention:
   m = the stored position of every level of the reduced tree (second component of
   RunMapping.reduce); a key whose level is not a level of the reduced tree is sent to an index
   that is not a level of the reduced tree either (Markers.v: 'a level name that is not in the
   hierarchy gets an index >= the number of levels'), injectively.
   `run_mapping_named` is run_mapping_model for a table keyed by stored names.
   Definitions only. *)
From Coq Require Import ZArith List Bool Arith.
From CTM Require Import Base.Sx Base.SortX Model.Tree Model.Election Model.RunMapping.
From CTM Require Model.Markers.
Import ListNotations.
Open Scope Z_scope.

(* hierarchy.index(name) *)
Fixpoint index_of (s : nat) (m : list nat) : option nat :=
  match m with
  | [] => None
  | h :: r => if Nat.eqb s h then Some O else option_map S (index_of s r)
  end.

Definition rekey_key (m : list nat) (k : Markers.pkey) : Markers.pkey :=
  match k with
  | None => None
  | Some (s, x) =>
      match index_of s m with
      | Some j => Some (j, x)                       (* the same name, at its position in the reduced tree *)
      | None => Some ((length m + s)%nat, x)        (* a name that is not a level of the reduced tree *)
      end
  end.

Definition rekey (m : list nat) (tb : Markers.table) : Markers.table :=
  map (fun kl => (rekey_key m (fst kl), snd kl)) tb.

(* the entries whose level survives the reduction (the root entry always does) *)
Definition surviving (m : list nat) (kl : Markers.pkey * list Markers.gene) : bool :=
  match fst kl with
  | None => true
  | Some (s, _) => nat_mem s m
  end.

Section RunNamed.
Variable cell rng : Type.
Variable cache_ok : tree -> Markers.table -> bool.
Variable mk_decide : tree -> Markers.table ->
                     rng -> option (nat * node) -> list node -> list cell -> list rec * rng.

(* _run_mapping with the marker table keyed by the names of the STORED tree *)
Definition run_mapping_named (t : tree) (c : cfg) (tb : Markers.table) (cells : list cell) (g : rng)
  : tres (list cellmap * rng) :=
  match reduce t c with
  | TErr e => TErr e
  | TOk (_, m) => run_mapping_model cell rng cache_ok mk_decide t c (rekey m tb) cells g
  end.

(* what _run_mapping does once the tree is reduced: marker cache and election on the reduced
   tree t' ALONE, then the election's rows keyed by the stored names m and completed by
   backfill_assignments of the stored tree.  (stored, m) are used by the last step only. *)
Definition run_core (t' : tree) (tb : Markers.table) (cells : list cell) (g : rng)
           (stored : tree) (m : list nat) : tres (list cellmap * rng) :=
  if negb (cache_ok t' tb) then TErr E_MARKERS
  else match run_type_assignment cell rng (mk_decide t' tb) t' cells g with
       | Ok (rows, g') =>
           match backfill stored (map (place m) rows) with
           | TOk out => TOk (out, g')
           | TErr e => TErr e
           end
       | ErrNoChildren => TErr E_NOCHILD
       | ErrNoCorrAbove => TErr E_NOCORR
       | ErrShape => TErr E_SHAPE
       end.
End RunNamed.

(* ---------------- wire ---------------- *)
(* tag 1707: (tree li table query min) with the table keyed by the positions of the STORED tree
   -> drop_level li (under the guard of _run_mapping), rekey, validate_marker_lookup on the
   reduced tree: (level-map  patched table (keys = positions of the reduced tree)  log) *)
Definition run_validate_named (x : sx) : sx :=
  match x with
  | L [a; b; c; d; e] =>
      match sx_tree a, sx_nat b, Markers.sx_table c, sx_LZ d, sx_nat e with
      | Some t, Some li, Some tb, Some q, Some minm =>
          match reduce t {| cfg_drop := Some li; cfg_flatten := false |} with
          | TErr err => sx_err (100 + err)
          | TOk (t', m) =>
              Markers.of_mres (fun r => L [of_Lnat m; Markers.of_table (fst r);
                                           of_list (fun en => L [Markers.of_pkey (fst en); of_list Markers.of_pkey (snd en)]) (snd r)])
                              (Markers.validate_marker_lookup (rekey m tb) q t' minm)
          end
      | _, _, _, _, _ => sx_bad end
  | _ => sx_bad end.
