(* Model of the correlation bookkeeping of type_assignment/election.py:
     tally_votes      (votes[q, nn] += 1 ; corr_sum[q, nn] += corr   per bootstrap iteration),
     aggregate_votes  (columns of one reference type summed),
     choose_node      (denom = where(votes > 0, votes, 1) ; avg_corr = corr_sum / denom)
   for ONE query row.  An iteration is (nearest leaf column, correlation numerator): the correlations are
   exact integers over one common positive denominator D (the harness makes them multiples of 2^-20, so that
   the binary64 sums of the implementation are exact).  Definitions only. *)
From Coq Require Import List ZArith Bool.
From CTM Require Import Base.Sx.
Import ListNotations.
Open Scope Z_scope.

Definition iter := (nat * Z)%type.

(* a[i] = f a[i]; out of range: unchanged (the implementation would raise IndexError; excluded by
   [iters_in_range], which the wire function checks and reports as an error value) *)
Fixpoint upd_at {A} (f : A -> A) (i : nat) (l : list A) {struct l} : list A :=
  match l with
  | [] => []
  | x :: t => match i with O => f x :: t | S j => x :: upd_at f j t end
  end.

(* one pass of the final loop of tally_votes *)
Definition tally_step (st : list Z * list Z) (it : iter) : list Z * list Z :=
  (upd_at (Z.add 1) (fst it) (fst st), upd_at (Z.add (snd it)) (fst it) (snd st)).

Definition zeros (n : nat) : list Z := repeat 0 n.

Definition tally_corr (n_ref : nat) (its : list iter) : list Z * list Z :=
  fold_left tally_step its (zeros n_ref, zeros n_ref).

Definition iters_in_range (n_ref : nat) (its : list iter) : bool :=
  forallb (fun it => Nat.ltb (fst it) n_ref) its.

(* aggregate_votes: array[:, where(reference_types == t)].sum(axis=1) *)
Fixpoint sum_where (owners : list Z) (vals : list Z) (t : Z) : Z :=
  match owners, vals with
  | o :: os, v :: vs => (if o =? t then v else 0) + sum_where os vs t
  | _, _ => 0
  end.

(* the pair (numerator, denominator) of avg_corr for type t; the denominator carries D *)
Definition avg_corr (D : Z) (owners : list Z) (st : list Z * list Z) (t : Z) : Z * Z :=
  let v := sum_where owners (fst st) t in
  (sum_where owners (snd st) t, D * (if 0 <? v then v else 1)).

(* what the property says these numbers are: the iterations that voted for a leaf owned by t *)
Definition voted_for (owners : list Z) (t : Z) (it : iter) : bool :=
  match nth_error owners (fst it) with Some o => o =? t | None => false end.

Definition own_votes (owners : list Z) (its : list iter) (t : Z) : Z :=
  Z.of_nat (length (filter (voted_for owners t) its)).

Definition own_corr_sum (owners : list Z) (its : list iter) (t : Z) : Z :=
  fold_right Z.add 0 (map snd (filter (voted_for owners t) its)).

(* ---- wire ---- *)
(* tag 203: (owners ((leaf corr_num) ...) (t ...)) -> ((t votes corr_sum_num) ...) ; error 1 = a leaf index out of range *)
Definition run_avg_corr (x : sx) : sx :=
  match x with
  | L [owners; its; types] =>
      match sx_LZ owners, sx_list (sx_pair sx_nat sx_Z) its, sx_LZ types with
      | Some owners', Some its', Some types' =>
          if iters_in_range (length owners') its' then
            let st := tally_corr (length owners') its' in
            sx_ok (of_list (fun t => L [I t; I (sum_where owners' (fst st) t); I (sum_where owners' (snd st) t)]) types')
          else sx_err 1
      | _, _, _ => sx_bad
      end
  | _ => sx_bad
  end.
