(* Model of taxonomy/utils.py and taxonomy/taxonomy_tree.py.
   Names are order-preserving integers.  A level is a Python dict in insertion
   order: node |-> list of children (for the leaf level: list of cell rows).
   A tree is the list of levels in hierarchy order (top first); level *names*
   are positions.  Dict well-formedness (NoDup keys) is a precondition of the
   theorems, as it is of any Python dict.  Definitions only. *)
From Coq Require Import ZArith List Bool.
From CTM Require Import Base.Sx Base.SortX.
Import ListNotations.
Open Scope Z_scope.

Definition node := Z.
Definition level := list (node * list Z).
Definition tree := list level.

Definition nodes (lv : level) : list node := map fst lv.
Definition children_of (lv : level) (x : node) : list Z :=
  match zassoc x lv with Some c => c | None => [] end.
Definition is_nil {A} (l : list A) : bool := match l with [] => true | _ => false end.

(* ---------------- validate_taxonomy_tree ---------------- *)
(* "check that all children have a parent" *)
Definition all_have_parent (pl cl : level) : bool :=
  forallb (fun c => zmem c (concat (map snd pl))) (nodes cl).

(* the double loop building child_to_parent: None = RuntimeError.
   A child that is already recorded is refused whoever its recorded parent is: another
   parent ("has at least two parents") or this very parent ("is listed more than once as a
   child of ...": the keys of a dict are visited once, so that is a repeat inside one list). *)
Fixpoint scan_children (cl : level) (p : node) (cs : list Z) (c2p : list (Z * Z))
  : option (list (Z * Z)) :=
  match cs with
  | [] => Some c2p
  | c :: t =>
      if negb (zmem c (nodes cl)) then None
      else match zassoc c c2p with
           | Some _ => None
           | None => scan_children cl p t ((c, p) :: c2p)
           end
  end.
Fixpoint scan_parents (cl : level) (pl : level) (c2p : list (Z * Z)) : option (list (Z * Z)) :=
  match pl with
  | [] => Some c2p
  | (p, cs) :: t =>
      match scan_children cl p cs c2p with
      | Some c2p' => scan_parents cl t c2p'
      | None => None
      end
  end.
Definition validate_pair (pl cl : level) : bool :=
  all_have_parent pl cl && match scan_parents cl pl [] with Some _ => true | None => false end.
Fixpoint validate_pairs (t : tree) : bool :=
  match t with
  | pl :: ((cl :: _) as rest) => validate_pair pl cl && validate_pairs rest
  | _ => true
  end.
Definition leaf_level (t : tree) : level := last t [].
Definition leaf_rows (t : tree) : list Z := concat (map snd (leaf_level t)).
Definition validate (t : tree) : bool :=
  negb (is_nil t) && validate_pairs t && znodup_b (leaf_rows t).

(* ---------------- queries ---------------- *)
(* get_child_to_parent: result[child] = parent, the last assignment wins *)
Definition parent_of (pl : level) (c : node) : option node :=
  option_map fst (find (fun pc => zmem c (snd pc)) (rev pl)).

(* TaxonomyTree.parents(level li, node): ancestors nearest first, as (level index, node) *)
Fixpoint ancestors (t : tree) (li : nat) (x : node) : list (nat * node) :=
  match li with
  | O => []
  | S k => match parent_of (nth k t []) x with
           | Some p => (k, p) :: ancestors t k p
           | None => []
           end
  end.

(* all_parents: None (root) first, then (level, node) for every non-leaf level *)
Fixpoint all_parents_from (li : nat) (t : tree) : list (nat * node) :=
  match t with
  | lv :: ((_ :: _) as rest) => map (fun x => (li, x)) (nodes lv) ++ all_parents_from (S li) rest
  | _ => []
  end.
Definition all_parents (t : tree) : list (option (nat * node)) :=
  None :: map Some (all_parents_from 0 t).

(* children(level, node); children(None, None) = top-level nodes *)
Definition children (t : tree) (parent : option (nat * node)) : list node :=
  match parent with
  | None => nodes (hd [] t)
  | Some (li, x) => children_of (nth li t []) x
  end.

(* _get_leaves_from_tree: rest = the levels from x's own level downward *)
Fixpoint leaves_from (rest : list level) (x : node) : list node :=
  match rest with
  | [] => []
  | lv :: below =>
      match below with
      | [] => [x]                                   (* level == hierarchy[-1] *)
      | _ :: below2 =>
          match below2 with
          | [] => children_of lv x                  (* level == hierarchy[-2]: unsorted *)
          | _ => flat_map (leaves_from below) (zsort (children_of lv x))
          end
      end
  end.
(* convert_tree_to_leaves *)
Fixpoint as_leaves (t : tree) : list (list (node * list node)) :=
  match t with
  | [] => []
  | lv :: below => map (fun x => (x, leaves_from t x)) (nodes lv) :: as_leaves below
  end.

(* itertools.combinations(l, 2) *)
Fixpoint combos2 {A} (l : list A) : list (A * A) :=
  match l with
  | [] => []
  | x :: t => map (fun y => (x, y)) t ++ combos2 t
  end.
Definition order_pair (p : Z * Z) : Z * Z := if fst p <? snd p then p else (snd p, fst p).

(* get_all_leaf_pairs *)
Definition leaf_pairs (t : tree) (parent : option (nat * node)) : list (node * node) :=
  let n := length t in
  match parent with
  | Some (li, x) =>
      if Nat.eqb (S li) n then []
      else
        let rest := skipn (S li) t in
        flat_map (fun ab => map order_pair (list_prod (leaves_from rest (fst ab)) (leaves_from rest (snd ab))))
                 (combos2 (children_of (nth li t []) x))
  | None =>
      flat_map (fun ab => map order_pair (list_prod (leaves_from t (fst ab)) (leaves_from t (snd ab))))
               (combos2 (nodes (hd [] t)))
  end.

(* ---------------- transformations ---------------- *)
Inductive tres (A : Type) := TOk (a : A) | TErr (code : Z).
Arguments TOk {A}. Arguments TErr {A}.
Definition E_FLAT := 1.       (* cannot drop a level from a flat tree *)
Definition E_NOLEVEL := 2.    (* level not in the hierarchy *)
Definition E_LEAF := 3.       (* that is the leaf level *)
Definition E_INVALID := 4.    (* the constructor's validation failed *)

Fixpoint remove_nth {A} (n : nat) (l : list A) : list A :=
  match l, n with
  | [], _ => []
  | _ :: t, O => t
  | h :: t, S k => h :: remove_nth k t
  end.
Fixpoint replace_nth {A} (n : nat) (x : A) (l : list A) : list A :=
  match l, n with
  | [], _ => []
  | _ :: t, O => x :: t
  | h :: t, S k => h :: replace_nth k x t
  end.

Definition mk_tree (t : tree) : tres tree := if validate t then TOk t else TErr E_INVALID.

(* TaxonomyTree._drop_level(level at index li, allow_leaf) *)
Definition drop_level_gen (t : tree) (li : nat) (allow_leaf : bool) : tres tree :=
  let n := length t in
  if Nat.eqb n 1 then TErr E_FLAT
  else if Nat.leb n li then TErr E_NOLEVEL
  else if negb allow_leaf && Nat.eqb (S li) n then TErr E_LEAF
  else match li with
       | O => mk_tree (tl t)
       | S pi =>
           let dropped := nth li t [] in
           let new_parent := map (fun nc => (fst nc, flat_map (children_of dropped) (snd nc))) (nth pi t []) in
           mk_tree (remove_nth li (replace_nth pi new_parent t))
       end.
Definition drop_level (t : tree) (li : nat) : tres tree := drop_level_gen t li false.
Definition drop_leaf_level (t : tree) : tres tree := drop_level_gen t (length t - 1) true.

Definition flatten (t : tree) : tres tree := mk_tree [leaf_level t].

(* to_str(drop_cells=True) then from_str *)
Definition drop_cells (t : tree) : tree :=
  match rev t with
  | [] => []
  | lf :: above => rev above ++ [map (fun nc => (fst nc, [])) lf]
  end.

(* get_taxonomy_tree: records = per cell, the label at every level (top first).
   Children are Python sets: modelled in first-occurrence order, compared as sets. *)
Fixpoint add_edge (lv : level) (p c : Z) (as_set : bool) : level :=
  match lv with
  | [] => [(p, [c])]
  | (q, cs) :: t =>
      if q =? p then (q, if as_set && zmem c cs then cs else cs ++ [c]) :: t
      else (q, cs) :: add_edge t p c as_set
  end.
Fixpoint add_record (t : tree) (labels : list Z) (row : Z) : tree :=
  match t, labels with
  | lv :: t', p :: ((c :: _) as rest) => add_edge lv p c true :: add_record t' rest row
  | lv :: _, [leaf] => [add_edge lv leaf row false]
  | _, _ => t
  end.
Fixpoint tree_of_records (n_levels : nat) (records : list (list Z)) (row : Z) (acc : tree) : tree :=
  match records with
  | [] => acc
  | r :: rest => tree_of_records n_levels rest (row + 1) (add_record acc r row)
  end.
Definition get_taxonomy_tree (n_levels : nat) (records : list (list Z)) : tres tree :=
  mk_tree (tree_of_records n_levels records 0 (repeat [] n_levels)).

(* is_equal_to: same node sets per level, same child sets per non-leaf node *)
Definition set_eqb (a b : list Z) : bool := forallb (fun x => zmem x b) a && forallb (fun x => zmem x a) b.
Fixpoint is_equal_to (t u : tree) : bool :=
  match t, u with
  | [], [] => true
  | lt :: t', lu :: u' =>
      set_eqb (nodes lt) (nodes lu) &&
      (match t' with
       | [] => true
       | _ => forallb (fun x => set_eqb (children_of lt x) (children_of lu x)) (nodes lt)
       end) && is_equal_to t' u'
  | _, _ => false
  end.

(* TaxonomyTree.__eq__: is_equal_to and, per leaf, the same set of rows *)
Definition tree_eqb (t u : tree) : bool :=
  is_equal_to t u &&
  forallb (fun x => set_eqb (children_of (leaf_level t) x) (children_of (leaf_level u) x))
          (nodes (leaf_level t)).
(* is_equal_to including its first test `self.hierarchy != other.hierarchy`
   (ht, hu = the level names of the two trees) *)
Fixpoint zlist_eqb (a b : list Z) : bool :=
  match a, b with
  | [], [] => true
  | x :: a', y :: b' => (x =? y) && zlist_eqb a' b'
  | _, _ => false
  end.
Definition is_equal_h (ht hu : list Z) (t u : tree) : bool := zlist_eqb ht hu && is_equal_to t u.

(* the queries with their error behaviour made explicit *)
Definition E_NONODE := 5.     (* children(level, node): node not at that level (RuntimeError) *)
Definition E_KEY := 6.        (* parents(level, node): node has no recorded parent (KeyError) *)
Definition children_chk (t : tree) (li : nat) (x : node) : tres (list Z) :=
  if zmem x (nodes (nth li t [])) then TOk (children_of (nth li t []) x) else TErr E_NONODE.
Fixpoint ancestors_chk (t : tree) (li : nat) (x : node) : tres (list (nat * node)) :=
  match li with
  | O => TOk []
  | S k => match parent_of (nth k t []) x with
           | Some p => match ancestors_chk t k p with
                       | TOk l => TOk ((k, p) :: l)
                       | TErr c => TErr c
                       end
           | None => TErr E_KEY
           end
  end.

(* as_leaves[level li][x] *)
Definition leaves_of (t : tree) (li : nat) (x : node) : list node := leaves_from (skipn li t) x.

(* ---------------- wire ---------------- *)
Definition sx_level : sx -> option level := sx_list (sx_pair sx_Z sx_LZ).
Definition sx_tree : sx -> option tree := sx_list sx_level.
Definition of_level (lv : level) : sx := of_list (of_pair of_Z of_LZ) lv.
Definition of_tree (t : tree) : sx := of_list of_level t.
Definition sx_parent (x : sx) : option (option (nat * node)) :=
  match x with
  | L [] => Some None
  | L [a; b] => match sx_nat a, sx_Z b with Some li, Some n => Some (Some (li, n)) | _, _ => None end
  | _ => None
  end.
Definition of_tres {A} (f : A -> sx) (r : tres A) : sx :=
  match r with TOk a => sx_ok (f a) | TErr c => sx_err c end.
Definition of_pairsZ (l : list (Z * Z)) : sx := of_list (of_pair of_Z of_Z) l.

(* tag 1001: tree -> validate *)
Definition run_validate (x : sx) : sx :=
  match sx_tree x with Some t => sx_ok (of_bool (validate t)) | None => sx_bad end.
(* tag 1002: tree -> as_leaves *)
Definition run_as_leaves (x : sx) : sx :=
  match sx_tree x with
  | Some t => sx_ok (of_list (of_list (of_pair of_Z of_LZ)) (as_leaves t))
  | None => sx_bad end.
(* tag 1003: (tree parent) -> leaf_pairs *)
Definition run_leaf_pairs (x : sx) : sx :=
  match x with
  | L [a; b] => match sx_tree a, sx_parent b with
                | Some t, Some p => sx_ok (of_pairsZ (leaf_pairs t p))
                | _, _ => sx_bad end
  | _ => sx_bad end.
(* tag 1004: (tree li) -> drop_level ; tag 1005: tree -> flatten ; tag 1006: tree -> drop_leaf_level *)
Definition run_drop_level (x : sx) : sx :=
  match x with
  | L [a; b] => match sx_tree a, sx_nat b with
                | Some t, Some li => of_tres of_tree (drop_level t li)
                | _, _ => sx_bad end
  | _ => sx_bad end.
Definition run_flatten (x : sx) : sx :=
  match sx_tree x with Some t => of_tres of_tree (flatten t) | None => sx_bad end.
Definition run_drop_leaf (x : sx) : sx :=
  match sx_tree x with Some t => of_tres of_tree (drop_leaf_level t) | None => sx_bad end.
(* tag 1007: (tree li node) -> parents (ancestors nearest first) *)
Definition run_ancestors (x : sx) : sx :=
  match x with
  | L [a; b; c] => match sx_tree a, sx_nat b, sx_Z c with
                   | Some t, Some li, Some n => sx_ok (of_list (of_pair of_nat of_Z) (ancestors t li n))
                   | _, _, _ => sx_bad end
  | _ => sx_bad end.
(* tag 1008: (n_levels records) -> get_taxonomy_tree *)
Definition run_from_records (x : sx) : sx :=
  match x with
  | L [a; b] => match sx_nat a, sx_LLZ b with
                | Some n, Some r => of_tres of_tree (get_taxonomy_tree n r)
                | _, _ => sx_bad end
  | _ => sx_bad end.
(* tag 1009: tree -> all_parents as list of () | (li node) *)
Definition run_all_parents (x : sx) : sx :=
  match sx_tree x with
  | Some t => sx_ok (of_list (fun p => match p with None => L [] | Some (li, n) => L [of_nat li; I n] end) (all_parents t))
  | None => sx_bad end.
(* tag 1010: tree -> drop_cells *)
Definition run_drop_cells (x : sx) : sx :=
  match sx_tree x with Some t => sx_ok (of_tree (drop_cells t)) | None => sx_bad end.
(* tag 1011: (tree tree) -> is_equal_to *)
Definition run_is_equal (x : sx) : sx :=
  match x with
  | L [a; b] => match sx_tree a, sx_tree b with
                | Some t, Some u => sx_ok (of_bool (is_equal_to t u))
                | _, _ => sx_bad end
  | _ => sx_bad end.

(* tag 1012: tree -> per level, per node: (node children parents) ; parents as result *)
Definition of_anc (l : list (nat * node)) : sx := of_list (of_pair of_nat of_Z) l.
Fixpoint node_table_from (t : tree) (li : nat) (rest : list level) : list sx :=
  match rest with
  | [] => []
  | lv :: below =>
      of_list (fun x => L [I x; of_tres of_LZ (children_chk t li x); of_tres of_anc (ancestors_chk t li x)])
              (nodes lv)
      :: node_table_from t (S li) below
  end.
Definition run_node_table (x : sx) : sx :=
  match sx_tree x with
  | Some t => sx_ok (L [of_LZ (children t None); L (node_table_from t 0 t)])
  | None => sx_bad end.
(* tag 1013: tree -> leaf_pairs for every entry of all_parents, in that order *)
Definition run_all_leaf_pairs (x : sx) : sx :=
  match sx_tree x with
  | Some t => sx_ok (of_list (fun p => of_pairsZ (leaf_pairs t p)) (all_parents t))
  | None => sx_bad end.
(* tag 1014: tree -> drop_level at every index 0 .. length t (the last one is "not a level") *)
Definition run_all_drops (x : sx) : sx :=
  match sx_tree x with
  | Some t => sx_ok (of_list (fun li => of_tres of_tree (drop_level t li)) (seq 0 (S (length t))))
  | None => sx_bad end.
(* tag 1015: (ht hu t u) -> (is_equal_to incl. hierarchy names, __eq__) *)
Definition run_is_equal_h (x : sx) : sx :=
  match x with
  | L [a; b; c; d] => match sx_LZ a, sx_LZ b, sx_tree c, sx_tree d with
                      | Some ht, Some hu, Some t, Some u =>
                          sx_ok (L [of_bool (is_equal_h ht hu t u); of_bool (zlist_eqb ht hu && tree_eqb t u)])
                      | _, _, _, _ => sx_bad end
  | _ => sx_bad end.
(* tag 1016: (tree li node) -> children / parents with their error behaviour *)
Definition run_query_chk (x : sx) : sx :=
  match x with
  | L [a; b; c] => match sx_tree a, sx_nat b, sx_Z c with
                   | Some t, Some li, Some n =>
                       sx_ok (L [of_tres of_LZ (children_chk t li n); of_tres of_anc (ancestors_chk t li n)])
                   | _, _, _ => sx_bad end
  | _ => sx_bad end.

(* ================= additions (C10 compositions; used by C01 / C17) ================= *)
(* drop_level applied repeatedly: every position refers to the tree that is current at that moment *)
Fixpoint drop_levels (t : tree) (lis : list nat) : tres tree :=
  match lis with
  | [] => TOk t
  | li :: rest => match drop_level t li with
                  | TOk t' => drop_levels t' rest
                  | TErr c => TErr c
                  end
  end.

(* TaxonomyTree.backfill_assignments, the 'assignment' of one cell: rec = per level of the
   hierarchy (top first) the node stored for the cell, None = that level is absent from the
   cell's record.  The loop runs over (child level, parent level) from the leaves upward; a
   level that is present is left alone; a level that is absent is filled with the recorded
   parent of the node one level down when that level is present (KeyError when the node has
   no recorded parent); a level filled in one step counts as present in the next.
   k = number of (child, parent) pairs still to process: the next pair is (level k, level k-1). *)
Fixpoint backfill_from (t : tree) (k : nat) (rec : list (option node)) : tres (list (option node)) :=
  match k with
  | O => TOk rec
  | S j =>
      match nth j rec None with
      | Some _ => backfill_from t j rec
      | None =>
          match nth (S j) rec None with
          | None => backfill_from t j rec
          | Some c =>
              match parent_of (nth j t []) c with
              | Some p => backfill_from t j (replace_nth j (Some p) rec)
              | None => TErr E_KEY
              end
          end
      end
  end.
Definition backfill (t : tree) (rec : list (option node)) : tres (list (option node)) :=
  backfill_from t (length t - 1) rec.

(* the ancestor of node x (of level li) at level k <= li: x itself for k = li, else the entry of
   level k in parents(li, x) *)
Definition ancestor_at (t : tree) (li : nat) (x : node) (k : nat) : option node :=
  if Nat.eqb k li then Some x
  else option_map snd (find (fun a => Nat.eqb (fst a) k) (ancestors t li x)).

(* wire *)
Definition sx_optZ (x : sx) : option (option Z) :=
  match x with
  | L [] => Some None
  | L [I z] => Some (Some z)
  | _ => None
  end.
(* tag 1017: (tree (li ...)) -> drop_levels *)
Definition run_drop_levels (x : sx) : sx :=
  match x with
  | L [a; b] => match sx_tree a, sx_Lnat b with
                | Some t, Some lis => of_tres of_tree (drop_levels t lis)
                | _, _ => sx_bad end
  | _ => sx_bad end.
(* tag 1018: (tree ((() | (node)) ...)) -> backfill *)
Definition run_backfill (x : sx) : sx :=
  match x with
  | L [a; b] => match sx_tree a, sx_list sx_optZ b with
                | Some t, Some r => of_tres (of_list (of_option of_Z)) (backfill t r)
                | _, _ => sx_bad end
  | _ => sx_bad end.
