(* ExitCode — the domain on which Model/Pool.v exit_code_of is what
   multiprocessing.Process.exitcode reports (audit 3, item 13).  Definitions only.

   os._exit(k): k is converted to a C int.  Outside -2^31 <= k < 2^31 the call itself raises
   OverflowError ("Python int too large to convert to C int") inside the worker, the target
   has raised, and the worker's exit code is 1 - not k mod 256 (observed: os._exit(2**31) -> 1,
   os._exit(-2**31-1) -> 1, os._exit(2**31-1) -> 255, os._exit(-2**31) -> 0, os._exit(-1) -> 255,
   os._exit(256) -> 0; exit_code_of (Exits (2^31)) = 0).

   Killed s: only a signal that TERMINATES the worker gives exitcode -s.  Sent to a forked
   multiprocessing.Process asleep in time.sleep (python 3.12, Linux; every s in 1..64 tried):
     exitcode = -s   for every s in 1..64 except the eleven below;
     2  SIGINT    KeyboardInterrupt is raised in the worker: exitcode 1 (as Raises);
     13 SIGPIPE, 25 SIGXFSZ   ignored by the Python runtime: the worker goes on, exitcode 0;
     17 SIGCHLD, 18 SIGCONT, 23 SIGURG, 28 SIGWINCH   ignored by default: exitcode 0;
     19 SIGSTOP, 20 SIGTSTP, 21 SIGTTIN, 22 SIGTTOU   the worker is stopped, it does not
        terminate (a hanging worker: not modelled, see the assumptions of the check). *)
From Coq Require Import ZArith List Bool.
Import ListNotations.

Definition exit_arg_ok (k : Z) : Prop := (- 2 ^ 31 <= k < 2 ^ 31)%Z.

Definition non_terminating_signals : list Z := [2; 13; 17; 18; 19; 20; 21; 22; 23; 25; 28]%Z.

Definition terminating_signal (s : Z) : bool :=
  ((1 <=? s) && (s <=? 64))%Z && negb (existsb (Z.eqb s) non_terminating_signals).
