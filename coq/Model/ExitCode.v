(* ExitCode — the domain on which Model/Pool.v exit_code_of is what
   multiprocessing.Process.exitcode reports (audit 3, item 13).  Definitions only.

   os._exit(k): k is converted to a C int.  Outside -2^31 <= k < 2^31 the call itself raises
   OverflowError ("Python int too large to convert to C int") inside the worker, the target
   has raised, and the worker's exit code is 1 - not k mod 256 (observed: os._exit(2**31) -> 1,
   os._exit(-2**31-1) -> 1, os._exit(2**31-1) -> 255, os._exit(-2**31) -> 0, os._exit(-1) -> 255,
   os._exit(256) -> 0; exit_code_of (Exits (2^31)) = 0).

   Killed s: only a signal that TERMINATES the worker gives exitcode -s.  Sent to a forked
   multiprocessing.Process asleep in time.sleep (python 3.12, Linux; every s in 1..64 tried):
     exitcode = -s   for every s in 1..64 except the eleven below;
     2  SIGINT    KeyboardInterrupt is raised in the worker: exitcode 1 (as Raises);
     13 SIGPIPE, 25 SIGXFSZ   ignored by the Python runtime: the worker goes on, exitcode 0;
     17 SIGCHLD, 18 SIGCONT, 23 SIGURG, 28 SIGWINCH   ignored by default: exitcode 0;
     19 SIGSTOP, 20 SIGTSTP, 21 SIGTTIN, 22 SIGTTOU   the worker is stopped, it does not
        terminate (a hanging worker: not modelled, see the assumptions of the check). *)
From Coq Require Import ZArith List Bool.
From CTM Require Import Base.Sx.
Import ListNotations.

Definition exit_arg_ok (k : Z) : Prop := (- 2 ^ 31 <= k < 2 ^ 31)%Z.

Definition non_terminating_signals : list Z := [2; 13; 17; 18; 19; 20; 21; 22; 23; 25; 28]%Z.

Definition terminating_signal (s : Z) : bool :=
  ((1 <=? s) && (s <=? 64))%Z && negb (existsb (Z.eqb s) non_terminating_signals).

(* WHAT `Raises` MEANS (audit 4, A6).  Pool.exit_code_of Raises = 1 is the exit code of a worker whose
   target raises an instance of a subclass of `Exception`.  multiprocessing's BaseProcess._bootstrap treats
   SystemExit apart (python 3.12, observed on forked workers; harness tag 1407):
     raise SystemExit() / sys.exit()      code None      -> exitcode 0      (NOT a failure any parent can see)
     raise SystemExit(k), k an int                       -> exitcode k mod 256 (0 for k = 0, 256, ...)
     raise SystemExit('text') (neither None nor int)     -> exitcode 1
     raise KeyboardInterrupt / any other BaseException   -> exitcode 1
     raise RuntimeError / ValueError ... (Exception)     -> exitcode 1
   So `Raises` stands for RException (and, as far as the exit code goes, for every class but SystemExit
   with code None or a multiple of 256).  In run_mapping the difference matters a second time: the clause
   is `except Exception`, which a KeyboardInterrupt / SystemExit raised in the body of `try` skips
   (Model/RunEffects.v header). *)
Inductive raised_class :=
| RException                         (* an instance of a subclass of Exception *)
| RSystemExitNone                    (* SystemExit with code None *)
| RSystemExitInt (k : Z)             (* SystemExit(k), k an int (a C int: exit_arg_ok) *)
| RSystemExitOther                   (* SystemExit(x), x neither None nor an int *)
| RBaseException.                    (* KeyboardInterrupt, GeneratorExit, ... *)
Definition raise_exit_code (r : raised_class) : Z :=
  match r with
  | RException => 1
  | RSystemExitNone => 0
  | RSystemExitInt k => k mod 256
  | RSystemExitOther => 1
  | RBaseException => 1
  end%Z.
(* caught by `except Exception` *)
Definition is_exception (r : raised_class) : bool := match r with RException => true | _ => false end.

(* wire, tag 1407: (class arg) with class 0 Exception, 1 SystemExit(None), 2 SystemExit(arg),
   3 SystemExit('text'), 4 KeyboardInterrupt -> (exit code, caught by `except Exception`) *)
Definition run_raise_exit_code_sx (x : sx) : sx :=
  match x with
  | L [m; a] =>
      match sx_Z m, sx_Z a with
      | Some m, Some a =>
          match (match m with
                 | 0 => Some RException | 1 => Some RSystemExitNone | 2 => Some (RSystemExitInt a)
                 | 3 => Some RSystemExitOther | 4 => Some RBaseException | _ => None end)%Z with
          | Some r => sx_ok (L [I (raise_exit_code r); of_bool (is_exception r)])
          | None => sx_bad
          end
      | _, _ => sx_bad
      end
  | _ => sx_bad
  end.
