(* Model of type_assignment/election.py:run_type_assignment — the level-by-level
   routing of cells through `previously_assigned`, the write-back by row index and
   the two trailing passes (correlation inheritance, running product) — written in
   the shape of the code and parameterised by an abstract `decide` standing for
   _run_type_assignment (the bootstrapped vote, modelled in Vote.v).
   Definitions only. *)
From Coq Require Import ZArith List Bool.
From CTM Require Import Base.Sx Base.SortX Model.Tree.
Import ListNotations.
Open Scope Z_scope.

Definition frac := (Z * Z)%type.                    (* exact rational num/den *)

Record rec := {
  asg : node;                                       (* 'assignment' *)
  prob : frac;                                      (* 'bootstrapping_probability' *)
  corr : option frac;                               (* 'avg_correlation'; None = not computed *)
  runners : list (node * frac * frac);              (* (assignment, probability, correlation), votes > 0 only *)
  agg : frac                                        (* 'aggregate_probability' (filled by the last pass) *)
}.

Inductive outcome (A : Type) := Ok (a : A) | ErrNoChildren | ErrNoCorrAbove | ErrShape.
Arguments Ok {A}. Arguments ErrNoChildren {A}. Arguments ErrNoCorrAbove {A}. Arguments ErrShape {A}.

Fixpoint upd {A} (l : list A) (i : nat) (x : A) : list A :=
  match l, i with
  | [], _ => []
  | _ :: t, O => x :: t
  | h :: t, S j => h :: upd t j x
  end.

(* full_query_gene_data.downsample_cells(chosen_idx) *)
Definition pick {A} (l : list A) (idx : list nat) : list A :=
  flat_map (fun i => match nth_error l i with Some x => [x] | None => [] end) idx.

Definition pa_t := list (node * list nat).          (* previously_assigned[level] *)
Definition table := list (list (option rec)).       (* result[i_cell][level index] *)

Fixpoint distinct (l : list node) : list node :=
  match l with
  | [] => []
  | x :: t => x :: filter (fun y => negb (x =? y)) (distinct t)
  end.

(* type_to_idx / idx_to_type / assigned_this: rows of chosen_idx per chosen child *)
Definition regroup (chosen_idx : list nat) (rs : list rec) : pa_t :=
  map (fun c => (c, map fst (filter (fun ir => asg (snd ir) =? c) (combine chosen_idx rs))))
      (distinct (map asg rs)).

(* result[i_cell][child_level] = {...} for i_cell, ... in zip(chosen_idx, ...) *)
Definition write_back (res : table) (li : nat) (chosen_idx : list nat) (rs : list rec) : table :=
  fold_left (fun acc ir => upd acc (fst ir) (upd (nth (fst ir) acc []) li (Some (snd ir))))
            (combine chosen_idx rs) res.

Definition one : frac := (1, 1).
Definition trivial_rec (c : node) : rec :=
  {| asg := c; prob := one; corr := None; runners := []; agg := one |}.

Section Routing.
Variable cell rng : Type.
(* one call of _run_type_assignment: parent (None = root), its children, the cells
   routed to it (in row order); returns one record per cell and the advanced generator *)
Variable decide : rng -> option (nat * node) -> list node -> list cell -> list rec * rng.

Definition state := (rng * table * pa_t)%type.

(* body of `for parent_node in parent_node_list`; li = index of the child level *)
Definition visit (cells : list cell) (li : nat) (parent : option (nat * node)) (kids : list node)
           (chosen_idx : list nat) (st : state) : outcome state :=
  let '(g, res, pa) := st in
  match chosen_idx with
  | [] => Ok st                                               (* `continue` *)
  | _ =>
    match kids with
    | [] => ErrNoChildren                                     (* "Not sure how to proceed" *)
    | [only] =>
        let rs := map (fun _ => trivial_rec only) chosen_idx in
        Ok (g, write_back res li chosen_idx rs, regroup chosen_idx rs ++ pa)
    | _ =>
        let '(rs, g') := decide g parent kids (pick cells chosen_idx) in
        if Nat.eqb (length rs) (length chosen_idx)
        then Ok (g', write_back res li chosen_idx rs, regroup chosen_idx rs ++ pa)
        else ErrShape
    end
  end.

Fixpoint fold_outcome {A B} (f : A -> B -> outcome A) (l : list B) (a : A) : outcome A :=
  match l with
  | [] => Ok a
  | x :: t => match f a x with Ok a' => fold_outcome f t a' | e => e end
  end.

Definition lookup_pa (pa : pa_t) (x : node) : list nat :=
  match zassoc x pa with Some l => l | None => [] end.

(* one (parent_level, child_level) pair; li = index of the child level *)
Definition do_level (t : tree) (cells : list cell) (li : nat) (st : state) : outcome state :=
  let '(g, res, pa_prev) := st in
  match li with
  | O => visit cells O None (nodes (hd [] t)) (seq 0 (length cells)) (g, res, [])
  | S pli =>
      let lv := nth pli t [] in
      fold_outcome
        (fun st' x => visit cells li (Some (pli, x)) (children_of lv x) (lookup_pa pa_prev x) st')
        (zsort (nodes lv)) (g, res, [])
  end.

Fixpoint levels_from (t : tree) (cells : list cell) (li : nat) (n_left : nat) (st : state) : outcome state :=
  match n_left with
  | O => Ok st
  | S k => match do_level t cells li st with
           | Ok st' => levels_from t cells (S li) k st'
           | e => e
           end
  end.

(* trailing pass 1: a level without its own correlation inherits the one of the
   level above; at the top of the taxonomy there is nothing above: 1.0
   (in the unchanged code this was cell[None] -> KeyError, finding F1) *)
Fixpoint inherit (above : option frac) (row : list (option rec)) : outcome (list rec) :=
  match row with
  | [] => Ok []
  | None :: _ => ErrShape
  | Some r :: t =>
      let c := match corr r with
               | Some c => c
               | None => match above with Some a => a | None => one end
               end in
      match inherit (Some c) t with
      | Ok t' => Ok ({| asg := asg r; prob := prob r; corr := Some c; runners := runners r; agg := agg r |} :: t')
      | e => e
      end
  end.

(* trailing pass 2: aggregate_probability = running product *)
Definition fmul (a b : frac) : frac := (fst a * fst b, snd a * snd b).
Fixpoint running (acc : frac) (row : list rec) : list rec :=
  match row with
  | [] => []
  | r :: t =>
      let p := fmul acc (prob r) in
      {| asg := asg r; prob := prob r; corr := corr r; runners := runners r; agg := p |} :: running p t
  end.

Fixpoint map_outcome {A B} (f : A -> outcome B) (l : list A) : outcome (list B) :=
  match l with
  | [] => Ok []
  | x :: t => match f x with
              | Ok y => match map_outcome f t with Ok t' => Ok (y :: t') | e => e end
              | ErrNoChildren => ErrNoChildren | ErrNoCorrAbove => ErrNoCorrAbove | ErrShape => ErrShape
              end
  end.

Definition empty_table (t : tree) (cells : list cell) : table :=
  map (fun _ => map (fun _ => None) t) cells.

Definition run_type_assignment (t : tree) (cells : list cell) (g : rng) : outcome (list (list rec) * rng) :=
  match levels_from t cells 0 (length t) (g, empty_table t cells, []) with
  | Ok (g', res, _) =>
      match map_outcome (fun row => match inherit None row with
                                    | Ok r => Ok (running one r)
                                    | ErrNoChildren => ErrNoChildren
                                    | ErrNoCorrAbove => ErrNoCorrAbove
                                    | ErrShape => ErrShape end) res with
      | Ok rows => Ok (rows, g')
      | ErrNoChildren => ErrNoChildren | ErrNoCorrAbove => ErrNoCorrAbove | ErrShape => ErrShape
      end
  | ErrNoChildren => ErrNoChildren | ErrNoCorrAbove => ErrNoCorrAbove | ErrShape => ErrShape
  end.
End Routing.

(* ---------------- the property's executable statement (C01, C03 routing part) ---------------- *)
(* row = the records of one cell, one per level of t, top first *)
Fixpoint path_ok (t : tree) (row : list rec) : bool :=
  match t, row with
  | [], [] => true
  | lv :: t', r :: row' =>
      zmem (asg r) (nodes lv) &&
      (match t', row' with
       | [], _ => true
       | _ :: _, r' :: _ => zmem (asg r') (children_of lv (asg r))
       | _ :: _, [] => false
       end) && path_ok t' row'
  | _, _ => false
  end.

Definition spec_routing (t : tree) (n_cells : nat) (rows : list (list rec)) : bool :=
  Nat.eqb (length rows) n_cells && forallb (path_ok t) rows.

(* ---------------- wire: table-driven decide ---------------- *)
Definition sx_frac (x : sx) : option frac := sx_pair sx_Z sx_Z x.
Definition of_frac (f : frac) : sx := L [I (fst f); I (snd f)].
Definition sx_runner (x : sx) : option (node * frac * frac) :=
  match x with
  | L [a; b; c] => match sx_Z a, sx_frac b, sx_frac c with
                   | Some n, Some p, Some q => Some (n, p, q) | _, _, _ => None end
  | _ => None end.
Definition of_runner (r : node * frac * frac) : sx :=
  L [I (fst (fst r)); of_frac (snd (fst r)); of_frac (snd r)].
(* (asg prob corr runners) with corr = () | (num den) *)
Definition sx_rec (x : sx) : option rec :=
  match x with
  | L [a; p; c; rs] =>
      match sx_Z a, sx_frac p, sx_list sx_runner rs with
      | Some a', Some p', Some rs' =>
          match c with
          | L [] => Some {| asg := a'; prob := p'; corr := None; runners := rs'; agg := one |}
          | _ => match sx_frac c with
                 | Some c' => Some {| asg := a'; prob := p'; corr := Some c'; runners := rs'; agg := one |}
                 | None => None end
          end
      | _, _, _ => None end
  | _ => None end.
Definition of_rec (r : rec) : sx :=
  L [I (asg r); of_frac (prob r); of_option of_frac (corr r); of_list of_runner (runners r); of_frac (agg r)].

(* choice table: ((parent-key cell-id) rec); parent-key = -1 for the root, else li*2^32 + node *)
Definition pkey (p : option (nat * node)) : Z :=
  match p with None => -1 | Some (li, x) => Z.of_nat li * 4294967296 + x end.
Definition ctable := list ((Z * Z) * rec).
Fixpoint clookup (k1 k2 : Z) (tb : ctable) : option rec :=
  match tb with
  | [] => None
  | ((a, b), r) :: t => if (a =? k1) && (b =? k2) then Some r else clookup k1 k2 t
  end.
Definition table_decide (tb : ctable) (g : nat) (p : option (nat * node)) (kids : list node) (cs : list Z)
  : list rec * nat :=
  (flat_map (fun c => match clookup (pkey p) c tb with Some r => [r] | None => [] end) cs, S g).

Definition sx_centry (x : sx) : option ((Z * Z) * rec) :=
  match x with
  | L [a; b; r] => match sx_Z a, sx_Z b, sx_rec r with
                   | Some a', Some b', Some r' => Some ((a', b'), r') | _, _, _ => None end
  | _ => None end.

Definition of_outcome {A} (f : A -> sx) (o : outcome A) : sx :=
  match o with
  | Ok a => sx_ok (f a)
  | ErrNoChildren => sx_err 1
  | ErrNoCorrAbove => sx_err 2
  | ErrShape => sx_err 3
  end.

(* tag 101: (tree cell-ids choice-table) -> (rows n_decide_calls) *)
Definition run_rta (x : sx) : sx :=
  match x with
  | L [t; cs; tb] =>
      match sx_tree t, sx_LZ cs, sx_list sx_centry tb with
      | Some t', Some cs', Some tb' =>
          of_outcome (fun r => L [of_list (of_list of_rec) (fst r); of_nat (snd r)])
                     (run_type_assignment Z nat (table_decide tb') t' cs' 0%nat)
      | _, _, _ => sx_bad end
  | _ => sx_bad end.

(* tag 102: (tree n_cells rows) -> spec_routing ; rows as produced by of_rec *)
Definition sx_rec_out (x : sx) : option rec :=
  match x with
  | L [a; p; c; rs; g] =>
      match sx_Z a, sx_frac p, sx_list sx_runner rs, sx_frac g with
      | Some a', Some p', Some rs', Some g' =>
          match c with
          | L [] => Some {| asg := a'; prob := p'; corr := None; runners := rs'; agg := g' |}
          | L [c1] => match sx_frac c1 with
                      | Some c' => Some {| asg := a'; prob := p'; corr := Some c'; runners := rs'; agg := g' |}
                      | None => None end
          | _ => None
          end
      | _, _, _, _ => None end
  | _ => None end.
Definition run_spec_routing (x : sx) : sx :=
  match x with
  | L [t; n; rows] =>
      match sx_tree t, sx_nat n, sx_list (sx_list sx_rec_out) rows with
      | Some t', Some n', Some rows' => sx_ok (of_bool (spec_routing t' n' rows'))
      | _, _, _ => sx_bad end
  | _ => sx_bad end.
