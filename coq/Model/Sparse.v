(* Model of the row-access and reshaping code on compressed sparse matrices:
     utils/sparse_utils.py  : _load_sparse, _csr_to_dense, load_csr, merge_csr,
                              _load_disjoint_csr, precompute_indptr
     utils/utils.py         : merge_index_list
     anndata_iterator.py    : CSRRowIterator / DenseArrayRowIterator (__next__, get_batch)
     utils/anndata_utils.py : shuffle_csr_h5ad_rows, subset_csc_h5ad_columns,
                              amalgamate_csr_to_x / amalgamate_dense_to_x,
                              _copy_layer_to_x_sparse / _copy_layer_to_x_dense
     utils/h5_utils.py      : _get_slices_for_copy and the hyperslab copy loop
   A dataset is a list; a numpy / h5py slice  a[i:j]  is [slice a i j] (clipped
   to the extent, as numpy and h5py do); an exception is a value [Err e].
   Stored values are opaque integers (for floats: their bit pattern, 0 = +0.0).
   Definitions only. *)
From Coq Require Import List Arith ZArith Bool.
From CTM Require Import Base.Sx.
Import ListNotations.

(* ---------------------------------------------------------------- errors *)
Inductive err : Type :=
| EIndex    (* IndexError / KeyError *)
| EReject   (* h5py refuses a selection (TypeError / IndexError / OSError) *)
| EValue    (* ValueError (shape mismatch, range() step 0, h5py chunk shape) *)
| EFuel     (* a loop did not terminate within the fuel given *)
| EWorker.  (* RuntimeError: a worker process exited with a non-zero code *)

Definition err_code (e : err) : Z :=
  match e with EIndex => 1 | EReject => 2 | EValue => 3 | EFuel => 4 | EWorker => 5 end%Z.

Inductive res (A : Type) : Type := Ok (a : A) | Err (e : err).
Arguments Ok {A} a.
Arguments Err {A} e.

Definition bind {A B} (x : res A) (f : A -> res B) : res B :=
  match x with Ok a => f a | Err e => Err e end.

Fixpoint res_map {A B} (f : A -> res B) (l : list A) : res (list B) :=
  match l with
  | [] => Ok []
  | x :: t => bind (f x) (fun y => bind (res_map f t) (fun ys => Ok (y :: ys)))
  end.

(* ---------------------------------------------------------------- lists *)
Definition slice {A} (l : list A) (a b : nat) : list A := firstn (b - a) (skipn a l).

Fixpoint upd {A} (l : list A) (i : nat) (x : A) : list A :=
  match l, i with
  | [], _ => []
  | _ :: t, O => x :: t
  | h :: t, S j => h :: upd t j x
  end.

Fixpoint cumsum_from (acc : nat) (l : list nat) : list nat :=
  match l with [] => [] | x :: t => (acc + x) :: cumsum_from (acc + x) t end.

Definition sum_list (l : list nat) : nat := fold_right Nat.add 0 l.

(* stable insertion sort by a key *)
Fixpoint ins_by {A} (key : A -> nat) (x : A) (l : list A) : list A :=
  match l with
  | [] => [x]
  | y :: t => if key x <=? key y then x :: y :: t else y :: ins_by key x t
  end.
Definition sort_by {A} (key : A -> nat) (l : list A) : list A := fold_right (ins_by key) [] l.

(* np.argsort (stable; for distinct keys every argsort agrees with it) *)
Definition argsort (l : list nat) : list nat :=
  map snd (sort_by fst (combine l (seq 0 (length l)))).

Fixpoint index_of (x : nat) (l : list nat) : option nat :=
  match l with
  | [] => None
  | y :: t => if x =? y then Some 0 else match index_of x t with Some k => Some (S k) | None => None end
  end.

(* np.unique of a list of naturals: sorted distinct values *)
Fixpoint dedup_sorted (l : list nat) : list nat :=
  match l with
  | [] => []
  | x :: t => match t with
              | [] => [x]
              | y :: _ => if x =? y then dedup_sorted t else x :: dedup_sorted t
              end
  end.
Definition unique (l : list nat) : list nat := dedup_sorted (sort_by (fun x => x) l).

(* ---------------------------------------------------------------- chunking *)
(* `for i0 in range(0, n, c): i1 = min(n, i0+c)`  (c >= 1; range() rejects c = 0) *)
Fixpoint range_chunks_from (fuel a n c : nat) : list (nat * nat) :=
  match fuel with
  | O => []
  | S f => if n <=? a then [] else (a, Nat.min n (a + c)) :: range_chunks_from f (a + c) n c
  end.
Definition range_chunks (n c : nat) : list (nat * nat) := range_chunks_from n 0 n c.

(* the iterators' __next__: r0 = 0; while r0 < n_rows: r1 = min(n_rows, r0 + chunk) *)
Fixpoint iter_chunks (fuel r0 n c : nat) : res (list (nat * nat)) :=
  if n <=? r0 then Ok [] else
  match fuel with
  | O => Err EFuel
  | S f => let r1 := Nat.min n (r0 + c) in
           bind (iter_chunks f r1 n c) (fun l => Ok ((r0, r1) :: l))
  end.
Definition row_chunks (n c : nat) : res (list (nat * nat)) := iter_chunks n 0 n c.

(* ---------------------------------------------------------------- compressed matrices *)
Record comp : Type := { ptr : list nat; idx : list nat; dat : list Z }.

Definition dense := list (list Z).

(* sparse_utils._load_sparse (indptr_spec = (a, b)) *)
Definition load_sparse (a b : nat) (m : comp) : res comp :=
  let these := slice (ptr m) a (S b) in
  match these with
  | [] => Err EIndex                       (* these_ptrs[0] on an empty array *)
  | p0 :: _ =>
      let p1 := last these 0 in
      let mn := fold_right Nat.min p0 these in
      Ok {| ptr := map (fun p => p - mn) these;
            idx := slice (idx m) p0 p1;
            dat := slice (dat m) p0 p1 |}
  end.

(* result[iptr, these_cols] = values *)
Fixpoint set_row (row : list Z) (cols : list nat) (vals : list Z) : res (list Z) :=
  match cols, vals with
  | [], [] => Ok row
  | c :: ct, v :: vt => if c <? length row then set_row (upd row c v) ct vt else Err EIndex
  | _, _ => Err EValue
  end.

(* the loop of sparse_utils._csr_to_dense, data_idx running beside the pointers *)
Fixpoint dense_rows (n_cols : nat) (ptrs : list nat) (indices : list nat) (data : list Z)
         (data_idx : nat) : res dense :=
  match ptrs with
  | [] => Ok []
  | p0 :: t =>
      match t with
      | [] => Ok []
      | p1 :: _ =>
          let cols := slice indices p0 p1 in
          let n := length cols in
          bind (set_row (repeat 0%Z n_cols) cols (slice data data_idx (data_idx + n))) (fun row =>
          bind (dense_rows n_cols t indices data (data_idx + n)) (fun rest => Ok (row :: rest)))
      end
  end.

Definition csr_to_dense (m : comp) (n_rows n_cols : nat) : res dense :=
  bind (dense_rows n_cols (ptr m) (idx m) (dat m) 0) (fun rows =>
  if n_rows <? length rows then Err EIndex
  else Ok (rows ++ repeat (repeat 0%Z n_cols) (n_rows - length rows))).

(* sparse_utils.load_csr *)
Definition load_csr (r0 r1 n_cols : nat) (m : comp) : res dense :=
  bind (load_sparse r0 r1 m) (fun piece => csr_to_dense piece (r1 - r0) n_cols).

(* CSRRowIterator / DenseArrayRowIterator: the list of (r0, r1, block) yielded *)
Definition iterate_csr (m : comp) (n_rows n_cols c : nat) : res (list (nat * nat * dense)) :=
  bind (row_chunks n_rows c) (fun chs =>
  res_map (fun ch => bind (load_csr (fst ch) (snd ch) n_cols m) (fun b => Ok (fst ch, snd ch, b))) chs).

Definition iterate_dense (d : dense) (n_rows c : nat) : res (list (nat * nat * dense)) :=
  bind (row_chunks n_rows c) (fun chs =>
  Ok (map (fun ch => (fst ch, snd ch, slice d (fst ch) (snd ch))) chs)).

(* ---------------------------------------------------------------- disjoint rows *)
(* utils.merge_index_list: np.unique, then break where the difference exceeds 1 *)
Fixpoint merge_ranges_from (lo prev : nat) (rest : list nat) : list (nat * nat) :=
  match rest with
  | [] => [(lo, S prev)]
  | x :: t => if 1 <? x - prev then (lo, S prev) :: merge_ranges_from x x t
              else merge_ranges_from lo x t
  end.
Definition merge_index_list (l : list nat) : res (list (nat * nat)) :=
  match unique l with
  | [] => Err EIndex                       (* index_list[min_dex] on an empty array *)
  | x :: t => Ok (merge_ranges_from x x t)
  end.

(* sparse_utils.merge_csr / _merge_csr_chunk (also the joining loops of
   csc_to_csr_parallel and amalgamate_csr_to_x): pointer arrays without their last
   entry, shifted by the number of entries already written (len(data_in) in
   merge_csr, which [merge_csr] checks to be the number of indices; the number of
   indices in the other two loops) *)
Fixpoint merge_from (i0 : nat) (ps : list comp) : list nat * (list nat * list Z) :=
  match ps with
  | [] => ([], ([], []))
  | p :: t =>
      let r := merge_from (i0 + length (idx p)) t in
      (map (fun x => x + i0) (removelast (ptr p)) ++ fst r,
       (idx p ++ fst (snd r), dat p ++ snd (snd r)))
  end.
Definition merge_csr (ps : list comp) : res comp :=
  if forallb (fun p => length (idx p) =? length (dat p)) ps then
    let r := merge_from 0 ps in
    Ok {| ptr := fst r ++ [length (snd (snd r))]; idx := fst (snd r); dat := snd (snd r) |}
  else Err EValue.

(* the "undo sorting" loop of _load_disjoint_csr *)
Fixpoint unsort_from (iis : list nat) (sd : list nat) (mg : comp) (total data_ct : nat)
  : res (list nat * (list nat * list Z)) :=
  match iis with
  | [] => Ok ([], ([], []))
  | ii :: t =>
      match index_of ii sd with
      | None => Err EIndex
      | Some pos =>
          match nth_error (ptr mg) pos, nth_error (ptr mg) (S pos) with
          | Some i0, Some i1 =>
              let n := i1 - i0 in
              if total <? data_ct + n then Err EValue else
              if length (ptr mg) <=? ii then Err EIndex else
              bind (unsort_from t sd mg total (data_ct + n)) (fun r =>
              Ok (data_ct :: fst r,
                  (slice (idx mg) i0 i1 ++ fst (snd r), slice (dat mg) i0 i1 ++ snd (snd r))))
          | _, _ => Err EIndex
          end
      end
  end.

Definition load_disjoint_csr (rows : list nat) (m : comp) : res comp :=
  let sd := argsort rows in
  let srt := map (fun i => nth i rows 0) sd in          (* i < length rows by construction *)
  bind (merge_index_list srt) (fun ranges =>
  bind (res_map (fun rg => load_sparse (fst rg) (snd rg) m) ranges) (fun pieces =>
  bind (merge_csr pieces) (fun mg =>
  let total := length (dat mg) in
  bind (unsort_from (seq 0 (length rows)) sd mg total 0) (fun r =>
  let cts := fst r in
  let ii := fst (snd r) in
  let dd := snd (snd r) in
  Ok {| ptr := cts ++ repeat 0 (length (ptr mg) - 1 - length cts) ++ [total];
        idx := ii ++ repeat 0 (total - length ii);
        dat := dd ++ repeat 0%Z (total - length dd) |})))).

(* CSRRowIterator.get_batch (dense result; scipy's toarray is read as _csr_to_dense) *)
Definition csr_get_batch (rows : list nat) (n_cols : nat) (m : comp) : res dense :=
  bind (load_disjoint_csr rows m) (fun b => csr_to_dense b (length rows) n_cols).

(* DenseArrayRowIterator.get_batch: sort, h5py point selection (strictly increasing,
   non-empty, in range), scatter back *)
Fixpoint strictly_increasing (l : list nat) : bool :=
  match l with
  | [] => true
  | x :: t => match t with [] => true | y :: _ => (x <? y) && strictly_increasing t end
  end.

Definition dense_get_batch (rows : list nat) (n_rows : nat) (d : dense) : res dense :=
  let sd := argsort rows in
  let srt := map (fun i => nth i rows 0) sd in
  match srt with
  | [] => Err EReject
  | _ =>
      if strictly_increasing srt && forallb (fun r => r <? n_rows) srt then
        let raw := map (fun r => nth r d []) srt in
        Ok (fold_left (fun out p => upd out (snd p) (fst p)) (combine raw sd)
                      (repeat [] (length raw)))
      else Err EReject
  end.

(* scipy.sparse.csr_matrix(dense): canonical CSR, explicit zeros dropped *)
Definition row_nonzero (row : list Z) : list (nat * Z) :=
  filter (fun p => negb (snd p =? 0)%Z) (combine (seq 0 (length row)) row).
Definition csr_of_dense (d : dense) : comp :=
  let rs := map row_nonzero d in
  {| ptr := 0 :: cumsum_from 0 (map (@length _) rs);
     idx := concat (map (map fst) rs);
     dat := concat (map (map snd) rs) |}.

(* ---------------------------------------------------------------- reshaping *)
(* sparse_utils.precompute_indptr *)
Fixpoint spans_from (ct : nat) (p : list nat) (order : list nat) : res (list nat) :=
  match order with
  | [] => Ok []
  | r :: t =>
      match nth_error p r, nth_error p (S r) with
      | Some a, Some b => bind (spans_from (ct + (b - a)) p t) (fun l => Ok (ct :: l))
      | _, _ => Err EIndex
      end
  end.
(* new_indptr = zeros(len(indptr_in)); new_indptr[new_idx] = ct ...; new_indptr[-1] = indptr_in[-1] *)
Definition place_ptr (n_slots : nat) (cts : list nat) (final : nat) : res (list nat) :=
  if n_slots <? length cts then Err EIndex
  else match n_slots with
       | O => Err EIndex
       | S k => Ok (firstn k (cts ++ repeat 0 (k - length cts)) ++ [final])
       end.
Definition precompute_indptr (p : list nat) (order : list nat) : res (list nat) :=
  bind (spans_from 0 p order) (fun cts => place_ptr (length p) cts (last p 0)).

(* anndata_utils.shuffle_csr_h5ad_rows: rows copied one after the other into
   datasets of the original size *)
Fixpoint copy_rows (m : comp) (order : list nat) : res (list nat * list Z) :=
  match order with
  | [] => Ok ([], [])
  | r :: t =>
      match nth_error (ptr m) r, nth_error (ptr m) (S r) with
      | Some a, Some b =>
          bind (copy_rows m t) (fun rest =>
          Ok (slice (idx m) a b ++ fst rest, slice (dat m) a b ++ snd rest))
      | _, _ => Err EIndex
      end
  end.
Definition shuffle_rows (m : comp) (order : list nat) : res comp :=
  bind (precompute_indptr (ptr m) order) (fun np =>
  bind (copy_rows m order) (fun c =>
  let n := length (idx m) in
  if (n <? length (fst c)) || (length (dat m) <? length (snd c)) then Err EReject
  else Ok {| ptr := np;
             idx := fst c ++ repeat 0 (n - length (fst c));
             dat := snd c ++ repeat 0%Z (length (dat m) - length (snd c)) |})).

(* anndata_utils.subset_csc_h5ad_columns: chosen columns sorted, copied in order *)
Definition subset_columns (m : comp) (chosen : list nat) : res comp :=
  let cs := sort_by (fun x => x) chosen in
  bind (spans_from 0 (ptr m) cs) (fun cts =>
  bind (copy_rows m cs) (fun c =>
  Ok {| ptr := cts ++ [length (fst c)]; idx := fst c; dat := snd c |})).

(* h5py's create_dataset(shape=(n,), chunks=(c,)) : 0 < c <= n *)
Definition chunk_ok (n c : nat) : bool := (0 <? c) && (c <=? n).

(* anndata_utils.amalgamate_csr_to_x on the pieces written by _amalgamate_h5ad.
   A piece without any index is skipped by the scan for the largest index, and the
   datasets are created with chunks=min(n_valid, 20000), or chunks=None when
   n_valid = 0: pieces (or a whole result) without stored values are joined like
   any other. *)
(* n_rows = final_shape[0] need not be the number of rows of the pieces: the pointer
   array is created with n_rows + 1 zeros, every piece writes its pointers (without the
   last) at the running row position, and finally indptr[-1] = n_valid.  h5py clips the
   slice dst_indptr[pos : pos + n] to the extent; a clipped selection still accepts a
   one-element array (broadcast, possibly to nothing) and refuses every longer one
   (TypeError "Can't broadcast (n,) -> (k,)").  With fewer rows than n_rows the gap stays
   zero (a pointer array that is not monotone); rows beyond n_rows are dropped and the
   last slot is overwritten by n_valid. *)
Fixpoint clipped_piece (n_indptr pos : nat) (ps : list comp) : bool :=
  match ps with
  | [] => false
  | p :: t => let n := length (ptr p) - 1 in
              ((2 <=? n) && (n_indptr <? pos + n)) || clipped_piece n_indptr (pos + n) t
  end.
Definition amalgamate_csr (pieces : list comp) (n_rows : nat) : res comp :=
  bind (merge_csr pieces) (fun mg =>
  let body := removelast (ptr mg) in
  if clipped_piece (S n_rows) 0 pieces then Err EReject
  else Ok {| ptr := firstn n_rows (body ++ repeat 0 (n_rows - length body)) ++ [last (ptr mg) 0];
             idx := idx mg; dat := dat mg |}).

(* amalgamate_dense_to_x *)
Definition amalgamate_dense (pieces : list dense) : dense := concat pieces.

(* _copy_layer_to_x_sparse on one of the three arrays: chunked copy (or in one go).
   A source chunk shape beyond the extent (anndata chunks an empty array by 1024) is
   dropped: chunks = None, copied in one go. *)
Definition copy_array {A} (l : list A) (chunks : option nat) : res (list A) :=
  match chunks with
  | None => Ok l
  | Some c => if length l <? c then Ok l else
              if chunk_ok (length l) c
              then Ok (concat (map (fun ch => slice l (fst ch) (snd ch)) (range_chunks (length l) c)))
              else Err EValue
  end.

(* a 2-d hyperslab copy: dst[r0:r1, c0:c1] = src[r0:r1, c0:c1] for every tile *)
Definition copy_tiles (d : dense) (rcs ccs : list (nat * nat)) : dense :=
  concat (map (fun rc =>
    map (fun row => concat (map (fun cc => slice row (fst cc) (snd cc)) ccs))
        (slice d (fst rc) (snd rc))) rcs).

(* _copy_layer_to_x_dense: tiles of the source chunk shape, or (rows//10 | all, all columns) *)
Definition copy_dense (d : dense) (n_rows n_cols : nat) (chunks : option (nat * nat)) : res dense :=
  let ch := match chunks with
            | Some c => c
            | None => let rc := Z.to_nat (Z.min 10000 (Z.of_nat (n_rows / 10))) in
                      ((if rc =? 0 then n_rows else rc), n_cols)
            end in
  if chunk_ok n_rows (fst ch) && chunk_ok n_cols (snd ch)
  then Ok (copy_tiles d (range_chunks n_rows (fst ch)) (range_chunks n_cols (snd ch)))
  else Err EValue.

(* h5_utils._get_slices_for_copy: per dimension, slices of max(1, min(per_dim, n)) *)
Definition slices_for_copy (shape : list nat) (per_dim : nat) : list (list (nat * nat)) :=
  map (fun n => range_chunks n (Nat.max 1 (Nat.min per_dim n))) shape.

(* itertools.product over the per-dimension slice lists *)
Fixpoint product {A} (ls : list (list A)) : list (list A) :=
  match ls with
  | [] => [[]]
  | l :: t => flat_map (fun x => map (fun rest => x :: rest) (product t)) l
  end.

(* copy_h5_excluding_data on a chunked 1-d or 2-d dataset *)
Definition copy_h5_1d {A} (l : list A) (max_elements : nat) : list A :=
  match slices_for_copy [length l] max_elements with
  | [s] => concat (map (fun ch => slice l (fst ch) (snd ch)) s)
  | _ => []
  end.
Definition copy_h5_2d (d : dense) (n_rows n_cols per_dim : nat) : dense :=
  match slices_for_copy [n_rows; n_cols] per_dim with
  | [rs; cs] => copy_tiles d rs cs
  | _ => []
  end.

(* ---------------------------------------------------------------- specification *)
(* pointer array monotone *)
Fixpoint mono (l : list nat) : Prop :=
  match l with
  | [] => True
  | x :: t => match t with [] => True | y :: _ => x <= y /\ mono t end
  end.

(* a well-formed compressed matrix with n_minor possible minor indices: the pointer
   array starts at 0, is monotone and ends at the number of stored entries *)
Definition wf_comp (m : comp) (n_minor : nat) : Prop :=
  hd 1 (ptr m) = 0 /\ last (ptr m) 0 = length (idx m) /\ mono (ptr m) /\
  Forall (fun r => r < n_minor) (idx m).

Definition wf_csr (m : comp) (n_rows n_cols : nat) : Prop :=
  wf_comp m n_cols /\ length (ptr m) = S n_rows /\ length (dat m) = length (idx m).

(* positions of the stored entries of major slice j *)
Definition span (m : comp) (j : nat) : list nat :=
  seq (nth j (ptr m) 0) (nth (S j) (ptr m) 0 - nth j (ptr m) 0).

(* is (major j, minor x) stored?  which value? *)
Definition stored (m : comp) (j x : nat) : bool :=
  existsb (fun k => nth k (idx m) 0 =? x) (span m j).
Definition lookup (m : comp) (j x : nat) : option Z :=
  match find (fun k => nth k (idx m) 0 =? x) (span m j) with
  | Some k => Some (nth k (dat m) 0%Z)
  | None => None
  end.

(* no major slice stores a minor index twice *)
Definition no_dup_minor (m : comp) : Prop :=
  forall j, S j < length (ptr m) -> NoDup (map (fun k => nth k (idx m) 0) (span m j)).

(* the dense view: n_major x n_minor, 0 where nothing is stored *)
Definition cell (m : comp) (j x : nat) : Z :=
  match lookup m j x with Some v => v | None => 0%Z end.
Definition dense_of (m : comp) (n_major n_minor : nat) : dense :=
  map (fun j => map (cell m j) (seq 0 n_minor)) (seq 0 n_major).

(* a list of ranges that starts at a, is contiguous, has no empty range, ends at n *)
Fixpoint chained (a : nat) (l : list (nat * nat)) (n : nat) : Prop :=
  match l with
  | [] => a = n
  | ch :: t => fst ch = a /\ fst ch < snd ch /\ chained (snd ch) t n
  end.

(* ---------------------------------------------------------------- wire *)
Definition of_res {A} (f : A -> sx) (r : res A) : sx :=
  match r with Ok a => sx_ok (f a) | Err e => sx_err (err_code e) end.
Definition of_comp (m : comp) : sx := L [of_Lnat (ptr m); of_Lnat (idx m); of_LZ (dat m)].
Definition of_dense : dense -> sx := of_LLZ.
Definition of_ranges (l : list (nat * nat)) : sx := of_list (of_pair of_nat of_nat) l.
Definition of_blocks (l : list (nat * nat * dense)) : sx :=
  of_list (fun b => L [of_nat (fst (fst b)); of_nat (snd (fst b)); of_dense (snd b)]) l.

Definition sx_comp (x : sx) : option comp :=
  match x with
  | L [p; i; d] =>
      match sx_Lnat p, sx_Lnat i, sx_LZ d with
      | Some p', Some i', Some d' => Some {| ptr := p'; idx := i'; dat := d' |}
      | _, _, _ => None
      end
  | _ => None
  end.
Definition sx_optnat (x : sx) : option (option nat) :=
  match x with
  | L [] => Some None
  | L [a] => match sx_nat a with Some n => Some (Some n) | None => None end
  | _ => None
  end.

(* 501: (comp n_rows n_cols chunk) -> blocks of the CSR iterator *)
Definition run_iter_csr (x : sx) : sx :=
  match x with
  | L [m; nr; nc; c] =>
      match sx_comp m, sx_nat nr, sx_nat nc, sx_nat c with
      | Some m', Some nr', Some nc', Some c' => of_res of_blocks (iterate_csr m' nr' nc' c')
      | _, _, _, _ => sx_bad
      end
  | _ => sx_bad
  end.

(* 502: (dense n_rows chunk) -> blocks of the dense iterator *)
Definition run_iter_dense (x : sx) : sx :=
  match x with
  | L [d; nr; c] =>
      match sx_LLZ d, sx_nat nr, sx_nat c with
      | Some d', Some nr', Some c' => of_res of_blocks (iterate_dense d' nr' c')
      | _, _, _ => sx_bad
      end
  | _ => sx_bad
  end.

(* 504: (comp n_cols rows) -> CSR get_batch *)
Definition run_get_batch_csr (x : sx) : sx :=
  match x with
  | L [m; nc; rows] =>
      match sx_comp m, sx_nat nc, sx_Lnat rows with
      | Some m', Some nc', Some rows' => of_res of_dense (csr_get_batch rows' nc' m')
      | _, _, _ => sx_bad
      end
  | _ => sx_bad
  end.

(* 505: (dense n_rows rows) -> dense get_batch *)
Definition run_get_batch_dense (x : sx) : sx :=
  match x with
  | L [d; nr; rows] =>
      match sx_LLZ d, sx_nat nr, sx_Lnat rows with
      | Some d', Some nr', Some rows' => of_res of_dense (dense_get_batch rows' nr' d')
      | _, _, _ => sx_bad
      end
  | _ => sx_bad
  end.

(* 506: list -> merge_index_list *)
Definition run_merge_index_list (x : sx) : sx :=
  match sx_Lnat x with
  | Some l => of_res of_ranges (merge_index_list l)
  | None => sx_bad
  end.

(* 507: (comp rows) -> _load_disjoint_csr *)
Definition run_load_disjoint (x : sx) : sx :=
  match x with
  | L [m; rows] =>
      match sx_comp m, sx_Lnat rows with
      | Some m', Some rows' => of_res of_comp (load_disjoint_csr rows' m')
      | _, _ => sx_bad
      end
  | _ => sx_bad
  end.

(* 508: (comp n_cols r0 r1) -> load_csr *)
Definition run_load_csr (x : sx) : sx :=
  match x with
  | L [m; nc; a; b] =>
      match sx_comp m, sx_nat nc, sx_nat a, sx_nat b with
      | Some m', Some nc', Some a', Some b' => of_res of_dense (load_csr a' b' nc' m')
      | _, _, _, _ => sx_bad
      end
  | _ => sx_bad
  end.

(* 509: list of comp -> merge_csr *)
Definition run_merge_csr (x : sx) : sx :=
  match sx_list sx_comp x with
  | Some ps => of_res of_comp (merge_csr ps)
  | None => sx_bad
  end.

(* 1303: (comp order) -> shuffle_csr_h5ad_rows *)
Definition run_shuffle_rows (x : sx) : sx :=
  match x with
  | L [m; o] =>
      match sx_comp m, sx_Lnat o with
      | Some m', Some o' => of_res of_comp (shuffle_rows m' o')
      | _, _ => sx_bad
      end
  | _ => sx_bad
  end.

(* 1304: (comp chosen) -> subset_csc_h5ad_columns *)
Definition run_subset_columns (x : sx) : sx :=
  match x with
  | L [m; o] =>
      match sx_comp m, sx_Lnat o with
      | Some m', Some o' => of_res of_comp (subset_columns m' o')
      | _, _ => sx_bad
      end
  | _ => sx_bad
  end.

(* a source of amalgamate_h5ad: (0 comp n_cols rows) | (1 dense n_rows rows);
   a CSC source is passed as the CSR arrays of the same matrix (its on-disk
   transposition is the subject of Model/Transpose.v) *)
Definition sx_source_sparse (x : sx) : option (res comp) :=
  match x with
  | L [I 0%Z; m; nc; rows] =>
      match sx_comp m, sx_nat nc, sx_Lnat rows with
      | Some m', Some _, Some rows' => Some (load_disjoint_csr rows' m')
      | _, _, _ => None
      end
  | L [I 1%Z; d; nr; rows] =>
      match sx_LLZ d, sx_nat nr, sx_Lnat rows with
      | Some d', Some nr', Some rows' =>
          Some (bind (dense_get_batch rows' nr' d') (fun b => Ok (csr_of_dense b)))
      | _, _, _ => None
      end
  | _ => None
  end.
Definition sx_source_dense (x : sx) : option (res dense) :=
  match x with
  | L [I 0%Z; m; nc; rows] =>
      match sx_comp m, sx_nat nc, sx_Lnat rows with
      | Some m', Some nc', Some rows' => Some (csr_get_batch rows' nc' m')
      | _, _, _ => None
      end
  | L [I 1%Z; d; nr; rows] =>
      match sx_LLZ d, sx_nat nr, sx_Lnat rows with
      | Some d', Some nr', Some rows' => Some (dense_get_batch rows' nr' d')
      | _, _, _ => None
      end
  | _ => None
  end.

Fixpoint res_all {A} (l : list (res A)) : res (list A) :=
  match l with
  | [] => Ok []
  | x :: t => bind x (fun a => bind (res_all t) (fun r => Ok (a :: r)))
  end.

(* 1305: (sources n_rows) -> amalgamate_h5ad(dst_sparse=True) *)
Definition run_amalgamate_sparse (x : sx) : sx :=
  match x with
  | L [srcs; nr] =>
      match sx_list sx_source_sparse srcs, sx_nat nr with
      | Some ps, Some nr' => of_res of_comp (bind (res_all ps) (fun pieces => amalgamate_csr pieces nr'))
      | _, _ => sx_bad
      end
  | _ => sx_bad
  end.

(* 1306: sources -> amalgamate_h5ad(dst_sparse=False) *)
Definition run_amalgamate_dense (x : sx) : sx :=
  match sx_list sx_source_dense x with
  | Some ps => of_res of_dense (bind (res_all ps) (fun pieces => Ok (amalgamate_dense pieces)))
  | None => sx_bad
  end.

(* 1307: ((ptr chunks?) (idx chunks?) (dat chunks?)) -> _copy_layer_to_x_sparse *)
Definition run_copy_sparse (x : sx) : sx :=
  match x with
  | L [L [p; pc]; L [i; ic]; L [d; dc]] =>
      match sx_Lnat p, sx_optnat pc, sx_Lnat i, sx_optnat ic, sx_LZ d, sx_optnat dc with
      | Some p', Some pc', Some i', Some ic', Some d', Some dc' =>
          of_res of_comp
            (bind (copy_array p' pc') (fun p2 =>
             bind (copy_array i' ic') (fun i2 =>
             bind (copy_array d' dc') (fun d2 => Ok {| ptr := p2; idx := i2; dat := d2 |}))))
      | _, _, _, _, _, _ => sx_bad
      end
  | _ => sx_bad
  end.

(* 1308: (dense n_rows n_cols (rc cc)?) -> _copy_layer_to_x_dense *)
Definition run_copy_dense (x : sx) : sx :=
  match x with
  | L [d; nr; nc; ch] =>
      match sx_LLZ d, sx_nat nr, sx_nat nc with
      | Some d', Some nr', Some nc' =>
          match ch with
          | L [] => of_res of_dense (copy_dense d' nr' nc' None)
          | L [a; b] => match sx_nat a, sx_nat b with
                        | Some a', Some b' => of_res of_dense (copy_dense d' nr' nc' (Some (a', b')))
                        | _, _ => sx_bad
                        end
          | _ => sx_bad
          end
      | _, _, _ => sx_bad
      end
  | _ => sx_bad
  end.

(* 1309: (shape per_dim) -> _get_slices_for_copy *)
Definition run_slices (x : sx) : sx :=
  match x with
  | L [s; p] =>
      match sx_Lnat s, sx_nat p with
      | Some s', Some p' => sx_ok (of_list of_ranges (slices_for_copy s' p'))
      | _, _ => sx_bad
      end
  | _ => sx_bad
  end.

(* 1310: (dense n_rows n_cols per_dim) -> copy_h5_excluding_data on a 2-d dataset *)
Definition run_copy_h5_2d (x : sx) : sx :=
  match x with
  | L [d; nr; nc; p] =>
      match sx_LLZ d, sx_nat nr, sx_nat nc, sx_nat p with
      | Some d', Some nr', Some nc', Some p' => sx_ok (of_dense (copy_h5_2d d' nr' nc' p'))
      | _, _, _, _ => sx_bad
      end
  | _ => sx_bad
  end.

(* 1311: (list max_elements) -> copy_h5_excluding_data on a 1-d dataset *)
Definition run_copy_h5_1d (x : sx) : sx :=
  match x with
  | L [l; p] =>
      match sx_LZ l, sx_nat p with
      | Some l', Some p' => sx_ok (of_LZ (copy_h5_1d l' p'))
      | _, _ => sx_bad
      end
  | _ => sx_bad
  end.

(* 1312: (indptr order) -> precompute_indptr *)
Definition run_precompute_indptr (x : sx) : sx :=
  match x with
  | L [p; o] =>
      match sx_Lnat p, sx_Lnat o with
      | Some p', Some o' => of_res of_Lnat (precompute_indptr p' o')
      | _, _ => sx_bad
      end
  | _ => sx_bad
  end.

(* ---------------------------------------------------------------- helpers of the statements
   (pure additions used by Props/C13.v; no definition above refers to them) *)
(* the stored entries of major slice j: its minor indices and its values, in storage order *)
Definition row_entries (m : comp) (j : nat) : list nat * list Z :=
  (slice (idx m) (nth j (ptr m) 0) (nth (S j) (ptr m) 0),
   slice (dat m) (nth j (ptr m) 0) (nth (S j) (ptr m) 0)).

(* a source of amalgamate_h5ad with the rows taken from it: the decoded form of the wire
   values read by [sx_source_sparse] / [sx_source_dense] *)
Inductive source : Type :=
| SrcSparse (m : comp) (n_cols : nat) (rows : list nat)
| SrcDense (d : dense) (n_rows : nat) (rows : list nat).

Definition sx_source (x : sx) : option source :=
  match x with
  | L [I 0%Z; m; nc; rows] =>
      match sx_comp m, sx_nat nc, sx_Lnat rows with
      | Some m', Some nc', Some rows' => Some (SrcSparse m' nc' rows')
      | _, _, _ => None
      end
  | L [I 1%Z; d; nr; rows] =>
      match sx_LLZ d, sx_nat nr, sx_Lnat rows with
      | Some d', Some nr', Some rows' => Some (SrcDense d' nr' rows')
      | _, _, _ => None
      end
  | _ => None
  end.

(* what _amalgamate_h5ad reads from one source for a sparse / a dense destination *)
Definition piece_sparse (s : source) : res comp :=
  match s with
  | SrcSparse m _ rows => load_disjoint_csr rows m
  | SrcDense d nr rows => bind (dense_get_batch rows nr d) (fun b => Ok (csr_of_dense b))
  end.
Definition piece_dense (s : source) : res dense :=
  match s with
  | SrcSparse m nc rows => csr_get_batch rows nc m
  | SrcDense d nr rows => dense_get_batch rows nr d
  end.

(* amalgamate_h5ad(dst_sparse=True / False) on decoded sources: the bodies of
   [run_amalgamate_sparse] / [run_amalgamate_dense] *)
Definition amalgamate_to_csr (srcs : list source) (n_rows : nat) : res comp :=
  bind (res_all (map piece_sparse srcs)) (fun pieces => amalgamate_csr pieces n_rows).
Definition amalgamate_to_dense (srcs : list source) : res dense :=
  bind (res_all (map piece_dense srcs)) (fun pieces => Ok (amalgamate_dense pieces)).

(* the rows a source contributes, read off its dense view *)
Definition source_rows (nc : nat) (s : source) : dense :=
  match s with
  | SrcSparse m _ rows => map (fun r => nth r (dense_of m (length (ptr m) - 1) nc) []) rows
  | SrcDense d _ rows => map (fun r => nth r d []) rows
  end.

(* an admissible source: a well-formed duplicate-free CSR matrix (or an n_rows x nc
   array) and a non-empty duplicate-free list of its rows *)
Definition source_ok (nc : nat) (s : source) : Prop :=
  match s with
  | SrcSparse m nc' rows =>
      nc' = nc /\ wf_csr m (length (ptr m) - 1) nc /\ no_dup_minor m /\
      rows <> [] /\ NoDup rows /\ Forall (fun r => r < length (ptr m) - 1) rows
  | SrcDense d nr rows =>
      length d = nr /\ Forall (fun row => length row = nc) d /\
      rows <> [] /\ NoDup rows /\ Forall (fun r => r < nr) rows
  end.
