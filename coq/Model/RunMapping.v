(* Model of the data flow of cli/from_specified_markers.py:_run_mapping around the
   election (C17):
     - the stored tree `tree_for_metadata` (the tree as read, cells dropped) is kept
       for the output;
     - `drop_level` is applied only if the level is in the hierarchy, then `flatten`
       (with the flattened marker table);
     - the marker cache and the election see ONLY the reduced tree;
     - election_runner.run_type_assignment_on_h5ad marks every level of the reduced
       tree `directly_assigned = True`;
     - TaxonomyTree.backfill_assignments (taxonomy_tree.py) completes every cell with
       the levels of the STORED tree that the reduced tree does not have.

   Level names are positions in the STORED hierarchy.  A cell of the result is the
   Python dict {level: record} in insertion order = an association list keyed by the
   stored level index.  The election is Model/Election.v (generic in `decide`); the
   decision procedure is handed the reduced tree and the (possibly flattened) marker
   table, which is all it may depend on.  Definitions only. *)
From Coq Require Import ZArith List Bool Arith.
From CTM Require Import Base.Sx Base.SortX Model.Tree Model.Election.
From CTM Require Model.Markers.
Import ListNotations.
Open Scope Z_scope.

(* ---------------- configuration and the reduced tree ---------------- *)
Record cfg := {
  cfg_drop : option nat;      (* config['drop_level']: a level, as an index; an index >= the
                                 number of levels is a name that is not in the hierarchy *)
  cfg_flatten : bool          (* config['flatten'] *)
}.

(* hierarchy[-1:] *)
Definition last_only {A} (l : list A) : list A := skipn (length l - 1) l.

(* the tree the election runs on, with the stored index of each of its levels *)
Definition reduce (t : tree) (c : cfg) : tres (tree * list nat) :=
  let names := seq 0 (length t) in
  let dropped :=
    match cfg_drop c with
    | Some li =>
        if (li <? length t)%nat                    (* if config['drop_level'] in taxonomy_tree.hierarchy *)
        then match drop_level t li with
             | TOk t1 => TOk (t1, remove_nth li names)
             | TErr e => TErr e                    (* flat tree / leaf level: RuntimeError *)
             end
        else TOk (t, names)
    | None => TOk (t, names)
    end in
  match dropped with
  | TErr e => TErr e
  | TOk (t1, m1) =>
      if cfg_flatten c
      then match flatten t1 with
           | TOk t2 => TOk (t2, last_only m1)
           | TErr e => TErr e
           end
      else TOk (t1, m1)
  end.

(* ---------------- output records ---------------- *)
Record orec := {
  o_asg : node;                                     (* 'assignment' *)
  o_prob : frac;                                    (* 'bootstrapping_probability' *)
  o_corr : option frac;                             (* 'avg_correlation' *)
  o_agg : frac;                                     (* 'aggregate_probability' *)
  o_runners : option (list (node * frac * frac));   (* the runner_up_* keys; None = no such keys *)
  o_direct : bool                                   (* 'directly_assigned' *)
}.
Definition cellmap := list (nat * orec).            (* {stored level index: record}, insertion order *)

Fixpoint lookup {A} (k : nat) (d : list (nat * A)) : option A :=
  match d with
  | [] => None
  | (k', v) :: r => if Nat.eqb k k' then Some v else lookup k r
  end.

(* cell[level]['directly_assigned'] = True for level in taxonomy_tree.hierarchy *)
Definition direct (r : rec) : orec :=
  {| o_asg := asg r; o_prob := prob r; o_corr := corr r; o_agg := agg r;
     o_runners := Some (runners r); o_direct := true |}.

(* the row of the election (one record per level of the reduced tree) as the dict
   keyed by level name; m = stored index of each reduced level *)
Definition place (m : list nat) (row : list rec) : cellmap := combine m (map direct row).

(* ---------------- TaxonomyTree.backfill_assignments ---------------- *)
(* new_data = deepcopy(cell[child_level]) without the runner_up* keys;
   new_data['assignment'] = this_parent; new_data['directly_assigned'] = False *)
Definition inferred (p : node) (ch : orec) : orec :=
  {| o_asg := p; o_prob := o_prob ch; o_corr := o_corr ch; o_agg := o_agg ch;
     o_runners := None; o_direct := false |}.

(* body of `for cell in assignments` for parent level k, child level k+1 *)
Definition backfill_cell (t : tree) (k : nat) (cell : cellmap) : tres cellmap :=
  match lookup k cell with
  | Some _ => TOk cell                                 (* if parent_level in cell: continue *)
  | None =>
      match lookup (S k) cell with
      | None => TOk cell                               (* if child_level not in cell: continue *)
      | Some ch =>
          match parent_of (nth k t []) (o_asg ch) with (* self._child_to_parent[child_level][this_child] *)
          | Some p => TOk (cell ++ [(k, inferred p ch)])
          | None => TErr Tree.E_KEY                    (* KeyError *)
          end
      end
  end.

Fixpoint map_tres {A B} (f : A -> tres B) (l : list A) : tres (list B) :=
  match l with
  | [] => TOk []
  | x :: r => match f x with
              | TErr e => TErr e
              | TOk y => match map_tres f r with TOk r' => TOk (y :: r') | TErr e => TErr e end
              end
  end.
Fixpoint fold_tres {A B} (f : A -> B -> tres A) (l : list B) (a : A) : tres A :=
  match l with
  | [] => TOk a
  | x :: r => match f a x with TOk a' => fold_tres f r a' | TErr e => TErr e end
  end.

(* for child_level, parent_level in zip(reverse_hierarchy[:-1], reverse_hierarchy[1:]):
       for cell in assignments: ...
   parent levels n-2, n-3, ..., 0 *)
Definition backfill (t : tree) (cells : list cellmap) : tres (list cellmap) :=
  fold_tres (fun cs k => map_tres (backfill_cell t k) cs) (rev (seq 0 (length t - 1))) cells.

(* ---------------- _run_mapping ---------------- *)
Definition E_MARKERS := 10.     (* create_marker_cache_from_specified_markers raised *)
Definition E_NOCHILD := 11.     (* election: ErrNoChildren *)
Definition E_NOCORR := 12.      (* election: ErrNoCorrAbove *)
Definition E_SHAPE := 13.       (* election: ErrShape *)

Section Run.
Variable cell rng : Type.
(* does create_marker_cache_from_specified_markers accept (reduced tree, marker table)? *)
Variable cache_ok : tree -> Markers.table -> bool.
(* _run_type_assignment with the cache built from (reduced tree, marker table) *)
Variable mk_decide : tree -> Markers.table ->
                     rng -> option (nat * node) -> list node -> list cell -> list rec * rng.

Definition run_mapping_model (t : tree) (c : cfg) (tb : Markers.table) (cells : list cell) (g : rng)
  : tres (list cellmap * rng) :=
  let stored := drop_cells t in                       (* tree_for_metadata *)
  match reduce t c with
  | TErr e => TErr e
  | TOk (t', m) =>
      let tb' := if cfg_flatten c then Markers.flatten_table tb else tb in
      if negb (cache_ok t' tb') then TErr E_MARKERS
      else
        match run_type_assignment cell rng (mk_decide t' tb') t' cells g with
        | Ok (rows, g') =>
            match backfill stored (map (place m) rows) with
            | TOk out => TOk (out, g')
            | TErr e => TErr e
            end
        | ErrNoChildren => TErr E_NOCHILD
        | ErrNoCorrAbove => TErr E_NOCORR
        | ErrShape => TErr E_SHAPE
        end
  end.
End Run.

(* ---------------- the property's executable statement ---------------- *)
Definition to_rec (o : orec) : rec :=
  {| asg := o_asg o; prob := o_prob o; corr := o_corr o;
     runners := match o_runners o with Some l => l | None => [] end; agg := o_agg o |}.
Definition nat_mem (k : nat) (l : list nat) : bool := existsb (Nat.eqb k) l.
Definition frac_eqb (a b : frac) : bool := (fst a =? fst b) && (snd a =? snd b).
Definition ofrac_eqb (a b : option frac) : bool :=
  match a, b with
  | Some x, Some y => frac_eqb x y
  | None, None => true
  | _, _ => false
  end.
Definition is_some {A} (o : option A) : bool := match o with Some _ => true | None => false end.

(* stored level k of a completed cell; finer = its entry at level k+1.
   voted (a level of the reduced tree): flagged direct, runner-up fields present;
   otherwise: flagged inferred, no runner-up fields, the assignment is the parent (in the
   stored tree) of the finer assignment and the numbers are those of the finer level *)
Definition level_ok (t : tree) (voted : list nat) (k : nat) (e : orec) (finer : option orec) : bool :=
  if nat_mem k voted
  then o_direct e && is_some (o_runners e)
  else negb (o_direct e) && negb (is_some (o_runners e)) &&
       match finer with
       | Some f =>
           match parent_of (nth k t []) (o_asg f) with Some p => p =? o_asg e | None => false end
           && frac_eqb (o_prob e) (o_prob f) && ofrac_eqb (o_corr e) (o_corr f)
           && frac_eqb (o_agg e) (o_agg f)
       | None => false
       end.

Definition cell_ok (t : tree) (voted : list nat) (cell : cellmap) : bool :=
  let n := length t in
  Nat.eqb (length cell) n &&
  match opt_all (map (fun k => lookup k cell) (seq 0 n)) with
  | None => false                                        (* a stored level is missing *)
  | Some es =>
      path_ok t (map to_rec es) &&                       (* a root-to-leaf path of the stored tree *)
      forallb (fun k => match lookup k cell with
                        | Some e => level_ok t voted k e (lookup (S k) cell)
                        | None => false end) (seq 0 n)
  end.

Definition spec_c17 (t : tree) (voted : list nat) (n_cells : nat) (rows : list cellmap) : bool :=
  Nat.eqb (length rows) n_cells && forallb (cell_ok t voted) rows.

(* ---------------- wire ---------------- *)
Definition sx_opt {A} (f : sx -> option A) (x : sx) : option (option A) :=
  match x with
  | L [] => Some None
  | L [a] => match f a with Some v => Some (Some v) | None => None end
  | _ => None
  end.
(* (asg prob corr agg runners direct); corr = () | ((n d)); runners = () | ((r ...)) *)
Definition sx_orec (x : sx) : option orec :=
  match x with
  | L [a; p; c; g; rs; d] =>
      match sx_Z a, sx_frac p, sx_opt sx_frac c, sx_frac g, sx_opt (sx_list sx_runner) rs, sx_bool d with
      | Some a', Some p', Some c', Some g', Some rs', Some d' =>
          Some {| o_asg := a'; o_prob := p'; o_corr := c'; o_agg := g'; o_runners := rs'; o_direct := d' |}
      | _, _, _, _, _, _ => None
      end
  | _ => None
  end.
Definition of_orec (o : orec) : sx :=
  L [I (o_asg o); of_frac (o_prob o); of_option of_frac (o_corr o); of_frac (o_agg o);
     of_option (of_list of_runner) (o_runners o); of_bool (o_direct o)].
Definition sx_cellmap : sx -> option cellmap := sx_list (sx_pair sx_nat sx_orec).
Definition of_cellmap (c : cellmap) : sx := of_list (of_pair of_nat of_orec) c.
Definition sx_cfg (d f : sx) : option cfg :=
  match sx_opt sx_nat d, sx_bool f with
  | Some d', Some f' => Some {| cfg_drop := d'; cfg_flatten := f' |}
  | _, _ => None
  end.

(* tag 1701: (stored-tree cells) -> backfill *)
Definition run_backfill (x : sx) : sx :=
  match x with
  | L [t; cs] =>
      match sx_tree t, sx_list sx_cellmap cs with
      | Some t', Some cs' => of_tres (of_list of_cellmap) (backfill t' cs')
      | _, _ => sx_bad end
  | _ => sx_bad end.

(* tag 1702: (tree drop flatten) -> (reduced-tree level-map) *)
Definition run_reduce (x : sx) : sx :=
  match x with
  | L [t; d; f] =>
      match sx_tree t, sx_cfg d f with
      | Some t', Some c => of_tres (fun r => L [of_tree (fst r); of_Lnat (snd r)]) (reduce t' c)
      | _, _ => sx_bad end
  | _ => sx_bad end.

(* tag 1703: (tree drop flatten rows) -> reduce, place, backfill with the stored tree;
   rows = the election's records on the reduced tree (Election.sx_rec_out) *)
Definition run_place_backfill (x : sx) : sx :=
  match x with
  | L [t; d; f; rows] =>
      match sx_tree t, sx_cfg d f, sx_list (sx_list sx_rec_out) rows with
      | Some t', Some c, Some rows' =>
          match reduce t' c with
          | TErr e => sx_err e
          | TOk (_, m) => of_tres (of_list of_cellmap) (backfill (drop_cells t') (map (place m) rows'))
          end
      | _, _, _ => sx_bad end
  | _ => sx_bad end.

(* tag 1704: (tree voted n_cells cells) -> spec_c17 *)
Definition run_spec_c17 (x : sx) : sx :=
  match x with
  | L [t; v; n; cs] =>
      match sx_tree t, sx_Lnat v, sx_nat n, sx_list sx_cellmap cs with
      | Some t', Some v', Some n', Some cs' => sx_ok (of_bool (spec_c17 t' v' n' cs'))
      | _, _, _, _ => sx_bad end
  | _ => sx_bad end.

(* tag 1705: (tree drop flatten cell-ids choice-table) -> run_mapping_model with the
   table-driven decide of Election.v (the choice table is keyed by the parents of the
   REDUCED tree); result (cells n_decide_calls) *)
Definition run_mapping_table (x : sx) : sx :=
  match x with
  | L [t; d; f; cs; tb] =>
      match sx_tree t, sx_cfg d f, sx_LZ cs, sx_list sx_centry tb with
      | Some t', Some c, Some cs', Some tb' =>
          of_tres (fun r => L [of_list of_cellmap (fst r); of_nat (snd r)])
                  (run_mapping_model Z nat (fun _ _ => true) (fun _ _ => table_decide tb') t' c [] cs' 0%nat)
      | _, _, _, _ => sx_bad end
  | _ => sx_bad end.

(* tag 1706: (tree drop flatten) -> everything the marker reconciliation
   (marker_cache_v2.validate_marker_lookup: all_parents, children, parents) and the election
   (children, as_leaves, leaves_to_compare) ask of the REDUCED tree, computed by the query
   functions of Model/Tree.v on `reduce t cfg`:
     (level-map  top-level-nodes  per level per node (node children parents)
      as_leaves  leaf_pairs for every entry of all_parents, in that order)
   level indices inside the answer are those of the reduced tree *)
Definition run_reduced_queries (x : sx) : sx :=
  match x with
  | L [t; d; f] =>
      match sx_tree t, sx_cfg d f with
      | Some t', Some c =>
          of_tres (fun r =>
                     let u := fst r in
                     L [of_Lnat (snd r);
                        of_LZ (children u None);
                        L (node_table_from u 0 u);
                        of_list (of_list (of_pair of_Z of_LZ)) (as_leaves u);
                        of_list (fun p => of_pairsZ (leaf_pairs u p)) (all_parents u)])
                  (reduce t' c)
      | _, _ => sx_bad end
  | _ => sx_bad end.
