(* Model of utils/output_utils.py: blob_to_hdf5 / _blob_to_hdf5_results,
   hdf5_to_blob, blob_to_df, blob_to_csv, re_order_blob, and of the look-ups
   TaxonomyTree.label_to_name / level_to_name they go through.

   Names (cell ids, node labels, node names / aliases, level labels, file names)
   are integers (one injective renaming of all strings of a case, done by the
   harness).  Measured numbers are exact pairs (numerator, denominator): a
   binary64 value enters as float.as_integer_ratio() and is only ever stored,
   copied and -- for the CSV -- rounded to four decimals.

   A result blob is the list of records of output["results"]; a record holds
   its per-level entries in hierarchy order.  The three runner-up lists are kept
   as three lists, as in the JSON.  The HDF5 file is the list of its datasets;
   the seven (cells x levels) arrays are kept as ONE array of row records
   (their shapes agree by construction of np.zeros((n_cells, n_levels ...))).
   Definitions only. *)
From Coq Require Import ZArith List Bool.
From CTM Require Import Base.Sx Base.SortX.
Import ListNotations.
Open Scope Z_scope.

Definition rat := (Z * Z)%type.           (* numerator, denominator > 0 *)
Definition zero : rat := (0, 1).           (* the 0.0 of np.zeros *)

Inductive res (A : Type) := Ok (a : A) | Err (code : Z).
Arguments Ok {A}. Arguments Err {A}.
Definition E_EMPTY := 3.   (* IndexError: results[0] of an empty result list (same class as E_INDEX) *)
Definition E_KEY := 2.     (* KeyError: node not at that level / level missing from a record *)
Definition E_INDEX := 3.   (* IndexError: array index out of range *)
Definition E_TYPE := 4.    (* TypeError: runner-up arrays are None (n_runners_up = 0) *)

Definition bind {A B} (r : res A) (f : A -> res B) : res B :=
  match r with Ok a => f a | Err e => Err e end.
Fixpoint mapM {A B} (f : A -> res B) (l : list A) : res (list B) :=
  match l with
  | [] => Ok []
  | x :: t => bind (f x) (fun y => bind (mapM f t) (fun ys => Ok (y :: ys)))
  end.

(* ---------------- the result blob ---------------- *)
Record runners := mkRun { ru_assign : list Z; ru_prob : list rat; ru_corr : list rat }.
Record lvl := mkLvl {
  l_assign : Z;               (* 'assignment' *)
  l_prob : rat;               (* 'bootstrapping_probability' *)
  l_corr : rat;               (* 'avg_correlation' *)
  l_agg : rat;                (* 'aggregate_probability' *)
  l_direct : bool;            (* 'directly_assigned' *)
  l_run : option runners      (* the three 'runner_up_*' keys, present or absent together *)
}.
Record cell := mkCell { c_id : Z; c_levels : list lvl }.
Definition blob := list cell.

(* ---------------- blob_to_hdf5 ---------------- *)
(* node_to_int[level][node] : position in nodes_at_level(level) *)
Fixpoint index_of (x : Z) (l : list Z) : option nat :=
  match l with
  | [] => None
  | y :: t => if x =? y then Some O else option_map S (index_of x t)
  end.

(* one (cell, level) entry of the seven arrays *)
Record h5row := mkRow {
  w_assign : Z; w_prob : rat; w_agg : rat; w_corr : rat;
  w_ra : list Z; w_rp : list rat; w_rc : list rat      (* length = n_runners_up *)
}.

(* for i_r in range(len(runner_up_assignment)): idx = node_to_int[..] ; r_assignments[.., i_r] = idx ;
   r_prob[.., i_r] = runner_up_probability[i_r] ; r_corr[.., i_r] = runner_up_correlation[i_r].
   room = slots left in the fixed-width row; the unused slots keep -1 / 0.0.
   e_room = what writing beyond the row raises. *)
Fixpoint write_runners (nodes : list Z) (e_room : Z) (room : nat) (ra : list Z) (rp rc : list rat) {struct ra}
  : res (list Z * list rat * list rat) :=
  match ra with
  | [] => Ok (repeat (-1) room, repeat zero room, repeat zero room)
  | a :: ra' =>
      match index_of a nodes with
      | None => Err E_KEY
      | Some ia =>
          match room with
          | O => Err e_room
          | S room' =>
              match rp with
              | [] => Err E_INDEX
              | p :: rp' =>
                  match rc with
                  | [] => Err E_INDEX
                  | c :: rc' =>
                      bind (write_runners nodes e_room room' ra' rp' rc')
                           (fun x => match x with (xa, xp, xc) => Ok (Z.of_nat ia :: xa, p :: xp, c :: xc) end)
                  end
              end
          end
      end
  end.

Definition write_level (w : nat) (nodes : list Z) (l : lvl) : res h5row :=
  match index_of (l_assign l) nodes with
  | None => Err E_KEY
  | Some i =>
      match l_run l with
      | None => Ok (mkRow (Z.of_nat i) (l_prob l) (l_agg l) (l_corr l)
                          (repeat (-1) w) (repeat zero w) (repeat zero w))
      | Some r =>
          bind (write_runners nodes (if Nat.eqb w 0 then E_TYPE else E_INDEX) w
                              (ru_assign r) (ru_prob r) (ru_corr r))
               (fun x => match x with (xa, xp, xc) =>
                  Ok (mkRow (Z.of_nat i) (l_prob l) (l_agg l) (l_corr l) xa xp xc) end)
      end
  end.

(* for i_level, level in enumerate(hierarchy): cell[level] ...  (keys of the record that are
   not levels of the hierarchy are never looked at) *)
Fixpoint write_levels (w : nat) (nodes_per_level : list (list Z)) (ls : list lvl) : res (list h5row) :=
  match nodes_per_level with
  | [] => Ok []
  | nodes :: nt =>
      match ls with
      | [] => Err E_KEY
      | l :: lt => bind (write_level w nodes l)
                        (fun r => bind (write_levels w nt lt) (fun rs => Ok (r :: rs)))
      end
  end.

(* directly_assigned[i_level] = results[0][level]['directly_assigned'] *)
Definition first_flags (n_levels : nat) (b : blob) : res (list bool) :=
  match b with
  | [] => Err E_EMPTY
  | c :: _ => if Nat.ltb (length (c_levels c)) n_levels then Err E_KEY
              else Ok (map l_direct (firstn n_levels (c_levels c)))
  end.

Record h5 := mkH5 {
  h_direct : list bool;           (* 'directly_assigned' *)
  h_nodes : list (list Z);        (* 'int_to_node', per level *)
  h_ids : list Z;                 (* 'cell_id' *)
  h_rows : list (list h5row);     (* cells x levels *)
  h_width : nat                   (* n_runners_up; 0 = the three runner-up datasets are absent *)
}.

(* nodes_per_level = [nodes_at_level(l) for l in hierarchy] of the tree in output["taxonomy_tree"];
   w = config['type_assignment']['n_runners_up'] *)
Definition blob_to_hdf5 (nodes_per_level : list (list Z)) (w : nat) (b : blob) : res h5 :=
  bind (first_flags (length nodes_per_level) b) (fun fl =>
  bind (mapM (fun c => write_levels w nodes_per_level (c_levels c)) b) (fun rows =>
  Ok (mkH5 fl nodes_per_level (map c_id b) rows w))).

(* ---------------- hdf5_to_blob ---------------- *)
(* python list indexing with a (numpy) integer: negative values count from the end *)
Definition py_nth {A} (l : list A) (z : Z) : option A :=
  if z <? 0 then (if z <? - Z.of_nat (length l) then None else nth_error l (Z.to_nat (Z.of_nat (length l) + z)))
  else nth_error l (Z.to_nat z).

(* for i_r in range(n_r): if r_assignment[.., i_r] < 0: break ; append the three values *)
Fixpoint read_runners (nodes : list Z) (ra : list Z) (rp rc : list rat) {struct ra} : res runners :=
  match ra with
  | [] => Ok (mkRun [] [] [])
  | a :: ra' =>
      if a <? 0 then Ok (mkRun [] [] [])
      else match py_nth nodes a with
           | None => Err E_INDEX
           | Some nd =>
               match rp, rc with
               | p :: rp', c :: rc' =>
                   bind (read_runners nodes ra' rp' rc')
                        (fun r => Ok (mkRun (nd :: ru_assign r) (p :: ru_prob r) (c :: ru_corr r)))
               | _, _ => Err E_INDEX
               end
           end
  end.

Definition read_level (w : nat) (nodes : list Z) (direct : bool) (row : h5row) : res lvl :=
  match py_nth nodes (w_assign row) with
  | None => Err E_INDEX
  | Some a =>
      if direct then
        bind (if Nat.eqb w 0 then Ok (mkRun [] [] [])
              else read_runners nodes (w_ra row) (w_rp row) (w_rc row))
             (fun r => Ok (mkLvl a (w_prob row) (w_corr row) (w_agg row) true (Some r)))
      else Ok (mkLvl a (w_prob row) (w_corr row) (w_agg row) false None)
  end.

(* for i_level, level in enumerate(hierarchy) *)
Fixpoint read_levels (w : nat) (nodes_per_level : list (list Z)) (direct : list bool) (row : list h5row)
  : res (list lvl) :=
  match nodes_per_level with
  | [] => Ok []
  | nodes :: nt =>
      match direct, row with
      | d :: dt, r :: rt =>
          bind (read_level w nodes d r) (fun l => bind (read_levels w nt dt rt) (fun ls => Ok (l :: ls)))
      | _, _ => Err E_INDEX
      end
  end.

(* for i_cell, cell_id in enumerate(cell_id_arr) *)
Fixpoint read_cells (w : nat) (npl : list (list Z)) (direct : list bool) (ids : list Z)
         (rows : list (list h5row)) : res blob :=
  match ids with
  | [] => Ok []
  | i :: it =>
      match rows with
      | [] => Err E_INDEX
      | r :: rt => bind (read_levels w npl direct r)
                        (fun ls => bind (read_cells w npl direct it rt) (fun cs => Ok (mkCell i ls :: cs)))
      end
  end.

Definition hdf5_to_blob (f : h5) : res blob :=
  read_cells (h_width f) (h_nodes f) (h_direct f) (h_ids f) (h_rows f).

(* ---------------- hypotheses of the round trip, as boolean predicates ---------------- *)
Definition runners_ok (w : nat) (nodes : list Z) (r : runners) : bool :=
  Nat.leb (length (ru_assign r)) w &&
  Nat.eqb (length (ru_prob r)) (length (ru_assign r)) &&
  Nat.eqb (length (ru_corr r)) (length (ru_assign r)) &&
  forallb (fun a => zmem a nodes) (ru_assign r).
(* the runner-up keys are present exactly on the directly assigned levels *)
Definition lvl_ok (w : nat) (nodes : list Z) (l : lvl) : bool :=
  zmem (l_assign l) nodes &&
  match l_run l with
  | Some r => l_direct l && runners_ok w nodes r
  | None => negb (l_direct l)
  end.
Fixpoint levels_ok (w : nat) (npl : list (list Z)) (ls : list lvl) : bool :=
  match npl, ls with
  | [], [] => true
  | nodes :: nt, l :: lt => lvl_ok w nodes l && levels_ok w nt lt
  | _, _ => false
  end.
Definition cell_ok (w : nat) (npl : list (list Z)) (c : cell) : bool := levels_ok w npl (c_levels c).
(* the flag is the same for every record, level by level *)
Definition flags_of (c : cell) : list bool := map l_direct (c_levels c).
Fixpoint bools_eqb (a b : list bool) : bool :=
  match a, b with
  | [], [] => true
  | x :: a', y :: b' => Bool.eqb x y && bools_eqb a' b'
  | _, _ => false
  end.
Definition flags_uniform (b : blob) : bool :=
  match b with
  | [] => true
  | c0 :: rest => forallb (fun c => bools_eqb (flags_of c) (flags_of c0)) rest
  end.
Definition blob_ok (w : nat) (npl : list (list Z)) (b : blob) : bool :=
  negb (match b with [] => true | _ => false end) && forallb (cell_ok w npl) b && flags_uniform b.

(* ---------------- re_order_blob ---------------- *)
(* {c['cell_id']: c for c in blob} ; [d[c] for c in cell_order]  -- the last record of an id wins *)
Definition find_last (b : blob) (i : Z) : option cell :=
  find (fun c => c_id c =? i) (rev b).
Definition re_order_blob (b : blob) (order : list Z) : res blob :=
  mapM (fun i => match find_last b i with Some c => Ok c | None => Err E_KEY end) order.

(* ---------------- name tables ---------------- *)
Record naming := mkNaming {
  n_hmap : option (list (Z * Z));                                   (* 'hierarchy_mapper' *)
  n_tables : option (list (Z * list (Z * (option Z * option Z))))   (* 'name_mapper': level -> label -> (name, alias) *)
}.
Definition label_to_name (nm : naming) (level label : Z) (alias : bool) : Z :=
  match n_tables nm with
  | None => label
  | Some tb =>
      match zassoc level tb with
      | None => label
      | Some lt =>
          match zassoc label lt with
          | None => label
          | Some na => match (if alias then snd na else fst na) with Some v => v | None => label end
          end
      end
  end.
Definition level_to_name (nm : naming) (level : Z) : Z :=
  match n_hmap nm with
  | None => level
  | Some m => match zassoc level m with Some v => v | None => level end
  end.

(* ---------------- blob_to_df ---------------- *)
(* a column of the data frame.  The real column NAME is the string f'{readable_level}_{element}': the key
   holds the READABLE level name rl = level_to_name(level) (not the position of the level): two levels
   that the hierarchy_mapper sends to one readable name share their columns (finding F31).
   field: 0 bootstrapping_probability, 1 avg_correlation, 2 aggregate_probability, 3 directly_assigned
   runner-up kind: 0 assignment, 1 correlation, 2 probability ; idx = position in the list.
   (Two keys that differ as (rl, element) differ as strings: no element name is '<x>_<element>' of
   another; the harness checks the injectivity of its column-name table on every case.) *)
Inductive colkey :=
  | KId | KLabel (rl : Z) | KName (rl : Z) | KAlias (rl : Z)
  | KField (rl : Z) (f : nat) | KRun (rl : Z) (kind : nat) (idx : nat).
Definition colkey_eqb (a b : colkey) : bool :=
  match a, b with
  | KId, KId => true
  | KLabel x, KLabel y | KName x, KName y | KAlias x, KAlias y => x =? y
  | KField x f, KField y g => (x =? y) && Nat.eqb f g
  | KRun x k i, KRun y l j => (x =? y) && Nat.eqb k l && Nat.eqb i j
  | _, _ => false
  end.
Definition col_level (k : colkey) : option Z :=
  match k with
  | KId => None
  | KLabel x | KName x | KAlias x | KField x _ | KRun x _ _ => Some x
  end.

Inductive dval := DName (z : Z) | DNum (r : rat) | DBool (b : bool).

Fixpoint enum_from {A} (k : nat) (l : list A) : list (nat * A) :=
  match l with [] => [] | x :: t => (k, x) :: enum_from (S k) t end.

(* the elements of cell[level] other than 'assignment', in the key order the mapper creates them *)
Definition level_elements (rl : Z) (l : lvl) : list (colkey * dval) :=
  [(KField rl 0, DNum (l_prob l)); (KField rl 1, DNum (l_corr l))] ++
  (match l_run l with
   | None => []
   | Some r =>
       map (fun p => (KRun rl 0 (fst p), DName (snd p))) (enum_from 0 (ru_assign r)) ++
       map (fun p => (KRun rl 1 (fst p), DNum (snd p))) (enum_from 0 (ru_corr r)) ++
       map (fun p => (KRun rl 2 (fst p), DNum (snd p))) (enum_from 0 (ru_prob r))
   end) ++
  [(KField rl 2, DNum (l_agg l)); (KField rl 3, DBool (l_direct l))].

(* the assignments `this_record[key] = value` made for one level, in program order *)
Definition level_record (nm : naming) (is_leaf : bool) (level : Z) (l : lvl) : list (colkey * dval) :=
  let rl := level_to_name nm level in
  [(KLabel rl, DName (l_assign l)); (KName rl, DName (label_to_name nm level (l_assign l) false))] ++
  (if is_leaf then [(KAlias rl, DName (label_to_name nm level (l_assign l) true))] else []) ++
  level_elements rl l.

(* ... for all levels of the hierarchy (is_leaf: level == taxonomy_tree.leaf_level, the last one) *)
Fixpoint levels_record (nm : naming) (hier : list Z) (ls : list lvl) : res (list (colkey * dval)) :=
  match hier with
  | [] => Ok []
  | level :: ht =>
      match ls with
      | [] => Err E_KEY
      | l :: lt =>
          bind (levels_record nm ht lt)
               (fun rest => Ok (level_record nm (match ht with [] => true | _ => false end) level l ++ rest))
      end
  end.

(* a Python dict built by assignments: d[k] = v replaces the value of an existing key IN PLACE (the key
   keeps the position of its first insertion) and appends a new key at the end *)
Fixpoint dset {A} (k : colkey) (v : A) (r : list (colkey * A)) : list (colkey * A) :=
  match r with
  | [] => [(k, v)]
  | (k', v') :: t => if colkey_eqb k k' then (k, v) :: t else (k', v') :: dset k v t
  end.
Definition dict_of {A} (kvs : list (colkey * A)) : list (colkey * A) :=
  fold_left (fun r kv => dset (fst kv) (snd kv) r) kvs [].

(* this_record = {'cell_id': ...}; then the assignments of every level *)
Definition cell_record (nm : naming) (hier : list Z) (c : cell) : res (list (colkey * dval)) :=
  bind (levels_record nm hier (c_levels c)) (fun r => Ok (dict_of ((KId, DName (c_id c)) :: r))).

(* pd.DataFrame(records): the columns are the keys in order of first appearance *)
Definition kmem (k : colkey) (l : list colkey) : bool := existsb (colkey_eqb k) l.
Fixpoint add_cols (seen : list colkey) (ks : list colkey) : list colkey :=
  match ks with
  | [] => seen
  | k :: t => if kmem k seen then add_cols seen t else add_cols (seen ++ [k]) t
  end.
Definition all_cols (recs : list (list (colkey * dval))) : list colkey :=
  fold_left (fun seen r => add_cols seen (map fst r)) recs [].
Fixpoint klookup {A} (k : colkey) (r : list (colkey * A)) : option A :=
  match r with
  | [] => None
  | (k', v) :: t => if colkey_eqb k k' then Some v else klookup k t
  end.

Record frame := mkFrame { f_cols : list colkey; f_rows : list (list (option dval)) }.   (* None = NaN *)
Definition blob_to_df (nm : naming) (hier : list Z) (b : blob) : res frame :=
  bind (mapM (cell_record nm hier) b) (fun recs =>
  let cols := all_cols recs in
  Ok (mkFrame cols (map (fun r => map (fun k => klookup k r) cols) recs))).

(* ---------------- blob_to_csv ---------------- *)
(* np.round-like rounding of n/d to the nearest integer, ties to even (what '%.4f' does
   to the exact binary value once scaled by 10^4) *)
Definition round_half_even (x : rat) : Z :=
  let (n, d) := x in
  let q := n / d in
  let r := n mod d in
  if 2 * r <? d then q
  else if d <? 2 * r then q + 1
  else if Z.even q then q else q + 1.
(* '%.4f' % x, as the integer number of 1/10000 units *)
Definition fmt4 (x : rat) : Z := round_half_even (fst x * 10000, snd x).

(* a CSV field: a name; a number printed with '%.4f' (in units of 1e-4); a number of a column that
   blob_to_df turned into a pandas category (its name contains 'label', 'name', 'alias' or
   'assignment'): float_format does not apply, the shortest repr of the double is printed, i.e.
   the exact value; a boolean; the empty field of a NaN *)
Inductive cval := CName (z : Z) | CNum4 (z : Z) | CNumFull (r : rat) | CBool (b : bool) | CEmpty.
Definition csv_cell (cat : bool) (v : option dval) : cval :=
  match v with
  | None => CEmpty
  | Some (DName z) => CName z
  | Some (DNum r) => if cat then CNumFull r else CNum4 (fmt4 r)
  | Some (DBool b) => CBool b
  end.
(* categ = the readable level names that contain 'label', 'name', 'alias' or 'assignment' *)
Definition col_categ (categ : list Z) (k : colkey) : bool :=
  match col_level k with Some rl => zmem rl categ | None => false end.

(* the columns that survive `columns_to_drop`: cell_id; anything containing 'name', 'label',
   'alias' or the confidence label.  conf = 0: bootstrapping_probability, 1: avg_correlation
   (renamed correlation_coefficient).  sticky = the readable level names that themselves
   contain one of those words (then every column of the level is kept). *)
Definition keep_col (conf : nat) (sticky : list Z) (k : colkey) : bool :=
  match k with
  | KId | KLabel _ | KName _ | KAlias _ => true
  | KField rl f => Nat.eqb f conf || zmem rl sticky
  | KRun rl _ _ => zmem rl sticky
  end.

(* comment lines: 0 metadata file name; 1 hierarchy; 2 readable hierarchy; 3 version line
   with algorithm 0 = not stated, 1 = 'correlation' (flatten), 2 = 'hierarchical' *)
Inductive hline := HMeta (name : Z) | HHier (h : list Z) | HReadable (h : list Z) | HVersion (algo : nat).
Fixpoint lz_eqb (a b : list Z) : bool :=
  match a, b with
  | [], [] => true
  | x :: a', y :: b' => (x =? y) && lz_eqb a' b'
  | _, _ => false
  end.
Definition csv_header (nm : naming) (hier : list Z) (meta : option Z) (algo : nat) : list hline :=
  (match meta with Some m => [HMeta m] | None => [] end) ++
  [HHier hier] ++
  (let rd := map (level_to_name nm) hier in if lz_eqb rd hier then [] else [HReadable rd]) ++
  [HVersion algo].

Record csv := mkCsv { v_comments : list hline; v_cols : list colkey; v_rows : list (list cval) }.

Fixpoint select {A} (keep : list bool) (l : list A) : list A :=
  match keep, l with
  | k :: kt, x :: t => if k then x :: select kt t else select kt t
  | _, _ => []
  end.

Fixpoint map2 {A B C} (f : A -> B -> C) (a : list A) (b : list B) : list C :=
  match a, b with
  | x :: a', y :: b' => f x y :: map2 f a' b'
  | _, _ => []
  end.

(* the table blob_to_csv hands to to_csv: the surviving columns and, per record, the cells under them;
   `render` is what is made of a cell (None = NaN) of column k *)
Definition blob_to_table {B} (render : colkey -> option dval -> B)
           (nm : naming) (hier : list Z) (conf : nat) (sticky : list Z) (b : blob)
  : res (list colkey * list (list B)) :=
  bind (blob_to_df nm hier b) (fun df =>
  let keep := map (keep_col conf sticky) (f_cols df) in
  let cols := select keep (f_cols df) in
  Ok (cols, map (fun r => map2 render cols (select keep r)) (f_rows df))).

Definition blob_to_csv (nm : naming) (hier : list Z) (meta : option Z) (algo : nat)
           (conf : nat) (sticky categ : list Z) (b : blob) : res csv :=
  bind (blob_to_table (fun k v => csv_cell (col_categ categ k) v) nm hier conf sticky b) (fun t =>
  Ok (mkCsv (csv_header nm hier meta algo) (fst t) (snd t))).

(* ---------------- wire ---------------- *)
Definition sx_rat (x : sx) : option rat :=
  match x with
  | L [I n; I d] => if 0 <? d then Some (n, d) else None
  | _ => None
  end.
Definition of_rat (r : rat) : sx := L [I (fst r); I (snd r)].
Definition sx_Lrat : sx -> option (list rat) := sx_list sx_rat.
Definition sx_opt {A} (f : sx -> option A) (x : sx) : option (option A) :=
  match x with
  | L [] => Some None
  | L [a] => match f a with Some v => Some (Some v) | None => None end
  | _ => None
  end.
Definition sx_runners (x : sx) : option runners :=
  match x with
  | L [a; p; c] => match sx_LZ a, sx_Lrat p, sx_Lrat c with
                   | Some a', Some p', Some c' => Some (mkRun a' p' c')
                   | _, _, _ => None end
  | _ => None
  end.
(* (assignment prob corr agg direct runners?) *)
Definition sx_lvl (x : sx) : option lvl :=
  match x with
  | L [a; p; c; g; d; r] =>
      match sx_Z a, sx_rat p, sx_rat c, sx_rat g, sx_bool d, sx_opt sx_runners r with
      | Some a', Some p', Some c', Some g', Some d', Some r' => Some (mkLvl a' p' c' g' d' r')
      | _, _, _, _, _, _ => None end
  | _ => None
  end.
Definition sx_cell (x : sx) : option cell :=
  match x with
  | L [i; ls] => match sx_Z i, sx_list sx_lvl ls with
                 | Some i', Some ls' => Some (mkCell i' ls') | _, _ => None end
  | _ => None
  end.
Definition sx_blob : sx -> option blob := sx_list sx_cell.
Definition of_runners (r : runners) : sx :=
  L [of_LZ (ru_assign r); of_list of_rat (ru_prob r); of_list of_rat (ru_corr r)].
Definition of_lvl (l : lvl) : sx :=
  L [I (l_assign l); of_rat (l_prob l); of_rat (l_corr l); of_rat (l_agg l); of_bool (l_direct l);
     of_option of_runners (l_run l)].
Definition of_cell (c : cell) : sx := L [I (c_id c); of_list of_lvl (c_levels c)].
Definition of_blob : blob -> sx := of_list of_cell.
Definition of_res {A} (f : A -> sx) (r : res A) : sx :=
  match r with Ok a => sx_ok (f a) | Err e => sx_err e end.
Definition of_row (r : h5row) : sx :=
  L [I (w_assign r); of_rat (w_prob r); of_rat (w_agg r); of_rat (w_corr r);
     of_LZ (w_ra r); of_list of_rat (w_rp r); of_list of_rat (w_rc r)].
Definition sx_row (x : sx) : option h5row :=
  match x with
  | L [a; p; g; c; ra; rp; rc] =>
      match sx_Z a, sx_rat p, sx_rat g, sx_rat c, sx_LZ ra, sx_Lrat rp, sx_Lrat rc with
      | Some a', Some p', Some g', Some c', Some ra', Some rp', Some rc' => Some (mkRow a' p' g' c' ra' rp' rc')
      | _, _, _, _, _, _, _ => None end
  | _ => None
  end.
Definition of_h5 (f : h5) : sx :=
  L [of_list of_bool (h_direct f); of_LLZ (h_nodes f); of_LZ (h_ids f);
     of_list (of_list of_row) (h_rows f); of_nat (h_width f)].
Definition sx_h5 (x : sx) : option h5 :=
  match x with
  | L [d; n; i; r; w] =>
      match sx_list sx_bool d, sx_LLZ n, sx_LZ i, sx_list (sx_list sx_row) r, sx_nat w with
      | Some d', Some n', Some i', Some r', Some w' => Some (mkH5 d' n' i' r' w')
      | _, _, _, _, _ => None end
  | _ => None
  end.

(* tag 1501: (nodes_per_level n_runners_up blob) -> the HDF5 datasets *)
Definition run_blob_to_hdf5 (x : sx) : sx :=
  match x with
  | L [n; w; b] => match sx_LLZ n, sx_nat w, sx_blob b with
                   | Some n', Some w', Some b' => of_res of_h5 (blob_to_hdf5 n' w' b')
                   | _, _, _ => sx_bad end
  | _ => sx_bad
  end.
(* tag 1502: the HDF5 datasets -> blob *)
Definition run_hdf5_to_blob (x : sx) : sx :=
  match sx_h5 x with Some f => of_res of_blob (hdf5_to_blob f) | None => sx_bad end.
(* tag 1503: (nodes_per_level n_runners_up blob) -> (blob_ok, round trip result) *)
Definition run_roundtrip (x : sx) : sx :=
  match x with
  | L [n; w; b] => match sx_LLZ n, sx_nat w, sx_blob b with
                   | Some n', Some w', Some b' =>
                       sx_ok (L [of_bool (blob_ok w' n' b');
                                 of_res of_blob (bind (blob_to_hdf5 n' w' b') hdf5_to_blob)])
                   | _, _, _ => sx_bad end
  | _ => sx_bad
  end.

Definition sx_naming (x : sx) : option naming :=
  match x with
  | L [h; t] =>
      match sx_opt (sx_list (sx_pair sx_Z sx_Z)) h,
            sx_opt (sx_list (sx_pair sx_Z (sx_list (sx_pair sx_Z (sx_pair (sx_opt sx_Z) (sx_opt sx_Z)))))) t with
      | Some h', Some t' => Some (mkNaming h' t')
      | _, _ => None end
  | _ => None
  end.
Definition of_colkey (k : colkey) : sx :=
  match k with
  | KId => L [I 0]
  | KLabel rl => L [I 1; I rl]
  | KName rl => L [I 2; I rl]
  | KAlias rl => L [I 3; I rl]
  | KField rl f => L [I 4; I rl; of_nat f]
  | KRun rl k i => L [I 5; I rl; of_nat k; of_nat i]
  end.
Definition of_cval (v : cval) : sx :=
  match v with
  | CName z => L [I 0; I z]
  | CNum4 z => L [I 1; I z]
  | CBool b => L [I 2; of_bool b]
  | CEmpty => L [I 3]
  | CNumFull r => L [I 4; of_rat r]
  end.
Definition of_hline (h : hline) : sx :=
  match h with
  | HMeta m => L [I 0; I m]
  | HHier h => L [I 1; of_LZ h]
  | HReadable h => L [I 2; of_LZ h]
  | HVersion a => L [I 3; of_nat a]
  end.
Definition of_csv (c : csv) : sx :=
  L [of_list of_hline (v_comments c); of_list of_colkey (v_cols c); of_list (of_list of_cval) (v_rows c)].
(* tag 1504: (naming hierarchy meta? algo conf (sticky-names categ-names) blob) -> csv *)
Definition run_blob_to_csv (x : sx) : sx :=
  match x with
  | L [nm; h; m; a; c; L [s; g]; b] =>
      match sx_naming nm, sx_LZ h, sx_opt sx_Z m, sx_nat a, sx_nat c, sx_LZ s, sx_LZ g with
      | Some nm', Some h', Some m', Some a', Some c', Some s', Some g' =>
          match sx_blob b with
          | Some b' => of_res of_csv (blob_to_csv nm' h' m' a' c' s' g' b')
          | None => sx_bad end
      | _, _, _, _, _, _, _ => sx_bad end
  | _ => sx_bad
  end.
(* tag 1505: (blob order) -> re_order_blob *)
Definition run_re_order (x : sx) : sx :=
  match x with
  | L [b; o] => match sx_blob b, sx_LZ o with
                | Some b', Some o' => of_res of_blob (re_order_blob b' o')
                | _, _ => sx_bad end
  | _ => sx_bad
  end.
