(* Tracker — C19: cell_type_mapper.file_tracker.file_tracker.FileTracker together with
   utils/utils.py `mkstemp_clean` and `_clean_up`, as a state machine over an abstract
   file system.

   Paths are lists of integer name components (Model/FsModel.v: `path`, `lookup`, `set`,
   `remove`, `has_child`; paths are what `pathlib.Path(x).resolve().absolute()` gives: no
   symbolic links, no `..`).  A file system maps a path to Absent | Dir | File content
   (`look`); a content is an abstract integer, `empty_content` is the empty file that
   tempfile.mkstemp creates, shutil.copy copies the content.

   Tracker state, in the order the Python object holds it:
     t_tmp  self.tmp_dir            None | Some (the directory mkdtemp made)
     t_loc  self._path_to_location  dict: insertion ordered, `d[k] = v` of a present key
                                    keeps its position (dset)
     t_pre  self._file_pre_exists   dict
     t_out  self._to_write_out      list (append; duplicates possible)
   The names drawn by tempfile (mkdtemp / mkstemp) are INPUTS of the steps (observed from
   the real run); a step with a drawn name that tempfile cannot return (the name is taken,
   or — add_file — it is the added path itself: mkstemp's name is `<stem>_<8 chars><suffix>`,
   strictly longer than the name `<stem><suffix>` of the added path) is not legal and is
   rejected as a whole with code 5.

   Outputs of a step: OOk | OLoc location | OBool b | OErr code
     1  add_file: "exists but is not a file"            (RuntimeError)
     2  add_file: "is not a file" (input_only)          (RuntimeError)
     3  add_file: "will not be able to write to" (the parent is not a directory; RuntimeError)
     4  real_location / file_exists: "not listed in this FileTracker" (RuntimeError)
     5  the drawn name is not one tempfile can return (step not legal; nothing changes)
     6  no live tracker (model: operations on a tracker that was not created / already deleted)
     7  a tracker is already alive (model: one tracker at a time)
     8  environment write impossible (the target is a directory, or its parent is not one)
     9  mkdtemp / mkstemp: `dir` is not a directory      (FileNotFoundError / NotADirectoryError)
     10 __del__: a copy-out failed (the exception is ignored by the interpreter, the rest of
        __del__ — the clean-up — is skipped; copies made before it stay)
     11 __del__: _clean_up could not remove a directory (rmdir of a non-empty directory; with
        the fuel used — number of entries + 1 — this needs an ill-formed file system)
   Definitions only. *)
From Coq Require Import ZArith List Bool.
From CTM Require Import Base.Sx Model.FsModel.
Import ListNotations.
Open Scope Z_scope.

Inductive node := Absent | Dir | File (c : Z).

Definition look (f : fs) (p : path) : node :=
  match lookup f p with
  | None => Absent
  | Some (KDir, _) => Dir
  | Some (KFile, c) => File c
  end.
Definition put_file (p : path) (c : Z) (f : fs) : fs := set p (KFile, c) f.
Definition put_dir (p : path) (f : fs) : fs := set p (KDir, 0) f.

Definition n_is_file (n : node) : bool := match n with File _ => true | _ => false end.
Definition n_is_dir (n : node) : bool := match n with Dir => true | _ => false end.
Definition n_is_absent (n : node) : bool := match n with Absent => true | _ => false end.

(* pathlib: Path('/').parent == Path('/') *)
Definition parent (p : path) : path := removelast p.
Definition empty_content : Z := 0.

(* a well-formed file system: whatever exists lies in a directory *)
Definition wf (f : fs) : Prop := forall p a, look f (p ++ [a]) <> Absent -> look f p = Dir.

(* ---- Python dicts keyed by (resolved) paths ---- *)
Fixpoint dget {V : Type} (d : list (path * V)) (k : path) : option V :=
  match d with
  | [] => None
  | (k', v) :: t => if path_eqb k' k then Some v else dget t k
  end.
Fixpoint dset {V : Type} (k : path) (v : V) (d : list (path * V)) : list (path * V) :=
  match d with
  | [] => [(k, v)]
  | (k', v') :: t => if path_eqb k' k then (k', v) :: t else (k', v') :: dset k v t
  end.

Record tracker := {
  t_tmp : option path;
  t_loc : list (path * path);
  t_pre : list (path * bool);
  t_out : list path
}.
Definition with_loc (t : tracker) (l : list (path * path)) : tracker :=
  {| t_tmp := t_tmp t; t_loc := l; t_pre := t_pre t; t_out := t_out t |}.
Definition with_pre (t : tracker) (l : list (path * bool)) : tracker :=
  {| t_tmp := t_tmp t; t_loc := t_loc t; t_pre := l; t_out := t_out t |}.
Definition with_out (t : tracker) (l : list path) : tracker :=
  {| t_tmp := t_tmp t; t_loc := t_loc t; t_pre := t_pre t; t_out := l |}.

Record state := { s_fs : fs; s_tr : option tracker }.

Inductive op :=
| Create (tmp_dir : option path) (name : Z)          (* FileTracker(tmp_dir); name = what mkdtemp drew *)
| AddFile (p : path) (input_only : bool) (name : Z)  (* add_file; name = what mkstemp drew (unused without tmp_dir) *)
| RealLocation (p : path)
| FileExists (p : path)
| WriteTo (p : path) (c : Z)                         (* environment: the pipeline writes a file *)
| Del.                                               (* __del__ *)

Inductive out := OOk | OLoc (l : path) | OBool (b : bool) | OErr (code : Z).

(* ---- utils.mkstemp_clean(dir, delete): tempfile.mkstemp creates the (empty) file, the
   descriptor is closed, the file is removed again when delete is set ---- *)
Definition mkstemp_clean (f : fs) (dir : path) (name : Z) (delete : bool) : fs * out :=
  if negb (n_is_dir (look f dir)) then (f, OErr 9)
  else if negb (n_is_absent (look f (dir ++ [name]))) then (f, OErr 5)
  else
    let f1 := put_file (dir ++ [name]) empty_content f in
    ((if delete then remove (dir ++ [name]) f1 else f1), OLoc (dir ++ [name])).

(* ---- shutil.copy(src, dst) for a dst that is not a directory ---- *)
Definition copy_file (src dst : path) (f : fs) : res fs :=
  match look f src with
  | File c =>
      match look f dst with
      | Dir => Err 10
      | _ => if n_is_dir (look f (parent dst)) then Ok (put_file dst c f) else Err 10
      end
  | _ => Err 10
  end.

(* ---- utils._clean_up ---- *)
Definition children (f : fs) (d : path) : list path :=
  map fst (filter (fun kv => child_of d (fst kv)) f).

Fixpoint clean_up (fuel : nat) (p : path) (f : fs) : fs * bool :=
  match fuel with
  | O => (f, false)
  | S k =>
      match look f p with
      | File _ => (remove p f, true)                              (* unlink *)
      | Dir =>
          let '(g, ok) :=
            fold_left (fun (acc : fs * bool) (c : path) =>
                         let '(g, ok) := acc in if ok then clean_up k c g else (g, false))
                      (children f p) (f, true) in
          if ok then (if has_child g p then (g, false) else (remove p g, true))   (* rmdir *)
          else (g, false)
      | Absent => (f, true)
      end
  end.

(* ---- FileTracker.__init__ ---- *)
Definition new_tracker (tmp : option path) : tracker :=
  {| t_tmp := tmp; t_loc := []; t_pre := []; t_out := [] |}.

Definition create (f : fs) (tmp : option path) (name : Z) : fs * option tracker * out :=
  match tmp with
  | None => (f, Some (new_tracker None), OOk)
  | Some d =>
      if negb (n_is_dir (look f d)) then (f, None, OErr 9)
      else if negb (n_is_absent (look f (d ++ [name]))) then (f, None, OErr 5)
      else (put_dir (d ++ [name]) f, Some (new_tracker (Some (d ++ [name]))), OOk)
  end.

(* ---- FileTracker.add_file ---- *)
Definition add_check (f : fs) (p : path) (input_only : bool) : Z :=
  match look f p with
  | File _ => 0
  | Dir => 1
  | Absent => if input_only then 2 else if n_is_dir (look f (parent p)) then 0 else 3
  end.

Definition add_file (f : fs) (t : tracker) (p : path) (input_only : bool) (name : Z)
  : fs * tracker * out :=
  let e := add_check f p input_only in
  if negb (e =? 0) then (f, t, OErr e) else
  match t_tmp t with
  | None =>
      let t1 := with_pre t (dset p (n_is_file (look f p)) (t_pre t)) in
      (f, with_loc t1 (dset p p (t_loc t1)), OOk)
  | Some d =>
      let tp := d ++ [name] in
      if negb (n_is_absent (look f tp)) || path_eqb tp p then (f, t, OErr 5) else
      let t1 := with_pre t (dset p (n_is_file (look f p)) (t_pre t)) in
      match mkstemp_clean f d name false with
      | (f1, OLoc _) =>
          let f2 := match look f1 p with File c => put_file tp c f1 | _ => f1 end in   (* shutil.copy *)
          let t2 := with_loc t1 (dset p tp (t_loc t1)) in
          let t3 := if negb input_only && n_is_absent (look f2 p)
                    then with_out t2 (t_out t2 ++ [p]) else t2 in
          (f2, t3, OOk)
      | (_, r) => (f, t1, r)     (* mkstemp raised (the tracker's directory is gone): _file_pre_exists is set already *)
      end
  end.

(* ---- FileTracker.__del__ ---- *)
Fixpoint copy_out (loc : list (path * path)) (l : list path) (f : fs) : fs * Z :=
  match l with
  | [] => (f, 0)
  | dst :: r =>
      match dget loc dst with
      | None => (f, 10)
      | Some src =>
          match copy_file src dst f with
          | Ok g => copy_out loc r g
          | Err e => (f, e)
          end
      end
  end.

Definition del (f : fs) (t : tracker) : fs * out :=
  let '(g, e) := copy_out (t_loc t) (t_out t) f in
  if negb (e =? 0) then (g, OErr e) else
  match t_tmp t with
  | None => (g, OOk)
  | Some d => let '(h, ok) := clean_up (S (length g)) d g in (h, if ok then OOk else OErr 11)
  end.

(* ---- the environment writes a file ---- *)
Definition write_to (f : fs) (p : path) (c : Z) : fs * out :=
  match look f p with
  | Dir => (f, OErr 8)
  | _ => if n_is_dir (look f (parent p)) then (put_file p c f, OOk) else (f, OErr 8)
  end.

Definition step (s : state) (o : op) : state * out :=
  match o with
  | WriteTo p c =>
      let '(g, r) := write_to (s_fs s) p c in ({| s_fs := g; s_tr := s_tr s |}, r)
  | Create tmp name =>
      match s_tr s with
      | Some _ => (s, OErr 7)
      | None => let '(g, t, r) := create (s_fs s) tmp name in ({| s_fs := g; s_tr := t |}, r)
      end
  | AddFile p io name =>
      match s_tr s with
      | None => (s, OErr 6)
      | Some t => let '(g, t', r) := add_file (s_fs s) t p io name in
                  ({| s_fs := g; s_tr := Some t' |}, r)
      end
  | RealLocation p =>
      match s_tr s with
      | None => (s, OErr 6)
      | Some t => (s, match dget (t_loc t) p with Some l => OLoc l | None => OErr 4 end)
      end
  | FileExists p =>
      match s_tr s with
      | None => (s, OErr 6)
      | Some t => (s, match dget (t_pre t) p with Some b => OBool b | None => OErr 4 end)
      end
  | Del =>
      match s_tr s with
      | None => (s, OErr 6)
      | Some t => let '(g, r) := del (s_fs s) t in ({| s_fs := g; s_tr := None |}, r)
      end
  end.

Fixpoint run (s : state) (ops : list op) : state * list out :=
  match ops with
  | [] => (s, [])
  | o :: r => let '(s1, x) := step s o in let '(s2, xs) := run s1 r in (s2, x :: xs)
  end.

Definition start (f : fs) : state := {| s_fs := f; s_tr := None |}.

(* ---- pure helpers used by the statements ---- *)
(* ops of one tracker's life: neither Create nor Del *)
Definition mid_op (o : op) : bool :=
  match o with Create _ _ | Del => false | _ => true end.
(* the STRICT protocol: the environment writes only to locations real_location has returned so
   far.  The real caller (_run_mapping) does NOT keep to it: while its tracker lives it writes the
   query-marker cache (mkstemp_clean(dir=tmp_dir): a SIBLING of the tracker's directory), the
   result-buffer files and the CSV, none of which was handed out (Props/C19.v:
   ex_real_life_not_strict).  No theorem assumes it any more; it is kept for
   c19_tracker_inputs_untouched_no_tmp_refuted (even the strict protocol does not protect an
   input when tmp_dir is None). *)
Fixpoint writes_ok (s : state) (handed : list path) (ops : list op) : bool :=
  match ops with
  | [] => true
  | o :: r =>
      let '(s1, x) := step s o in
      (match o with WriteTo q _ => mem q handed | _ => true end)
      && writes_ok s1 (match x with OLoc l => l :: handed | _ => handed end) r
  end.
(* W: the paths the environment writes (tries to write) during a life *)
Definition written (ops : list op) : list path :=
  flat_map (fun o => match o with WriteTo p _ => [p] | _ => [] end) ops.
Definition writes_to (q : path) (o : op) : bool :=
  match o with WriteTo p _ => path_eqb p q | _ => false end.
(* the paths an operation names *)
Definition op_paths (o : op) : list path :=
  match o with
  | Create _ _ | Del => []
  | AddFile p _ _ | RealLocation p | FileExists p | WriteTo p _ => [p]
  end.
(* the paths added as outputs: add_file(p, input_only=False) *)
Definition requested (ops : list op) : list path :=
  flat_map (fun o => match o with AddFile p false _ => [p] | _ => [] end) ops.
Definition added (ops : list op) : list path :=
  flat_map (fun o => match o with AddFile p _ _ => [p] | _ => [] end) ops.

(* ---- one life: FileTracker(tmp, drawn name n0); the calls `mid`; del ---- *)
Definition alive (f0 : fs) (tmp : option path) (n0 : Z) (mid : list op) : state :=
  fst (run (start f0) (Create tmp n0 :: mid)).
Definition life (f0 : fs) (tmp : option path) (n0 : Z) (mid : list op) : state :=
  fst (run (start f0) (Create tmp n0 :: mid ++ [Del])).
Definition add_content (f : fs) (p : path) : Z :=
  match look f p with File c => c | _ => empty_content end.
(* STALE: what lies at or below an entry that the tmp_dir parent d had BEFORE the life began.
   `entries f d` = the names a with an entry d ++ [a] in f; `stale_in d E q` = q lies at or below
   d ++ [a] for a name a in E.  What the run itself makes in d during the life (the tracker's own
   directory, but also fresh siblings written by the environment: _run_mapping's query-marker
   cache) is NOT stale. *)
Definition entries (f : fs) (d : path) : list Z :=
  flat_map (fun kv => match strip d (fst kv) with Some [a] => [a] | _ => [] end) f.
Definition stale_in (d : path) (E : list Z) (q : path) : bool :=
  existsb (fun a => is_prefix (d ++ [a]) q) E.
(* decidable forms of hypotheses (for the examples) *)
Definition wfb (f : fs) : bool :=
  forallb (fun kv => match fst kv with
                     | [] => true
                     | _ :: _ => n_is_dir (look f (parent (fst kv)))
                     end) f.
Definition node_eqb (a b : node) : bool :=
  match a, b with
  | Absent, Absent => true
  | Dir, Dir => true
  | File x, File y => x =? y
  | _, _ => false
  end.
Definition agree_b (d : path) (E : list Z) (f f' : fs) : bool :=
  forallb (fun kv => stale_in d E (fst kv) || node_eqb (look f (fst kv)) (look f' (fst kv))) (f ++ f').
Definition ops_ns_b (d : path) (E : list Z) (mid : list op) : bool :=
  forallb (fun o => forallb (fun p => negb (stale_in d E p)) (op_paths o)) mid.

(* the hypotheses of the theorems of Props/C19.v about one life with a tmp_dir, as ONE boolean
   (evaluated by the harness on the lives recorded from real run_mapping's, tag 1954):
   f0 well formed, d a directory, the drawn name new, calls of one life only; the environment
   writes no path that was HANDED TO THE TRACKER (`added mid`: the add_file'd paths) except those
   listed in `ow`; no requested output lies inside the tracker's own directory; the calls name
   nothing at or below an entry d had before the life (c19_tracker_independent_of_stale).
   `ow` ("overwritten by design") is [] for a plain _run_mapping and [query] when obsm_key is set:
   append_to_obsm(h5ad_path=config['query_path']) opens the ORIGINAL query path read-write while
   the tracker lives (cli/from_specified_markers.py:438 - not the tracker's copy, which only the
   readers of real_location(query) see), so the query IS written and theorem (1) is silent about it
   on such a life, as it must be.
   Audit 4 (A1): the clause used to be "the environment writes no FILE OF f0".  That is false on
   real lives the theorems quantify over: a second run with the same csv_result_path rewrites the
   CSV the first left (a file of f0, never handed to the tracker).  The theorems never needed it:
   (1) and (4) ask "not written" only of the path they speak about. *)
Definition life_premise_ow (ow : list path) (f0 : fs) (d : path) (n0 : Z) (mid : list op) : bool :=
  wfb f0 && n_is_dir (look f0 d) && n_is_absent (look f0 (d ++ [n0])) && forallb mid_op mid
  && forallb (fun q => negb (mem q (added mid)) || mem q ow) (written mid)
  && forallb (fun p => negb (is_prefix (d ++ [n0]) p)) (requested mid)
  && ops_ns_b d (entries f0 d) mid.
Definition life_premise (f0 : fs) (d : path) (n0 : Z) (mid : list op) : bool :=
  life_premise_ow [] f0 d n0 mid.

(* ---- wire ---- *)
Definition sx_opath (x : sx) : option (option path) :=
  match x with
  | L [] => Some None
  | L [p] => match sx_path p with Some p' => Some (Some p') | None => None end
  | _ => None
  end.

Definition sx_top (x : sx) : option op :=
  match x with
  | L [I k] => if k =? 5 then Some Del else None
  | L [I k; a] =>
      if k =? 2 then option_map RealLocation (sx_path a)
      else if k =? 3 then option_map FileExists (sx_path a)
      else None
  | L [I k; a; I b] =>
      if k =? 0 then option_map (fun t => Create t b) (sx_opath a)
      else if k =? 4 then option_map (fun p => WriteTo p b) (sx_path a)
      else None
  | L [I k; a; I io; I n] =>
      if k =? 1 then option_map (fun p => AddFile p (negb (io =? 0)) n) (sx_path a) else None
  | _ => None
  end.

Definition of_out (x : out) : sx :=
  match x with
  | OOk => L [I 0]
  | OLoc l => L [I 1; of_LZ l]
  | OBool b => L [I 2; of_bool b]
  | OErr c => L [I 3; I c]
  end.

Definition of_tracker (t : tracker) : sx :=
  L [of_option of_LZ (t_tmp t);
     of_list (fun kv => L [of_LZ (fst kv); of_LZ (snd kv)]) (t_loc t);
     of_list (fun kv => L [of_LZ (fst kv); of_bool (snd kv)]) (t_pre t);
     of_list of_LZ (t_out t)].

Definition sx_kv {V} (g : sx -> option V) (x : sx) : option (path * V) := sx_pair sx_path g x.

Definition sx_tracker (x : sx) : option tracker :=
  match x with
  | L [tmp; loc; pre; o] =>
      match sx_opath tmp, sx_list (sx_kv sx_path) loc, sx_list (sx_kv sx_bool) pre, sx_list sx_path o with
      | Some tmp', Some loc', Some pre', Some o' =>
          Some {| t_tmp := tmp'; t_loc := loc'; t_pre := pre'; t_out := o' |}
      | _, _, _, _ => None
      end
  | _ => None
  end.

Definition sx_otracker (x : sx) : option (option tracker) :=
  match x with
  | L [] => Some None
  | L [t] => match sx_tracker t with Some t' => Some (Some t') | None => None end
  | _ => None
  end.

Definition of_state (s : state) : sx :=
  L [of_list of_entry (s_fs s); of_option of_tracker (s_tr s)].

(* tag 1950: one entry point: (fs tracker? op) -> (fs tracker? out) *)
Definition run_tracker_step (x : sx) : sx :=
  match x with
  | L [f; t; o] =>
      match sx_list sx_entry f, sx_otracker t, sx_top o with
      | Some f', Some t', Some o' =>
          let '(s, r) := step {| s_fs := f'; s_tr := t' |} o' in
          sx_ok (L [of_state s; of_out r])
      | _, _, _ => sx_bad
      end
  | _ => sx_bad
  end.

(* tag 1951: a whole life: (fs ops) -> the state and the output after every step *)
Fixpoint scan (s : state) (ops : list op) : list sx :=
  match ops with
  | [] => []
  | o :: r => let '(s1, x) := step s o in L [of_state s1; of_out x] :: scan s1 r
  end.
Definition run_tracker_ops (x : sx) : sx :=
  match x with
  | L [f; ops] =>
      match sx_list sx_entry f, sx_list sx_top ops with
      | Some f', Some ops' => sx_ok (L (scan (start f') ops'))
      | _, _ => sx_bad
      end
  | _ => sx_bad
  end.

(* tag 1952: utils._clean_up(path) on a file system: (fs path) -> (fs ok) *)
Definition run_clean_up (x : sx) : sx :=
  match x with
  | L [f; p] =>
      match sx_list sx_entry f, sx_path p with
      | Some f', Some p' =>
          let '(g, ok) := clean_up (S (length f')) p' f' in
          sx_ok (L [of_list of_entry g; of_bool ok])
      | _, _ => sx_bad
      end
  | _ => sx_bad
  end.

(* tag 1953: utils.mkstemp_clean(dir, delete) with the drawn name: (fs dir name delete) -> (fs out) *)
Definition run_mkstemp_clean (x : sx) : sx :=
  match x with
  | L [f; d; I n; dl] =>
      match sx_list sx_entry f, sx_path d, sx_bool dl with
      | Some f', Some d', Some dl' =>
          let '(g, r) := mkstemp_clean f' d' n dl' in
          sx_ok (L [of_list of_entry g; of_out r])
      | _, _, _ => sx_bad
      end
  | _ => sx_bad
  end.

(* tag 1954: the hypotheses of the tracker theorems on a recorded life (fs d n0 mid) or
   (fs d n0 mid ow) -> (life_premise[_ow], strict protocol writes_ok, |written|, |requested|,
   the OLD clause of audit 4 A1 "no file of f0 is written" - reported, not required) *)
Definition run_life_premise (x : sx) : sx :=
  let go f' d' n0 mid ow :=
    sx_ok (L [of_bool (life_premise_ow ow f' d' n0 mid);
              of_bool (writes_ok (start f') [] (Create (Some d') n0 :: mid));
              of_nat (length (written mid)); of_nat (length (requested mid));
              of_bool (forallb (fun q => negb (n_is_file (look f' q))) (written mid))]) in
  match x with
  | L [f; d; I n0; ops] =>
      match sx_list sx_entry f, sx_path d, sx_list sx_top ops with
      | Some f', Some d', Some mid => go f' d' n0 mid []
      | _, _, _ => sx_bad
      end
  | L [f; d; I n0; ops; ow] =>
      match sx_list sx_entry f, sx_path d, sx_list sx_top ops, sx_list sx_path ow with
      | Some f', Some d', Some mid, Some ow' => go f' d' n0 mid ow'
      | _, _, _, _ => sx_bad
      end
  | _ => sx_bad
  end.
