(* Model of what the marker finder computes FROM THE SUMMARY STATISTICS of two clusters:
     diff_exp/score_utils.py : aggregate_stats (mean, var from n, sum, sumsq), pij_from_stats,
                               q_score_from_pij
     utils/stats_utils.py    : _calculate_tt_nu, exact_welch_t_test / approximate_welch_t_test
                               (what the code does WITH a CDF value; the CDF itself is an oracle)
     diff_exp/scores.py      : score_differential_genes fed from the statistics.
   A log2(CPM+1) value is v/D, so a sum is an integer over D and a sum of squares an integer
   over D*D (as in Model/Stats.v, whose `summary` rows are the input here).  Every derived
   number is an exact rational (num, den) with den > 0; the Welch statistic is kept as its
   sign and its SQUARE (no square root is ever needed: the code only compares t with +-boring_t
   and hands it to the CDF).  IEEE special values that the float code produces are explicit:
     - a cluster with 0 cells:  var/0 is inf or nan, nu is always nan           -> TN_nan
     - a cluster with 1 cell :  var**2/(n**3-n**2) is 0/0 = nan (var = 0) or inf (var <> 0):
                                nan makes nu_denom fall back to 1.0, inf makes nu = 0
     - var1/n1 + var2/n2 not > 0: sqrt gives 0 or NaN, neither is > 0.0, denom = 1.0e-10 -> TN_tiny;
                                when both variances are EXACTLY 0.0 nu_denom = 0 falls back to 1.0 and
                                nu = 0; when the sum is NEGATIVE (rounding noise, see var_f) nu > 0
   THE VARIANCE IS THE FLOAT VARIANCE (audit 3, defect A2).  aggregate_stats computes
     var = (sumsq - sum**2/max(1,n))/max(1,n-1)
   in binary64: for a gene that is constant at a non-dyadic value (0.7, 3.3 ...) the stored sum and sumsq
   give, by cancellation, a tiny non-zero variance of EITHER sign (0.7 x 9 cells: -1.1e-16; 3.3 x 11:
   +1.4e-15), and everything that follows (which branch of _calculate_tt_nu, nu = 0 or not, t ~ 1e8..1e10)
   hangs on its sign.  The exact variance of the stored (dyadic) sum and sumsq is a DIFFERENT tiny number,
   so var_f below performs the four operations with `fl`, round-to-nearest-even to 53 significant bits
   (binary64 without exponent limits: no overflow / underflow is modelled, statistics are far from both;
    NOR IS THE INT64 WRAP OF n**3 - n**2 - audit 4, A6: EXPLICIT HYPOTHESIS OF THIS MODEL: every cluster /
    node has n_cells <= 2^21 = 2,097,152, see kterm below),
   and nu_num = fl(fl(var1/n1) + fl(var2/n2)) likewise, so that the tests `denom > 0.0` and
   `nu_denom > 0.0` are decided exactly as the code decides them.  For the same reason the means and their
   difference are the binary64 ones (mean_f, mdiff_f: sign of t, direction, log2_fold).  The remaining operations (sqrt,
   quotients of non-cancelling quantities) stay exact rationals: the tie compares them to 1e-12.
   THE P-VALUE ORACLE IS A FUNCTION OF THE MODELLED STATISTIC (defect A6): t_cdf : tnu -> option Z stands for
   scipy.stats.t.cdf(t, df=nu); two genes with the same statistic get the same value and nu matters.
   Definitions only. *)
From Coq Require Import ZArith List Bool Arith.
From CTM Require Import Base.Sx Model.Holm Model.Penetrance Model.Stats.
Import ListNotations.
Open Scope Z_scope.

Definition rat := (Z * Z)%type.                  (* (numerator, denominator > 0) *)

(* one gene of one cluster: n_cells, sum (over D), sumsq (over D*D), ge1 *)
Record cstat := mk_cstat { c_n : Z; c_sum : Z; c_sumsq : Z; c_ge1 : Z }.

Definition E_INEXACT := 11.    (* model only: S is not a common denominator of the scores *)

(* the rows of a summary, one cstat per gene; numpy raises on arrays of different length *)
Definition cstats_of (s : summary) : pres (list cstat) :=
  if negb ((length (s_sum s) =? length (s_sumsq s))%nat && (length (s_sum s) =? length (s_ge1 s))%nat)
  then PErr E_SHAPE
  else POk (map (fun x : Z * Z * Z => let '(a, b, c) := x in mk_cstat (s_n s) a b c)
                (combine (combine (s_sum s) (s_sumsq s)) (s_ge1 s))).

(* aggregate_stats: sums over the leaves of a node (Stats.sum_rows), then
     mu  = sum / max(1, n)
     var = (sumsq - sum**2 / max(1, n)) / max(1, n - 1) *)
Definition aggregate (ng : nat) (leaves : list summary) : summary := sum_rows ng leaves.
Definition nmax1 (n : Z) : Z := Z.max 1 n.
(* the EXACT mean of the stored sum (the code's is mean_f below: one rounded division) *)
Definition mean_r (D : Z) (c : cstat) : rat := (c_sum c, D * nmax1 (c_n c)).
(* the EXACT variance of the stored numbers - NOT what the code computes when sumsq*n and sum^2 agree to
   16 digits (see var_f); kept for the contrast (Props/C11.v: c11_welch_constant_gene_noise) *)
Definition var_r (D : Z) (c : cstat) : rat :=
  (c_sumsq c * nmax1 (c_n c) - c_sum c * c_sum c, nmax1 (c_n c) * nmax1 (c_n c - 1) * (D * D)).

(* ---- binary64 rounding (round-to-nearest, ties-to-even) of a rational, 53 significant bits,
   exponent unbounded.  |x| = a/b: e with 2^52 <= a/(b 2^e) < 2^53 is log2 a - log2 b - 52 or one less;
   the quotient q and remainder r at that e give the significand q, q+1 (2r > d) or the even one (2r = d).
   The result is a dyadic rational with denominator 1 or 2^(-e). *)
Definition fl (x : rat) : rat :=
  let a := Z.abs (fst x) in
  let b := snd x in
  if a =? 0 then (0, 1)
  else
    let e0 := Z.log2 a - Z.log2 b - 52 in
    let q0 := if 0 <=? e0 then a / (b * 2 ^ e0) else (a * 2 ^ (- e0)) / b in
    let e := if q0 <? 2 ^ 52 then e0 - 1 else e0 in
    let n := if 0 <=? e then a else a * 2 ^ (- e) in
    let d := if 0 <=? e then b * 2 ^ e else b in
    let q := n / d in
    let r := n mod d in
    let q' := if 2 * r <? d then q else if d <? 2 * r then q + 1 else if Z.even q then q else q + 1 in
    let m := Z.sgn (fst x) * q' in
    if 0 <=? e then (m * 2 ^ e, 1) else (m, 2 ^ (- e)).

Definition radd (x y : rat) : rat := (fst x * snd y + fst y * snd x, snd x * snd y).
Definition rsub (x y : rat) : rat := (fst x * snd y - fst y * snd x, snd x * snd y).
Definition rdivz (x : rat) (n : Z) : rat := (fst x, snd x * n).          (* n > 0 *)

(* aggregate_stats' variance AS BINARY64 COMPUTES IT from the stored sum and sumsq (read as exact dyadics):
     fl( fl( sumsq - fl( fl(sum*sum) / max(1,n) ) ) / max(1,n-1) ) *)
Definition var_f (D : Z) (c : cstat) : rat :=
  let s2 := fl (c_sum c * c_sum c, D * D) in
  let t := fl (rdivz s2 (nmax1 (c_n c))) in
  let u := fl (rsub (c_sumsq c, D * D) t) in
  fl (rdivz u (nmax1 (c_n c - 1))).

(* mu = sum / max(1, n) and mean1 - mean2 AS BINARY64 COMPUTES THEM: for a gene with the same non-dyadic constant
   in both clusters (0.7 in 9 and in 7 cells) the two stored sums give means that differ by a rounding residue,
   and t, the direction and log2_fold are computed from that residue *)
Definition mean_f (D : Z) (c : cstat) : rat := fl (mean_r D c).
Definition mdiff_f (D : Z) (c1 c2 : cstat) : rat := fl (rsub (mean_f D c1) (mean_f D c2)).

(* ---- _calculate_tt_nu ---- *)
Inductive ext := EFin (n d : Z) | EInf | ENan.
(* var**2 / (n**3 - n**2), n >= 1.
   HYPOTHESIS n <= 2^21 (audit 4, A6).  Here n is an unbounded integer.  In the real code n_cells is the
   np.int64 that read_raw_precomputed_stats takes out of the 'n_cells' dataset (summed by aggregate_stats), so
   n**3 - n**2 is computed in int64 and WRAPS as soon as n**3 >= 2^63, i.e. for n > 2^21 (n = 2^21 itself is
   still right: n**3 wraps to -2^63 and the subtraction wraps back; Proofs/WelchP.v
   kterm_den_no_int64_wrap: 0 <= n <= 2^21 -> 0 <= n^3 - n^2 < 2^63).  Beyond it the real nu is not this
   model's: for 2^21 < n <= 2,642,245 the wrapped value is NEGATIVE (two such nodes: nu_denom < 0 falls back
   to 1.0, nu ~ 1e-12, p-value 1.0 for every gene), above that it is a wrong positive number (n1 = 3,000,000
   against a constant gene in 5 cells: real nu = 950360.77, this model 2999999).  Props/C11.v
   c11_int64_wrap_outside_model.  Every theorem "from the statistics" is a statement about runs in which
   all n_cells are <= 2^21. *)
Definition kterm (v : rat) (n : Z) : ext :=
  if n =? 1 then (if fst v =? 0 then ENan else EInf)
  else EFin (fst v * fst v) (snd v * snd v * (n * n * n - n * n)).

(* nu_denom = np.where(nu_denom > 0.0, nu_denom, 1.0); None = +inf *)
Definition nu_denom (k1 k2 : ext) : option rat :=
  match k1, k2 with
  | ENan, _ | _, ENan => Some (1, 1)
  | EInf, _ | _, EInf => None
  | EFin a b, EFin c d => if 0 <? a * d + c * b then Some (a * d + c * b, b * d) else Some (1, 1)
  end.

Inductive tnu :=
  | TN (sgn t2n t2d nun nud : Z)        (* t = sgn * sqrt(t2n/t2d), nu = nun/nud *)
  | TN_tiny (dn dd nun nud : Z)         (* denom = 1.0e-10: t = (dn/dd)/1.0e-10, nu = nun/nud *)
  | TN_nan.                             (* a cluster without cells: nu = nan *)

Definition welch_gene (D : Z) (c1 c2 : cstat) : tnu :=
  let n1 := c_n c1 in
  let n2 := c_n c2 in
  if (n1 <? 1) || (n2 <? 1) then TN_nan
  else
    let v1 := var_f D c1 in
    let v2 := var_f D c2 in
    (* nu_num = var1/n1 + var2/n2 = An/Ad, as binary64 computes it *)
    let A := fl (radd (fl (rdivz v1 n1)) (fl (rdivz v2 n2))) in
    let An := fst A in
    let Ad := snd A in
    (* mean1 - mean2 = dn/dd *)
    let dn := fst (mdiff_f D c1 c2) in
    let dd := snd (mdiff_f D c1 c2) in
    let nu := match nu_denom (kterm v1 n1) (kterm v2 n2) with
              | None => (0, 1)
              | Some (Kn, Kd) => (An * An * Kd, Ad * Ad * Kn)
              end in
    if 0 <? An then TN (Z.sgn dn) (dn * dn * Ad) (dd * dd * An) (fst nu) (snd nu)
    else TN_tiny dn dd (fst nu) (snd nu).

(* ---- from a CDF value to the p-value (exact_welch_t_test / approximate_welch_t_test) ----
     cdf = np.where(np.isfinite(cdf), cdf, 0.5)          (None = NaN)
     cdf = np.clip(cdf, eps, ceil)
     pval = np.where(cdf < 0.5, 2.0*cdf, 2.0*(1.0-cdf))
   a CDF value is c/(2H) (H the value 0.5), a p-value P/(2H) *)
Definition clipc (lo hi c : Z) : Z := Z.min hi (Z.max lo c).
Definition pval_of (S c : Z) : Z := if 2 * c <? S then 2 * c else 2 * (S - c).
Definition p_of_cdf (H lo hi : Z) (c : option Z) : Z :=
  pval_of (2 * H) (clipc lo hi (match c with Some v => v | None => H end)).

(* not (tt < -boring_t or tt > boring_t), boring_t = bn/bd >= 0 *)
Definition tnu_boring (bn bd : Z) (g : tnu) : bool :=
  match g with
  | TN _ t2n t2d _ _ => t2n * (bd * bd) <=? (bn * bn) * t2d
  | TN_tiny dn dd _ _ => Z.abs dn * EPS_DEN * bd <=? bn * (dd * EPS_NUM)
  | TN_nan => true
  end.

(* the raw p-value of one gene; c is the oracle's value scipy.stats.t.cdf(t, nu) at THIS statistic *)
Definition welch_p (H lo hi : Z) (b : option (Z * Z)) (g : tnu) (c : option Z) : Z :=
  match g with
  | TN_nan => p_of_cdf H lo hi None
  | _ => match b with
         | Some (bn, bd) => if tnu_boring bn bd g then p_of_cdf H lo hi (Some H) else p_of_cdf H lo hi c
         | None => p_of_cdf H lo hi c
         end
  end.

(* ---- pij_from_stats, q_score_from_pij ---- *)
Definition pij (c : cstat) : rat := (c_ge1 c, nmax1 (c_n c)).
Definition rgt (a b : rat) : bool := fst b * snd a <? fst a * snd b.        (* a > b *)
Definition q1_r (c1 c2 : cstat) : rat := if rgt (pij c1) (pij c2) then pij c1 else pij c2.
Definition qdiff_r (c1 c2 : cstat) : rat :=
  let q := q1_r c1 c2 in
  let dif := Z.abs (c_ge1 c1 * nmax1 (c_n c2) - c_ge1 c2 * nmax1 (c_n c1)) in
  let den := nmax1 (c_n c1) * nmax1 (c_n c2) in
  if 0 <? fst q then (dif * snd q, den * fst q) else (dif, den).
Definition fold_f (D : Z) (c1 c2 : cstat) : rat := (Z.abs (fst (mdiff_f D c1 c2)), snd (mdiff_f D c1 c2)).

(* r as an integer over S; None when S is not a multiple of the denominator *)
Definition to_S (S : Z) (r : rat) : option Z :=
  if (fst r * S) mod (snd r) =? 0 then Some (fst r * S / snd r) else None.

Definition gene_in (D S : Z) (c1 c2 : cstat) : option (score * Z * Z) :=
  match to_S S (q1_r c1 c2), to_S S (qdiff_r c1 c2), to_S S (fold_f D c1 c2),
        to_S S (mean_f D c1), to_S S (mean_f D c2) with
  | Some a, Some b, Some c, Some m1, Some m2 => Some ((a, b, c), m1, m2)
  | _, _, _, _, _ => None
  end.

Fixpoint opt_list {A} (l : list (option A)) : option (list A) :=
  match l with
  | [] => Some []
  | Some a :: t => match opt_list t with Some t' => Some (a :: t') | None => None end
  | None :: _ => None
  end.

Fixpoint map3 {A B C R} (f : A -> B -> C -> R) (a : list A) (b : list B) (c : list C) : list R :=
  match a, b, c with
  | x :: a', y :: b', z :: c' => f x y z :: map3 f a' b' c'
  | _, _, _ => []
  end.

Definition welch_genes (D : Z) (l1 l2 : list cstat) : list tnu :=
  map (fun cc => welch_gene D (fst cc) (snd cc)) (combine l1 l2).
(* t_cdf is the oracle scipy.stats.t.cdf as a FUNCTION of the modelled statistic (t and nu) *)
Definition welch_pvalues (H lo hi : Z) (b : option (Z * Z)) (t_cdf : tnu -> option Z) (tn : list tnu) : list Z :=
  map (fun g => welch_p H lo hi b g (t_cdf g)) tn.

(* the per-pair input of score_differential_genes, computed from the two rows *)
Definition stats_pair (D S H lo hi T : Z) (b : option (Z * Z)) (t_cdf : tnu -> option Z) (s1 s2 : summary)
  : pres pair_in :=
  pbind (cstats_of s1) (fun l1 =>
  pbind (cstats_of s2) (fun l2 =>
    if negb (length l1 =? length l2)%nat then PErr E_SHAPE
    else
      match opt_list (map (fun cc => gene_in D S (fst cc) (snd cc)) (combine l1 l2)) with
      | None => PErr E_INEXACT
      | Some gi =>
          POk (mk_pair_in (s_n s1) (s_n s2) (2 * H) T
                          (welch_pvalues H lo hi b t_cdf (welch_genes D l1 l2))
                          (map (fun x : score * Z * Z => fst (fst x)) gi)
                          (map (fun x : score * Z * Z => snd (fst x)) gi)
                          (map (fun x : score * Z * Z => snd x) gi))
      end)).

Definition sdg_stats (st : settings) (mask : option (list bool)) (D H lo hi T : Z) (b : option (Z * Z))
           (t_cdf : tnu -> option Z) (s1 s2 : summary) : pres (list bool * list bool) :=
  pbind (stats_pair D (st_S st) H lo hi T b t_cdf s1 s2) (score_differential_genes st mask).

(* ---- the oracle on the wire: a finite table statistic -> CDF value (None = NaN); the first entry of a
   statistic counts, so equal statistics cannot get different values.  A statistic without an entry is an
   error of the caller (E_ORACLE), not a NaN. *)
Definition E_ORACLE := 12.
Definition tnu_eqb (g g' : tnu) : bool :=
  match g, g' with
  | TN s a d n m, TN s' a' d' n' m' => (s =? s') && (a =? a') && (d =? d') && (n =? n') && (m =? m')
  | TN_tiny a d n m, TN_tiny a' d' n' m' => (a =? a') && (d =? d') && (n =? n') && (m =? m')
  | TN_nan, TN_nan => true
  | _, _ => false
  end.
Definition table_cdf (tbl : list (tnu * option Z)) (g : tnu) : option Z :=
  match find (fun e => tnu_eqb (fst e) g) tbl with Some e => snd e | None => None end.
Definition oracle_covers (D : Z) (tbl : list (tnu * option Z)) (s1 s2 : summary) : bool :=
  match cstats_of s1, cstats_of s2 with
  | POk l1, POk l2 =>
      forallb (fun g => match g with TN_nan => true | _ => existsb (fun e => tnu_eqb (fst e) g) tbl end)
              (welch_genes D l1 l2)
  | _, _ => true                (* the shape error is reported by the computation itself *)
  end.

(* ------------------------------------------------------------------ *)
(* wire *)
Definition of_tnu (g : tnu) : sx :=
  match g with
  | TN s a b c d => L [I 0; I s; I a; I b; I c; I d]
  | TN_tiny a b c d => L [I 1; I a; I b; I c; I d]
  | TN_nan => L [I 2]
  end.
Definition sx_tnu (x : sx) : option tnu :=
  match x with
  | L [I 0; I s; I a; I b; I c; I d] => Some (TN s a b c d)
  | L [I 1; I a; I b; I c; I d] => Some (TN_tiny a b c d)
  | L [I 2] => Some TN_nan
  | _ => None
  end.
Definition sx_oracle : sx -> option (list (tnu * option Z)) := sx_list (sx_pair sx_tnu (sx_option sx_Z)).
Definition of_rat (r : rat) : sx := L [I (fst r); I (snd r)].

(* tag 1150: (D s1 s2) -> per gene the Welch statistic and nu *)
Definition run_welch (x : sx) : sx :=
  match x with
  | L [d; a; b] =>
      match sx_Z d, sx_summary a, sx_summary b with
      | Some D, Some s1, Some s2 =>
          of_pres (of_list of_tnu)
                  (pbind (cstats_of s1) (fun l1 => pbind (cstats_of s2) (fun l2 =>
                     if negb (length l1 =? length l2)%nat then PErr E_SHAPE
                     else POk (welch_genes D l1 l2))))
      | _, _, _ => sx_bad
      end
  | _ => sx_bad
  end.
(* tag 1151: (D s1 s2) -> per gene mean1 mean2 var1 var2 pij1 pij2 q1 qdiff fold, as rationals
   (var1, var2: the binary64 values var_f) *)
Definition run_stat_scores (x : sx) : sx :=
  match x with
  | L [d; a; b] =>
      match sx_Z d, sx_summary a, sx_summary b with
      | Some D, Some s1, Some s2 =>
          of_pres (of_list (of_list of_rat))
                  (pbind (cstats_of s1) (fun l1 => pbind (cstats_of s2) (fun l2 =>
                     if negb (length l1 =? length l2)%nat then PErr E_SHAPE
                     else POk (map (fun cc : cstat * cstat => let (c1, c2) := cc in
                                      [mean_f D c1; mean_f D c2; var_f D c1; var_f D c2; pij c1; pij c2;
                                       q1_r c1 c2; qdiff_r c1 c2; fold_f D c1 c2]) (combine l1 l2)))))
      | _, _, _ => sx_bad
      end
  | _ => sx_bad
  end.
Definition sx_ratopt (x : sx) : option (option (Z * Z)) :=
  match x with
  | L [] => Some None
  | L [I a; I b] => Some (Some (a, b))
  | _ => None
  end.
(* tag 1152: (settings mask D H lo hi T boring oracle-table s1 s2) -> score_differential_genes from the statistics *)
Definition run_sdg_stats (x : sx) : sx :=
  match x with
  | L [st; m; d; h; lo; hi; t; b; cs; a1; a2] =>
      match sx_settings st, sx_option sx_Lbool m, sx_LZ (L [d; h; lo; hi; t]), sx_ratopt b,
            sx_oracle cs, sx_summary a1, sx_summary a2 with
      | Some st', Some m', Some [D; H; lo'; hi'; T], Some b', Some cs', Some s1, Some s2 =>
          if negb (oracle_covers D cs' s1 s2) then sx_err E_ORACLE else
          of_pres (fun vu => L [of_Lbool (fst vu); of_Lbool (snd vu)])
                  (sdg_stats st' m' D H lo' hi' T b' (table_cdf cs') s1 s2)
      | _, _, _, _, _, _, _ => sx_bad
      end
  | _ => sx_bad
  end.
(* tag 1153: (D H lo hi boring oracle-table s1 s2) -> the raw p-values *)
Definition run_welch_p (x : sx) : sx :=
  match x with
  | L [d; h; lo; hi; b; cs; a1; a2] =>
      match sx_LZ (L [d; h; lo; hi]), sx_ratopt b, sx_oracle cs, sx_summary a1, sx_summary a2 with
      | Some [D; H; lo'; hi'], Some b', Some cs', Some s1, Some s2 =>
          if negb (oracle_covers D cs' s1 s2) then sx_err E_ORACLE else
          of_pres of_LZ
                  (pbind (cstats_of s1) (fun l1 => pbind (cstats_of s2) (fun l2 =>
                     if negb (length l1 =? length l2)%nat then PErr E_SHAPE
                     else POk (welch_pvalues H lo' hi' b' (table_cdf cs') (welch_genes D l1 l2)))))
      | _, _, _, _, _ => sx_bad
      end
  | _ => sx_bad
  end.
(* tag 1154: (ng leaves) -> aggregate_stats sums *)
Definition run_aggregate (x : sx) : sx :=
  match x with
  | L [ng; ls] =>
      match sx_nat ng, sx_list sx_summary ls with
      | Some ng', Some ls' => sx_ok (of_summary (aggregate ng' ls'))
      | _, _ => sx_bad
      end
  | _ => sx_bad
  end.
